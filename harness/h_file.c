/* h_file.c - File streams (C20).  Link with -Wl,--wrap=fopen,--wrap=fclose (stream accounting).
 *   reset
 *   new <o> [<path> <mode>] | open <o> <path> <mode> | construct <o> <path> <mode>      mode: 1 rb 2 wb 3 r+b 4 w+b 5 ab 6 a+b ; path: small number
 *   write <o> <seed> <n> | read <o> <n> | seek <o> <off> <origin> | tell <o> | eof <o> | flush <o>
 *   close <o> | del <o> | withbegin <o> | withend <o> | print <o> <value> | scan <o>
 */
#include <sys/stat.h>
#include "hc.h"
#define MAXO 6
static var fobj[MAXO];
static long n_fopen, n_fclose;
FILE* __real_fopen(const char*, const char*); int __real_fclose(FILE*);
FILE* __wrap_fopen(const char* p, const char* m) { FILE* f = __real_fopen(p, m); if (f) n_fopen++; return f; }
int __wrap_fclose(FILE* f) { n_fclose++; return __real_fclose(f); }

static char dir[600];
static const char* MODES[] = { "", "rb", "wb", "r+b", "w+b", "ab", "a+b" };
static char pbuf[700];
/* path 9 lies in a directory that does not exist: opening it fails in every mode */
static const char* path_of(int p) { snprintf(pbuf, sizeof pbuf, p == 9 ? "%s/nodir/f%d" : "%s/f%d", dir, p); return pbuf; }
static unsigned char pat(long seed, long k) { return (unsigned char)((seed * 31 + k * 7 + (k / 256)) % 256); }

static unsigned char* rbuf; static size_t rcap;
static long long rdata[64]; static size_t rn; static long long rlen, rsum;

static void emit(const char* op, int o, long long a, long long b, const char* exc, long long r) {
  ev_begin(op); ev_int("o", o); ev_int("a", a); ev_int("b", b); ev_str("exc", exc); ev_str("msg", hc_msg); ev_int("r", r);
  ev_ints("data", rdata, rn); ev_int("dlen", rlen); ev_int("dsum", rsum); rn = 0; rlen = 0; rsum = 0;
  ev_int("nopen", n_fopen); ev_int("nclose", n_fclose);
  /* the C library's own view of every open stream */
  ev_arr_begin("st");
  for (int i = 1; i < MAXO; i++) if (fobj[i]) {
    struct File* f = fobj[i];
    ev_obj_begin(); ev_int("o", i); ev_int("open", f->file ? 1 : 0); ev_int("pos", f->file ? (long long)ftell(f->file) : -1);
    ev_int("ceof", f->file ? (feof(f->file) ? 1 : 0) : -1); ev_obj_end();
  }
  ev_arr_end(); ev_int("line", cur_line); ev_end();
}

int main(int argc, char** argv) {
  if (argc < 2) { fprintf(stderr, "usage: h_file script [out]\n"); return 9; }
  FILE* sf = __real_fopen(argv[1], "r"); if (!sf) { perror(argv[1]); return 9; }
  if (argc > 2) { ev_fd = open(argv[2], O_WRONLY | O_CREAT | O_TRUNC, 0644); if (ev_fd < 0) { perror(argv[2]); return 9; } }
  hc_install(0);
  { /* scratch files live next to the event log (the check's private work directory), never directly in /tmp */
    const char* base = argc > 2 ? argv[2] : "."; const char* sl = strrchr(base, '/');
    snprintf(dir, sizeof dir, "%.*s/hfile_XXXXXX", sl ? (int)(sl - base) : 1, sl ? base : ".");
    if (!mkdtemp(dir)) return 9; }
  while (hc_next(sf)) {
    alarm(30);
    if (hc_is(0, "reset")) {
      for (int i = 1; i < MAXO; i++) if (fobj[i]) { HC_TRY(del_raw(fobj[i])); fobj[i] = NULL; }
      if (cur_exec > 0) { ev_begin("end"); ev_int("nopen", n_fopen); ev_int("nclose", n_fclose); ev_end(); }
      for (int p = 0; p < 8; p++) { unlink(path_of(p)); }
      for (int p = 1; p <= 2; p++) { FILE* t = __real_fopen(path_of(p), "wb"); if (t) __real_fclose(t); }   /* both paths exist, empty */
      n_fopen = n_fclose = 0;
      cur_exec++; ev_begin("reset"); ev_end(); continue;
    }
    if (hc_is(0, "fullclose")) {
      /* a close that FAILS (the flush of buffered bytes to /dev/full is refused): IOError - and the stream has been closed by
         the C library all the same, once; deleting the File afterwards must not close it again */
      long c0 = n_fclose; volatile var ff = NULL; const char* x1 = ""; const char* x2 = "";
      HC_TRY(ff = new_raw(File, $S("/dev/full"), $S("wb")));
      if (ff) {
        unsigned char b8[8] = { 1, 2, 3, 4, 5, 6, 7, 8 };
        HC_TRY(swrite(ff, b8, 8));
        HC_TRY(sclose(ff)); x1 = hc_exc;
        int cleared = ((struct File*)ff)->file == NULL;
        HC_TRY(del_raw(ff)); x2 = hc_exc;
        ev_begin("fullclose"); ev_str("exc", x1); ev_str("delexc", x2); ev_int("cleared", cleared); ev_int("closes", n_fclose - c0); ev_int("line", cur_line); ev_end();
      } else { ev_begin("fullclose"); ev_str("exc", "noopen"); ev_str("delexc", ""); ev_int("cleared", 1); ev_int("closes", 1); ev_int("line", cur_line); ev_end(); }
      continue;
    }
    if (hc_is(0, "procclose2")) {           /* the same closed-handle test for the other stream type: a Process closed twice */
      volatile var pp = NULL; const char* x1 = ""; const char* x2 = "";
      HC_TRY(pp = new_raw(Process, $S("true"), $S("r")));
      if (pp) { HC_TRY(sclose(pp)); x1 = hc_exc; HC_TRY(sclose(pp)); x2 = hc_exc; HC_TRY(del_raw(pp)); }
      ev_begin("procclose2"); ev_str("exc", x1); ev_str("exc2", x2); ev_str("delexc", hc_exc); ev_int("line", cur_line); ev_end();
      continue;
    }
    int o = (int)hc_int(1);
    if (o <= 0 || o >= MAXO) return 9;
    if (hc_is(0, "new")) {
      volatile var m = NULL;
      if (hc_nw > 3) { const char* md = MODES[hc_int(3)]; char pth[128]; strcpy(pth, path_of((int)hc_int(2))); HC_TRY(m = new_raw(File, $S(pth), $S((char*)md))); }
      else HC_TRY(m = new_raw(File));
      fobj[o] = m; emit("new", o, hc_int(2), hc_int(3), hc_exc, 0); continue;
    }
    var f = fobj[o];
    if (!f) { ev_begin("missing"); ev_end(); continue; }
    if (hc_is(0, "construct")) {          /* construct <o> <path> <mode> : the constructor run again on a File that exists (and may be open): it opens like sopen */
      char pth[128]; strcpy(pth, path_of((int)hc_int(2))); HC_TRY(construct(f, $S(pth), $S((char*)MODES[hc_int(3)]))); emit("open", o, hc_int(2), hc_int(3), hc_exc, 0); }
    else if (hc_is(0, "open")) { char pth[128]; strcpy(pth, path_of((int)hc_int(2))); HC_TRY(sopen(f, $S(pth), $S((char*)MODES[hc_int(3)]))); emit("open", o, hc_int(2), hc_int(3), hc_exc, 0); }
    else if (hc_is(0, "write")) {
      long seed = (long)hc_int(2), n = (long)hc_int(3);
      if ((size_t)n + 1 > rcap) { rcap = (size_t)n + 1; rbuf = realloc(rbuf, rcap); }
      for (long k = 0; k < n; k++) rbuf[k] = pat(seed, k);
      volatile long long r = -1; HC_TRY(r = (long long)swrite(f, rbuf, (size_t)n));
      emit("write", o, seed, n, hc_exc, r);
    } else if (hc_is(0, "read")) {
      long n = (long)hc_int(2);
      if ((size_t)n + 1 > rcap) { rcap = (size_t)n + 1; rbuf = realloc(rbuf, rcap); }
      memset(rbuf, 0xEE, (size_t)n + 1);
      long before = ((struct File*)f)->file ? ftell(((struct File*)f)->file) : 0;
      volatile long long r = -1; HC_TRY(r = (long long)sread(f, rbuf, (size_t)n));
      if (!hc_exc[0]) {
        long after = ftell(((struct File*)f)->file); long got = after - before;       /* bytes actually delivered */
        rlen = got; for (long k = 0; k < got; k++) { rsum += rbuf[k]; if (got <= 64) rdata[rn++] = rbuf[k]; }
      }
      emit("read", o, n, 0, hc_exc, r);
    } else if (hc_is(0, "bigseek")) {
      /* bigseek <o> <a> <b> : seek to a * 2^20 + b (beyond 2^31, beyond 2^32: a sparse region past the end), ask where the stream is,
         and come back to where it was; the answer is logged in the same two parts (the specification's integers have 32 bits) */
      long long a = hc_int(2), b = hc_int(3), target = a * (1LL << 20) + b; volatile long long r = -1;
      long back = ((struct File*)f)->file ? ftell(((struct File*)f)->file) : 0; const char* x1 = "";
      HC_TRY(sseek(f, target, SEEK_SET); r = stell(f)); x1 = hc_exc;
      long long libc = ((struct File*)f)->file ? (long long)ftello(((struct File*)f)->file) : -1;
      if (((struct File*)f)->file) { fseek(((struct File*)f)->file, back, SEEK_SET); }
      ev_begin("bigseek"); ev_int("o", o); ev_int("a", a); ev_int("b", b); ev_str("exc", x1); ev_str("msg", hc_msg);
      ev_int("hi", r >> 20); ev_int("lo", r & ((1LL << 20) - 1)); ev_int("same", r == libc ? 1 : 0);
      ev_int("nopen", n_fopen); ev_int("nclose", n_fclose);
      ev_arr_begin("st");
      for (int i = 1; i < MAXO; i++) if (fobj[i]) {
        struct File* g = fobj[i];
        ev_obj_begin(); ev_int("o", i); ev_int("open", g->file ? 1 : 0); ev_int("pos", g->file ? (long long)ftell(g->file) : -1);
        ev_int("ceof", g->file ? (feof(g->file) ? 1 : 0) : -1); ev_obj_end();
      }
      ev_arr_end(); ev_int("line", cur_line); ev_end();
    } else if (hc_is(0, "seek")) { HC_TRY(sseek(f, hc_int(2), (int)hc_int(3))); emit("seek", o, hc_int(2), hc_int(3), hc_exc, 0); }
    else if (hc_is(0, "tell")) { volatile long long r = -1; HC_TRY(r = stell(f)); emit("tell", o, 0, 0, hc_exc, r); }
    else if (hc_is(0, "eof")) { volatile long long r = -1; HC_TRY(r = seof(f) ? 1 : 0); emit("eof", o, 0, 0, hc_exc, r); }
    else if (hc_is(0, "flush")) { HC_TRY(sflush(f)); emit("flush", o, 0, 0, hc_exc, 0); }
    else if (hc_is(0, "close")) { HC_TRY(sclose(f)); emit("close", o, 0, 0, hc_exc, 0); }
    else if (hc_is(0, "withbegin")) { HC_TRY(start_in(f)); emit("withbegin", o, 0, 0, hc_exc, 0); }
    else if (hc_is(0, "withend")) { HC_TRY(stop_in(f)); emit("withend", o, 0, 0, hc_exc, 0); }
    else if (hc_is(0, "print")) { volatile long long r = -1; HC_TRY(r = print_to(f, 0, "%li ", $I(hc_int(2)))); emit("print", o, hc_int(2), 0, hc_exc, r); }
    /* numbers written with a zero-padded width and read back through the Int's own look (%$): decimal, whatever the padding */
    else if (hc_is(0, "printz")) { volatile long long r = -1; HC_TRY(r = print_to(f, 0, "%05li ", $I(hc_int(2)))); emit("printz", o, hc_int(2), 0, hc_exc, r); }
    /* a literal per cent sign in the format, written and read back: "%li%% " */
    else if (hc_is(0, "printp")) { volatile long long r = -1; HC_TRY(r = print_to(f, 0, "%li%% ", $I(hc_int(2)))); emit("printp", o, hc_int(2), 0, hc_exc, r); }
    else if (hc_is(0, "scanp")) { var v = $I(-1); HC_TRY(scan_from(f, 0, "%li%% ", v)); emit("scanp", o, 0, 0, hc_exc, c_int(v)); }
    else if (hc_is(0, "scanshow")) { var v = $I(-1); HC_TRY(scan_from(f, 0, "%$ ", v)); emit("scan", o, 0, 0, hc_exc, c_int(v)); }
    else if (hc_is(0, "scan")) { var v = $I(-1); HC_TRY(scan_from(f, 0, "%li ", v)); emit("scan", o, 0, 0, hc_exc, c_int(v)); }
    else if (hc_is(0, "del")) { HC_TRY(del_raw(f)); fobj[o] = NULL; emit("del", o, 0, 0, hc_exc, 0); }
    /* the object outlives its destructor (the life cycle of a stack File, or of a File constructed again in place) */
    else if (hc_is(0, "destruct")) { HC_TRY(destruct(f)); emit("destruct", o, 0, 0, hc_exc, 0); }
    else if (hc_is(0, "construct")) { char pth[128]; strcpy(pth, path_of((int)hc_int(2))); HC_TRY(construct(f, $S(pth), $S((char*)MODES[hc_int(3)]))); emit("construct", o, hc_int(2), hc_int(3), hc_exc, 0); }
    else { fprintf(stderr, "unknown op %s\n", hc_w[0]); return 9; }
  }
  for (int i = 1; i < MAXO; i++) if (fobj[i]) { HC_TRY(del_raw(fobj[i])); fobj[i] = NULL; }
  ev_begin("end"); ev_int("nopen", n_fopen); ev_int("nclose", n_fclose); ev_end(); ev_flush();
  for (int p = 0; p < 8; p++) unlink(path_of(p));
  rmdir(dir);
  return 0;
}
