/* h_cfg.c - one deterministic, allocation-heavy in-contract program for the configuration comparison (C18).
 *   reset
 *   mix <seed> <rounds>      containers, sorting, iteration, hashing, survivors among garbage, nested exceptions,
 *                            thread-local values; one event per round with a digest of everything computed
 * Nothing here depends on whether a collector exists, on the method cache or on the argument checks.
 */
#include "hc.h"

static uint64_t mix(uint64_t h, uint64_t x) { h ^= x + 0x9E3779B97F4A7C15ULL + (h << 6) + (h >> 2); return h; }
static uint64_t rnd(volatile uint64_t* s) { *s ^= *s << 13; *s ^= *s >> 7; *s ^= *s << 17; return *s; }

struct CProbe { int64_t val; int64_t canary; };
static void CProbe_New(var self, var args) { struct CProbe* p = self; p->val = c_int(get(args, $I(0))); p->canary = 0x6370726f6265LL; }
static void CProbe_Del(var self) { struct CProbe* p = self; p->canary = 0; }
var CProbe = Cello(CProbe, Instance(New, CProbe_New, CProbe_Del));

static uint64_t __attribute__((noinline)) round_work(uint64_t* sp, uint64_t seed, int* lost) {
  volatile uint64_t s = *sp; volatile uint64_t h = 1469598103934665603ULL;   /* both live across setjmp / longjmp */
  var t = new(Table, Int, Int); var a = new(Array, Int); var l = new(List, String); var tr = new(Tree, Int, Int);
  for (int i = 0; i < 60; i++) {
    int64_t k = (int64_t)(rnd(&s) % 31) * 55, v = (int64_t)(rnd(&s) % 1000);
    set(t, $I(k), $I(v)); set(tr, $I(k - 300), $I(v));
    push(a, $I(v)); if (i % 3 == 0) push(l, $S("abc")); if (i % 7 == 0 && len(a) > 2) pop_at(a, $I(1));
    if (i % 5 == 0 && mem(t, $I(k))) rem(t, $I(k));
  }
  sort(a);
  foreach (x in a) h = mix(h, (uint64_t)c_int(x));
  foreach (k in tr) h = mix(h, (uint64_t)c_int(k) * 3 + (uint64_t)c_int(get(tr, k)));
  foreach (x in slice(a, _, _, $I(2))) h = mix(h, (uint64_t)c_int(x) + 11);
  foreach (x in range($I(3), $I(30), $I(4))) h = mix(h, (uint64_t)c_int(x));
  h = mix(h, len(t)); h = mix(h, len(l)); h = mix(h, hash(t)); h = mix(h, hash(a)); h = mix(h, (uint64_t)(cmp(a, a) + 5));
  /* survivors among garbage: values and canaries of the kept objects are part of the digest */
  var keep[24]; for (int i = 0; i < 24; i++) keep[i] = new(CProbe, $I((int64_t)(seed + (uint64_t)i)));
  var chain = new(Array, Ref); for (int i = 0; i < 24; i++) push(chain, $R(new(CProbe, $I(1000 + i))));
  for (int i = 0; i < 700; i++) { var g = new(CProbe, $I(i)); (void)g; var g2 = new(String, $S("garbage")); (void)g2; if (i % 9 == 0) { var g3 = new(Array, Int, $I(i)); (void)g3; } }
  for (int i = 0; i < 24; i++) { struct CProbe* p = keep[i]; h = mix(h, (uint64_t)p->val); if (p->canary != 0x6370726f6265LL) { (*lost)++; h = mix(h, 0xDEAD); } }
  foreach (r in chain) { struct CProbe* p = deref(r); h = mix(h, (uint64_t)p->val); if (p->canary != 0x6370726f6265LL) { (*lost)++; h = mix(h, 0xDEAD); } }
  var s0 = new(String, $S("")); print_to(s0, 0, "%i:%s:%$:%$", $I((int64_t)(rnd(&s) % 100000)), $S("x"), $S("q\"uote"), get(a, $I(0)));   /* no container show: it prints addresses */
  h = mix(h, hash(s0)); h = mix(h, len(s0));
  for (int i = 0; i < 20; i++) {
    volatile int inner = 0, outer = 0;
    try {
      try { if (rnd(&s) % 2) throw(KeyError, "k%i", $I(i)); inner = 1; } catch (e in KeyError) { inner = 2; }
      if (rnd(&s) % 3 == 0) throw(ValueError, "v");
      outer = 1;
    } catch (e) { outer = (e == ValueError) ? 2 : 3; }
    h = mix(h, (uint64_t)(inner * 10 + outer));
    h = mix(h, len(current(Exception)));
  }
  set(current(Thread), $S("verif-a"), keep[0]); set(current(Thread), $S("verif-b"), a);
  h = mix(h, (uint64_t)((struct CProbe*)get(current(Thread), $S("verif-a")))->val);
  h = mix(h, len(get(current(Thread), $S("verif-b"))));
  rem(current(Thread), $S("verif-b")); rem(current(Thread), $S("verif-a"));
  *sp = s;
  return h;
}

int main(int argc, char** argv) {
  if (argc < 2) { fprintf(stderr, "usage: h_cfg script [out]\n"); return 9; }
  FILE* f = fopen(argv[1], "r"); if (!f) { perror(argv[1]); return 9; }
  if (argc > 2) { ev_fd = open(argv[2], O_WRONLY | O_CREAT | O_TRUNC, 0644); if (ev_fd < 0) { perror(argv[2]); return 9; } }
  hc_install(0);
  while (hc_next(f)) {
    alarm(120);
    if (hc_is(0, "reset")) { if (cur_exec > 0) { ev_begin("end"); ev_end(); } cur_exec++; ev_begin("reset"); ev_end(); continue; }
    if (hc_is(0, "mix")) {
      uint64_t seed = (uint64_t)hc_int(1); int rounds = (int)hc_int(2);
      uint64_t s = seed * 2654435761ULL + 88172645463325252ULL;
      ev_begin("program"); ev_int("seed", (long long)(seed & 0xffffff)); ev_end();
      for (int r = 0; r < rounds; r++) {
        int lost = 0; const char* exc = "";
        volatile uint64_t h = 0;
        try { h = round_work(&s, seed, &lost); } catch (e) { exc = exc_name(e); }
        ev_begin("mix"); ev_int("seed", (long long)(seed & 0xffffff)); ev_int("round", r); ev_limbs("digest", h); ev_int("lost", lost); ev_str("exc", exc); ev_end();
      }
      continue;
    }
    fprintf(stderr, "unknown op %s\n", hc_w[0]); return 9;
  }
  ev_begin("end"); ev_end(); ev_flush();
  return 0;
}
