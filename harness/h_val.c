/* h_val.c - values: cmp and its predicates, hash, eq, copy, assign, swap (C09, C10).
 *   reset
 *   V <tok> I <dec> | F <hexbits> | S <hex> | Y <typename> | X <hex32>          scalar values (new_raw objects)
 *   V <tok> A|L|U <n> <tok>...                     Array / List / heap Tuple of the elements (copies) of those tokens
 *   V <tok> R|B <n> <ktok> <vtok> ...              Tree / Table built by inserting in that order
 *   alt <tok2> <tok> stack|heap|elem               the same value as another instance: on the stack, on the heap, inside an Array
 *   hset <tok> <ktok> <vtok> | hrem <tok> <ktok> | hresize <tok> <n> | hpush <tok> <etok> | hpop <tok>    container history
 *   cmp <a> <b> | hash <a> | copy <c> <a> | assign <a> <b> | swap <a> <b>
 * Operands are described in raw form (limbs, bytes, element lists) taken from the objects' memory, never through cmp/eq/hash.
 */
#include "hc.h"

#define MAXT 512
static var* vals;                 /* array in main's frame (copies are collector-managed) */
static char kinds[MAXT];
struct Blob16 { unsigned char b[16]; };
var Blob16 = Cello(Blob16);
/* plain structs whose size is not a multiple of the hash function's word: what lies BEHIND the value must not matter */
struct Blob12 { unsigned char b[12]; }; struct Blob5 { unsigned char b[5]; };
var Blob12 = Cello(Blob12); var Blob5 = Cello(Blob5);
/* a type that reports its size through a Size instance of its own: 24 bytes, of which the declared struct covers the first 8 */
#define BLOBS_SIZE 24
struct BlobS { unsigned char head[8]; };
static size_t BlobS_Size(void) { return BLOBS_SIZE; }
var BlobS = Cello(BlobS, Instance(Size, BlobS_Size));
static int is_blob(var t) { return t == Blob16 || t == Blob12 || t == Blob5 || t == BlobS; }
static size_t blob_size(var t) { return t == BlobS ? BLOBS_SIZE : t == Blob16 ? 16 : t == Blob12 ? 12 : 5; }   /* known here, not asked of the library */
static var* keepalive;            /* containers that embed an "elem" instance (also in main's frame) */

static void desc(var o);
static void desc_scalar(var o) {
  var t = type_of(o);
  if (t == Int) { ev_s("[\"I\","); uint64_t u = (uint64_t)((struct Int*)o)->val;
    long long l[4] = { (long long)(int16_t)(u >> 48), (long long)((u >> 32) & 0xFFFF), (long long)((u >> 16) & 0xFFFF), (long long)(u & 0xFFFF) };
    ev_s("["); for (int i = 0; i < 4; i++) { if (i) ev_s(","); ev_i(l[i]); } ev_s("]]"); }
  else if (t == Float) { ev_s("[\"F\","); uint64_t u; memcpy(&u, &((struct Float*)o)->val, 8);
    long long l[4] = { (long long)(int16_t)(u >> 48), (long long)((u >> 32) & 0xFFFF), (long long)((u >> 16) & 0xFFFF), (long long)(u & 0xFFFF) };
    ev_s("["); for (int i = 0; i < 4; i++) { if (i) ev_s(","); ev_i(l[i]); } ev_s("]]"); }
  else if (t == String) { ev_s("[\"S\",["); const char* s = ((struct String*)o)->val; for (size_t i = 0; s[i]; i++) { if (i) ev_s(","); ev_i((unsigned char)s[i]); } ev_s("]]"); }
  else if (t == Type) { ev_s("[\"Y\",["); const char* s = c_str(o); for (size_t i = 0; s[i]; i++) { if (i) ev_s(","); ev_i((unsigned char)s[i]); } ev_s("]]"); }
  else if (is_blob(t)) { ev_s("[\"X\",["); for (size_t i = 0; i < blob_size(t); i++) { if (i) ev_s(","); ev_i(((unsigned char*)o)[i]); } ev_s("]]"); }
  else ev_s("[\"?\",[]]");
}
static void desc(var o) {
  var t = type_of(o);
  if (t == Array || t == List || t == Tuple) {
    ev_s("[\"seq\",["); size_t n = len(o);
    for (size_t i = 0; i < n; i++) { if (i) ev_s(","); desc(get(o, $I((int64_t)i))); }
    ev_s("]]");
  } else if (t == Tree || t == Table) {
    ev_s(t == Tree ? "[\"tree\",[" : "[\"table\",[");
    int first = 1; size_t lim = len(o) + 2, k = 0;
    foreach (key in o) { if (k++ >= lim) break; if (!first) ev_s(","); first = 0; ev_s("[\"seq\",["); desc(key); ev_s(","); desc(get(o, key)); ev_s("]]"); }
    ev_s("]]");
  } else desc_scalar(o);
}

/* a type that places its objects in a pool of its own (an Alloc instance): every object remembers its slot, and the deallocator
   reads that slot from the object it is handed - which therefore has to be intact when it gets there */
#define POOLN 8
struct Cell { int64_t slot; int64_t payload; };
static struct { struct Header h; struct Cell c; } cell_pool[POOLN]; static int cell_used[POOLN];
static long cell_released, cell_garbled;
extern var Cell;
static var Cell_Alloc(void) {
  for (int i = 0; i < POOLN; i++) if (!cell_used[i]) { cell_used[i] = 1; memset(&cell_pool[i], 0, sizeof cell_pool[i]);
    var o = header_init(&cell_pool[i].h, Cell, AllocHeap); ((struct Cell*)o)->slot = i; return o; }
  return NULL;
}
static void Cell_Dealloc(var self) {
  struct Cell* c = self;
  if (c->slot >= 0 && c->slot < POOLN && self == (var)&cell_pool[c->slot].c && cell_used[c->slot]) { cell_used[c->slot] = 0; cell_released++; }
  else cell_garbled++;
}
var Cell = Cello(Cell, Instance(Alloc, Cell_Alloc, Cell_Dealloc));

/* object graphs with cycles (a doubly linked ring of plain nodes, two Refs naming each other) kept alive across collections */
struct RNode { var next; var prev; int64_t v; };
var RNode = Cello(RNode);
static long __attribute__((noinline)) cycle_run(int garbage) {
  struct RNode* a[3];
  for (int i = 0; i < 3; i++) { a[i] = alloc(RNode); a[i]->v = i + 1; }
  for (int i = 0; i < 3; i++) { a[i]->next = a[(i + 1) % 3]; a[i]->prev = a[(i + 2) % 3]; }
  var r1 = alloc(Ref), r2 = alloc(Ref); ref(r1, r2); ref(r2, r1);
  long sum = 0;
  for (int i = 0; i < garbage; i++) { var g = new(Int, $I(i)); sum += (long)c_int(g) % 2; }
  struct RNode* p = a[0];
  for (int i = 0; i < 6; i++) { sum += (long)p->v * 100; p = (i < 3) ? p->next : p->prev; }
  if (deref(deref(r1)) != r1) sum = -1;
  return sum;
}

static var builtin_type(const char* n) {
  var ts[] = { Int, Float, String, Array, List, Table, Tree, Tuple, Ref, Box, Type, File, Range, Slice, Zip, Map, Filter, Thread, Mutex, Function,
               TypeError, ValueError, KeyError, IOError, Iter, Get };             /* (names in prefix relation: Type / TypeError) */
  for (size_t i = 0; i < sizeof ts / sizeof ts[0]; i++) if (!strcmp(c_str(ts[i]), n)) return ts[i];
  /* user types made at run time, their names nested in each other */
  static const char* un[] = { "Point", "Point3D", "PointCloud", "Poin", "P", "\xc3\x9cnit", "\xc3\xa9t\xc3\xa9", "Unit" }; static var ut[8];     /* (two names start with a byte >= 0x80) */
  for (int i = 0; i < 8; i++) if (!strcmp(un[i], n)) { if (!ut[i]) ut[i] = new_root(Type, $S((char*)un[i]), $I(8)); return ut[i]; }
  return Int;
}

static void ev_val(const char* k, var o) { ev_key(k); desc(o); }

int main(int argc, char** argv) {
  var local[2 * MAXT]; memset(local, 0, sizeof local); vals = local; keepalive = local + MAXT;
  if (argc < 2) { fprintf(stderr, "usage: h_val script [out]\n"); return 9; }
  FILE* f = fopen(argv[1], "r"); if (!f) { perror(argv[1]); return 9; }
  if (argc > 2) { ev_fd = open(argv[2], O_WRONLY | O_CREAT | O_TRUNC, 0644); if (ev_fd < 0) { perror(argv[2]); return 9; } }
  hc_install(0);
  while (hc_next(f)) {
    alarm(30);
    if (hc_is(0, "reset")) { for (int i = 0; i < MAXT; i++) { vals[i] = NULL; keepalive[i] = NULL; } if (cur_exec > 0) { ev_begin("end"); ev_end(); } cur_exec++; ev_begin("reset"); ev_end(); continue; }
    if (hc_is(0, "V")) {
      int t = (int)hc_int(1); char k = hc_w[2][0]; kinds[t] = k;
      if (k == 'I') vals[t] = new(Int, $I(hc_int(3)));
      else if (k == 'F') { uint64_t b = strtoull(hc_w[3], NULL, 16); double d; memcpy(&d, &b, 8); vals[t] = new(Float, $F(d)); }
      else if (k == 'S') { char buf[4096]; size_t n = hc_unhex(hc_w[3], (unsigned char*)buf, sizeof buf - 1); buf[n] = 0; vals[t] = new(String, $S(buf)); }
      else if (k == 'Y') vals[t] = builtin_type(hc_w[3]);
      else if (k == 'X') { size_t hl = strlen(hc_w[3]); var bt = hl <= 10 ? Blob5 : hl <= 24 ? Blob12 : hl <= 32 ? Blob16 : BlobS;
        var b = bt == BlobS ? header_init(calloc(1, sizeof(struct Header) + BLOBS_SIZE), BlobS, AllocStatic) : alloc(bt);
        hc_unhex(hc_w[3], b, blob_size(bt)); vals[t] = b; }
      else if (k == 'A' || k == 'L' || k == 'U' || k == 'W') {   /* W: a heap Tuple of the objects themselves (one object may appear twice) */
        if (k == 'W') kinds[t] = 'U';
        int n = (int)hc_int(3);
        var et = n ? type_of(vals[hc_int(4)]) : Int;
        var c = k == 'A' ? (var)new(Array, et) : k == 'L' ? (var)new(List, et) : (var)new(Tuple);
        vals[t] = c;
        for (int i = 0; i < n; i++) { var e = vals[hc_int(4 + i)]; if (k == 'U') push(c, copy(e)); else push(c, e); }
      } else if (k == 'R' || k == 'B') {
        int n = (int)hc_int(3);
        var kt = n ? type_of(vals[hc_int(4)]) : Int, vt = n ? type_of(vals[hc_int(5)]) : Int;
        var c = k == 'R' ? (var)new(Tree, kt, vt) : (var)new(Table, kt, vt);
        vals[t] = c;
        for (int i = 0; i < n; i++) set(c, vals[hc_int(4 + 2 * i)], vals[hc_int(5 + 2 * i)]);
      } else { fprintf(stderr, "bad value kind %c\n", k); return 9; }
      continue;
    }
    if (hc_is(0, "alt")) {
      int t2 = (int)hc_int(1), t = (int)hc_int(2); var src = vals[t]; var ty = type_of(src);
      kinds[t2] = kinds[t];
      if (hc_is(3, "lit")) { static char lit[] = "literal"; vals[t2] = $S(lit); keepalive[t2] = NULL; }       /* a stack String around characters it does not own */
      else if (hc_is(3, "heap")) vals[t2] = assign(alloc_raw(ty), src);
      else if (hc_is(3, "elem")) { var a = new(Array, ty, src); keepalive[t2] = a; vals[t2] = get(a, $I(0)); }
      else { /* stack: a header + body in this frame would die with the block; use static storage tagged AllocStack */
        char* buf = calloc(1, sizeof(struct Header) + size(ty) + 8); var o = header_init(buf, ty, AllocStack);
        memset((char*)o + size(ty), 0x5A, 8);                   /* caller-owned storage: arbitrary bytes follow the value */
        if (ty == String) { ((struct String*)o)->val = strdup(c_str(src)); } else memcpy(o, src, size(ty));
        vals[t2] = o; }
      continue;
    }
    if (hc_is(0, "cycle")) { volatile long sm = -2; HC_TRY(sm = cycle_run((int)hc_int(1))); ev_begin("cycle"); ev_int("n", hc_int(1)); ev_int("sum", sm); ev_str("exc", hc_exc); ev_int("line", cur_line); ev_end(); continue; }
    if (hc_is(0, "pool")) {                   /* pool <n> : n pooled objects made and deleted (raw and managed in turn), twice over */
      int n = (int)hc_int(1); if (n > POOLN) n = POOLN;
      cell_released = cell_garbled = 0; long inuse = 0; volatile int made = 0;
      for (int rep = 0; rep < 2; rep++) {
        var cs[POOLN]; made = 0;
        HC_TRY(for (int i = 0; i < n; i++) { cs[i] = (i % 2) ? (var)new_raw(Cell) : (var)new(Cell); made++; ((struct Cell*)cs[i])->payload = 100 + i; });
        for (int i = 0; i < made; i++) HC_TRY(if (i % 2) del_raw(cs[i]); else del(cs[i]));
      }
      for (int i = 0; i < POOLN; i++) inuse += cell_used[i];
      ev_begin("pool"); ev_int("n", n); ev_int("released", cell_released); ev_int("garbled", cell_garbled); ev_int("inuse", inuse); ev_str("exc", hc_exc); ev_int("line", cur_line); ev_end();
      continue;
    }
    if (hc_is(0, "hset")) { HC_TRY(set(vals[hc_int(1)], vals[hc_int(2)], vals[hc_int(3)])); continue; }
    if (hc_is(0, "hrem")) { HC_TRY(rem(vals[hc_int(1)], vals[hc_int(2)])); continue; }
    if (hc_is(0, "hresize")) { HC_TRY(resize(vals[hc_int(1)], (size_t)hc_int(2))); continue; }
    if (hc_is(0, "hpush")) { HC_TRY(push(vals[hc_int(1)], vals[hc_int(2)])); continue; }
    if (hc_is(0, "hpop")) { HC_TRY(pop(vals[hc_int(1)])); continue; }
    int a = (int)hc_int(1), b = (int)hc_int(2);
    if ((!hc_is(0, "copy") && !vals[a]) || (!hc_is(0, "hash") && !vals[b])) { ev_begin("missing"); ev_int("line", cur_line); ev_end(); continue; }
    if (hc_is(0, "cmp")) {
      volatile int r = 0, e1 = -1, e2 = -1, e3 = -1, e4 = -1, e5 = -1, e6 = -1;
      HC_TRY(r = cmp(vals[a], vals[b]); e1 = eq(vals[a], vals[b]); e2 = neq(vals[a], vals[b]); e3 = lt(vals[a], vals[b]);
             e4 = gt(vals[a], vals[b]); e5 = le(vals[a], vals[b]); e6 = ge(vals[a], vals[b]));
      ev_begin("cmp"); ev_val("a", vals[a]); ev_val("b", vals[b]); ev_int("r", r < 0 ? -1 : r > 0 ? 1 : 0);
      ev_int("eq", e1); ev_int("neq", e2); ev_int("lt", e3); ev_int("gt", e4); ev_int("le", e5); ev_int("ge", e6);
      ev_str("exc", hc_exc); ev_str("msg", hc_msg); ev_int("line", cur_line); ev_end();
    } else if (hc_is(0, "hash")) {
      volatile uint64_t h = 0; HC_TRY(h = hash(vals[a]));
      ev_begin("hash"); ev_val("a", vals[a]); ev_limbs("h", h); ev_str("exc", hc_exc); ev_int("line", cur_line); ev_end();
    } else if (hc_is(0, "copy")) {
      volatile var c = NULL; HC_TRY(c = copy(vals[b])); vals[a] = c; kinds[a] = kinds[b];
      volatile uint64_t h1 = 0, h2 = 0; volatile int e = -1;
      if (c) HC_TRY(h1 = hash(vals[b]); h2 = hash(c); e = eq(c, vals[b]));
      ev_begin("copy"); ev_val("a", vals[b]); if (c) ev_val("b", c); else { ev_key("b"); ev_s("[\"?\",[]]"); }
      ev_limbs("h", h1); ev_limbs("h2", h2); ev_int("eq", e); ev_str("exc", hc_exc); ev_int("line", cur_line); ev_end();
    } else if (hc_is(0, "assign")) {
      HC_TRY(assign(vals[a], vals[b]));
      volatile uint64_t h1 = 0, h2 = 0; volatile int e = -1;
      if (!hc_exc[0]) HC_TRY(h1 = hash(vals[b]); h2 = hash(vals[a]); e = eq(vals[a], vals[b]));
      ev_begin("assign"); ev_val("a", vals[b]); ev_val("b", vals[a]); ev_limbs("h", h1); ev_limbs("h2", h2); ev_int("eq", e);
      ev_str("exc", hc_exc); ev_int("line", cur_line); ev_end();
    } else if (hc_is(0, "same")) {
      volatile uint64_t h1 = 0, h2 = 0; volatile int e1 = -1, e2 = -1;
      HC_TRY(e1 = eq(vals[a], vals[b]); e2 = eq(vals[b], vals[a]); h1 = hash(vals[a]); h2 = hash(vals[b]));
      ev_begin("same"); ev_int("eq", e1); ev_int("eqr", e2); ev_limbs("h", h1); ev_limbs("h2", h2); ev_str("exc", hc_exc); ev_int("line", cur_line); ev_end();
    } else if (hc_is(0, "anti")) {               /* both directions of one comparison, whatever the operands are */
      volatile int r1 = 9, r2 = 9, q1 = -1, q2 = -1; const char* x1 = ""; const char* x2 = "";
      HC_TRY(r1 = cmp(vals[a], vals[b]); q1 = eq(vals[a], vals[b])); x1 = hc_exc;
      HC_TRY(r2 = cmp(vals[b], vals[a]); q2 = eq(vals[b], vals[a])); x2 = hc_exc;
      ev_begin("anti"); ev_int("r1", r1 < 0 ? -1 : r1 > 0 ? 1 : 0); ev_int("r2", r2 < 0 ? -1 : r2 > 0 ? 1 : 0); ev_int("eq1", q1); ev_int("eq2", q2);
      ev_str("exc", x1); ev_str("exc2", x2); ev_int("line", cur_line); ev_end();
    } else if (hc_is(0, "less")) {               /* the script states that a < b: both directions and the predicates */
      volatile int r1 = 9, r2 = 9, l = -1, g = -1, q = -1;
      HC_TRY(r1 = cmp(vals[a], vals[b]); r2 = cmp(vals[b], vals[a]); l = lt(vals[a], vals[b]); g = gt(vals[b], vals[a]); q = eq(vals[a], vals[b]));
      ev_begin("less"); ev_int("r1", r1 < 0 ? -1 : r1 > 0 ? 1 : 0); ev_int("r2", r2 < 0 ? -1 : r2 > 0 ? 1 : 0); ev_int("lt", l); ev_int("gt", g); ev_int("eq", q);
      ev_str("exc", hc_exc); ev_int("line", cur_line); ev_end();
    } else if (hc_is(0, "swap")) {
      ev_begin("swap"); ev_val("a0", vals[a]); ev_val("b0", vals[b]);
      HC_TRY(swap(vals[a], vals[b]));
      ev_val("a", vals[a]); ev_val("b", vals[b]); ev_str("exc", hc_exc); ev_int("line", cur_line); ev_end();
    } else { fprintf(stderr, "unknown op %s\n", hc_w[0]); return 9; }
  }
  ev_begin("end"); ev_end(); ev_flush();
  return 0;
}
