/* h_str.c - heap Strings (C16).
 *   reset
 *   new <o> <hex>                   new String
 *   assign <o> <hex> | concat <o> <hex> | append <o> <hex> | rem <o> <hex> | mem <o> <hex>
 *   resize <o> <n> | printat <o> <pos> <hex> | copy <o> <src> | assigno <o> <src> | concato <o> <src>
 *   cmp <o> <p> | del <o>
 * After every call, for every live String: its bytes (c_str), len, hash (limbs), malloc_usable_size of its buffer.
 */
#include <malloc.h>
#include "hc.h"
#define MAXO 8
static var* objs_;           /* points at an array in main's frame: copies are collector-managed */
static int managed_[MAXO];
static var holder_[MAXO];     /* newin: the String is an element / a value of this container (its header says so: allocation class Data) */
static void drop_(int i) { if (objs_[i]) { if (holder_[i]) { del_raw(holder_[i]); holder_[i] = NULL; } else if (managed_[i]) del(objs_[i]); else del_raw(objs_[i]); objs_[i] = NULL; } }
static long holder_bad(int i) {       /* the other elements of the container are untouched by what happened to this one */
  var c = holder_[i]; if (!c) return 0;
  if (type_of(c) == Array || type_of(c) == List) return (len(c) == 3 && !strcmp(c_str(get(c, $I(0))), "left") && !strcmp(c_str(get(c, $I(2))), "right") && get(c, $I(1)) == objs_[i]) ? 0 : 1;
  return (len(c) == 2 && !strcmp(c_str(get(c, $I(2))), "other") && get(c, $I(1)) == objs_[i]) ? 0 : 1;
}

/* the documented hash of a String: MurmurHash64A of its characters with the library's seed (written out here independently) */
static uint64_t ref_murmur(const char* key, size_t len) {
  const uint64_t m = 0xc6a4a7935bd1e995ULL; const int r = 47;
  uint64_t h = 0xCe110ULL ^ (len * m);
  size_t nb = len / 8;
  for (size_t i = 0; i < nb; i++) { uint64_t k; memcpy(&k, key + 8 * i, 8); k *= m; k ^= k >> r; k *= m; h ^= k; h *= m; }
  const unsigned char* tail = (const unsigned char*)key + 8 * nb; size_t rem_ = len & 7;
  for (size_t i = rem_; i > 0; i--) h ^= (uint64_t)tail[i - 1] << (8 * (i - 1));
  if (rem_) h *= m;
  h ^= h >> r; h *= m; h ^= h >> r;
  return h;
}
static void emit_bytes(const char* k, const char* s) {
  ev_key(k); ev_s("[");
  for (size_t i = 0; s[i]; i++) { if (i) ev_s(","); ev_i((unsigned char)s[i]); }
  ev_s("]");
}
static char argbuf[1 << 16];
static char* arg(int i) { size_t n = hc_unhex(hc_w[i], (unsigned char*)argbuf, sizeof argbuf - 1); argbuf[n] = 0; return argbuf; }

static void emit(const char* op, int o, int p, long long n, const char* a, const char* exc, long long r) {
  ev_begin(op); ev_int("o", o); ev_int("p", p); ev_int("n", n); emit_bytes("arg", a); ev_str("exc", exc); ev_str("msg", hc_msg); ev_int("r", r);
  ev_arr_begin("objs");
  for (int i = 1; i < MAXO; i++) if (objs_[i]) {
    struct String* s = objs_[i];
    ev_obj_begin(); ev_int("o", i); emit_bytes("s", c_str(s)); ev_int("len", (long long)len(s));
    ev_limbs("h", hash(s)); ev_limbs("href", ref_murmur(c_str(s), strlen(c_str(s)))); ev_int("cap", (long long)malloc_usable_size(s->val));
    ev_obj_end();
  }
  ev_arr_end();
  { long nb = 0; for (int i = 1; i < MAXO; i++) if (objs_[i]) nb += holder_bad(i); ev_int("nbbad", nb); }
  ev_int("line", cur_line); ev_end();
}

int main(int argc, char** argv) {
  var local_objs[MAXO]; memset(local_objs, 0, sizeof local_objs); objs_ = local_objs;
  if (argc < 2) { fprintf(stderr, "usage: h_str script [out]\n"); return 9; }
  FILE* f = fopen(argv[1], "r"); if (!f) { perror(argv[1]); return 9; }
  if (argc > 2) { ev_fd = open(argv[2], O_WRONLY | O_CREAT | O_TRUNC, 0644); if (ev_fd < 0) { perror(argv[2]); return 9; } }
  hc_install(0);
  while (hc_next(f)) {
    alarm(30);
    if (hc_is(0, "reset")) {
      for (int i = 1; i < MAXO; i++) drop_(i);
      if (cur_exec > 0) { ev_begin("end"); ev_end(); }
      cur_exec++; ev_begin("reset"); ev_end(); continue;
    }
    int o = (int)hc_int(1);
    if (o <= 0 || o >= MAXO) return 9;
    if (hc_is(0, "new")) { char* a = arg(2); volatile var m = NULL; drop_(o); HC_TRY(m = new_raw(String, $S(a))); objs_[o] = m; managed_[o] = 0; emit("new", o, 0, 0, a, hc_exc, 0); continue; }
    if (hc_is(0, "newin")) {            /* newin <o> <A|L|T|R> <hex> : the String lives inside an Array / a List (element) or a Table / Tree (value) */
      char how = hc_w[2][0]; char* a = arg(3); volatile var c = NULL; volatile var m = NULL; drop_(o);
      HC_TRY(
        if (how == 'A' || how == 'L') { c = new_raw_with(how == 'A' ? Array : List, tuple(String, $S("left"), $S(a), $S("right"))); m = get(c, $I(1)); }
        else { c = new_raw_with(how == 'T' ? Table : Tree, tuple(Int, String, $I(1), $S(a), $I(2), $S("other"))); m = get(c, $I(1)); });
      objs_[o] = m; holder_[o] = c; managed_[o] = 0; emit("new", o, 0, 0, a, hc_exc, 0); continue; }
    if (hc_is(0, "copy")) { int p = (int)hc_int(2); drop_(o); volatile var m = NULL; HC_TRY(m = copy(objs_[p])); objs_[o] = m; managed_[o] = 1; emit("copy", o, p, 0, "", hc_exc, 0); continue; }
    var s = objs_[o];
    if (!s) { ev_begin("missing"); ev_end(); continue; }
    if (hc_is(0, "assign")) { char* a = arg(2); HC_TRY(assign(s, $S(a))); emit("assign", o, 0, 0, a, hc_exc, 0); }
    else if (hc_is(0, "concat")) { char* a = arg(2); HC_TRY(concat(s, $S(a))); emit("concat", o, 0, 0, a, hc_exc, 0); }
    else if (hc_is(0, "append")) { char* a = arg(2); HC_TRY(append(s, $S(a))); emit("append", o, 0, 0, a, hc_exc, 0); }
    else if (hc_is(0, "rem")) { char* a = arg(2); HC_TRY(rem(s, $S(a))); emit("rem", o, 0, 0, a, hc_exc, 0); }
    else if (hc_is(0, "mem")) { char* a = arg(2); volatile long long r = 0; HC_TRY(r = mem(s, $S(a)) ? 1 : 0); emit("mem", o, 0, 0, a, hc_exc, r); }
    else if (hc_is(0, "resize")) { long long n = hc_int(2); HC_TRY(resize(s, (size_t)n));
      /* r: the byte at index n, the last one of the room asked for (a caller may fill n characters in: it must be the terminator) */
      emit("resize", o, 0, n, "", hc_exc, hc_exc[0] ? 0 : (long long)(unsigned char)((struct String*)s)->val[n]); }
    /* compared with an object that is no String but has characters of its own (a Type object: its name): cmp, eq and neq agree with
       strcmp of the two texts */
    else if (hc_is(0, "cmptype")) { var ty = hc_int(2) == 0 ? Int : hc_int(2) == 1 ? Float : Table; volatile long long r = 0, q = 0;
      HC_TRY(r = cmp(s, ty); q = (eq(s, ty) ? 1 : 0) + (neq(s, ty) ? 2 : 0));
      emit("cmptype", o, 0, q, c_str(ty), hc_exc, r < 0 ? -1 : r > 0 ? 1 : 0); }
    else if (hc_is(0, "remint")) { HC_TRY(rem(s, $I(5))); emit("remint", o, 0, 0, "", hc_exc, 0); }
    else if (hc_is(0, "resizehuge")) { HC_TRY(resize(s, (size_t)1 << 62)); emit("resizehuge", o, 0, 0, "", hc_exc, 0); }
    else if (hc_is(0, "printat")) { long long pos = hc_int(2); char* a = arg(3); volatile long long r = 0; HC_TRY(r = print_to(s, (int)pos, "%s", $S(a))); emit("printat", o, 0, pos, a, hc_exc, r); }
    /* a formatted write whose format has literal text, two conversions and a %% between them */
    /* the target itself as the %s argument of a formatted write into it */
    else if (hc_is(0, "printself")) { long long pos = hc_int(2); volatile long long r = 0; HC_TRY(r = print_to(s, (int)pos, "%s", s)); emit("printself", o, 0, pos, "", hc_exc, r); }
    /* a NULL object shown in the middle of a formatted write: the text <NULL>, and the write goes on behind it */
    else if (hc_is(0, "printnull")) { long long pos = hc_int(2); char* a = arg(3); volatile long long r = 0; HC_TRY(r = print_to(s, (int)pos, "%s%$|%s", $S(a), NULL, $S(a))); emit("printnull", o, 0, pos, a, hc_exc, r); }
    else if (hc_is(0, "printpct")) { long long pos = hc_int(2); char* a = arg(3); volatile long long r = 0; HC_TRY(r = print_to(s, (int)pos, "%s%%%s|", $S(a), $S(a))); emit("printpct", o, 0, pos, a, hc_exc, r); }
    else if (hc_is(0, "assigno")) { int p = (int)hc_int(2); HC_TRY(assign(s, objs_[p])); emit("assigno", o, p, 0, "", hc_exc, 0); }
    else if (hc_is(0, "concato")) { int p = (int)hc_int(2); HC_TRY(concat(s, objs_[p])); emit("concato", o, p, 0, "", hc_exc, 0); }
    /* the argument is another String object - possibly the target itself (remo / memo / appendo with p == o) */
    else if (hc_is(0, "appendo")) { int p = (int)hc_int(2); HC_TRY(append(s, objs_[p])); emit("concato", o, p, 0, "", hc_exc, 0); }
    else if (hc_is(0, "remo")) { int p = (int)hc_int(2); HC_TRY(rem(s, objs_[p])); emit("remo", o, p, 0, "", hc_exc, 0); }
    else if (hc_is(0, "memo")) { int p = (int)hc_int(2); volatile long long r = 0; HC_TRY(r = mem(s, objs_[p]) ? 1 : 0); emit("memo", o, p, 0, "", hc_exc, r); }
    /* the argument is a stack String that wraps a pointer INTO the target's own characters (its tail from offset n) */
    else if (hc_is(0, "concatin")) { long long n = hc_int(2); size_t L = strlen(c_str(s)); if ((size_t)n > L) n = (long long)L; HC_TRY(concat(s, $S(c_str(s) + n))); emit("concatin", o, 0, n, "", hc_exc, 0); }
    else if (hc_is(0, "assignin")) { long long n = hc_int(2); size_t L = strlen(c_str(s)); if ((size_t)n > L) n = (long long)L; HC_TRY(assign(s, $S(c_str(s) + n))); emit("assignin", o, 0, n, "", hc_exc, 0); }
    else if (hc_is(0, "cmp")) { int p = (int)hc_int(2); volatile long long r = 0, q = 0; HC_TRY(r = cmp(s, objs_[p]); q = eq(s, objs_[p]) ? 1 : 0);
      emit("cmp", o, p, q, "", hc_exc, r < 0 ? -1 : r > 0 ? 1 : 0); }
    else if (hc_is(0, "del")) { drop_(o); emit("del", o, 0, 0, "", "", 0); }
    else { fprintf(stderr, "unknown op %s\n", hc_w[0]); return 9; }
  }
  for (int i = 1; i < MAXO; i++) drop_(i);
  ev_begin("end"); ev_end(); ev_flush();
  return 0;
}
