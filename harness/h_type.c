/* h_type.c - type-class dispatch (C08): every lookup the API offers, against what the type declares.
 *
 * usage: h_type <script> [<out.ndjson>]         (one execution per process: caches start cold)
 *   reset
 *   decl <t>                          log what type t declares: an independent scan of the raw type record BY CLASS NAME
 *   rt <t> <c1> <c2> ...              create run-time type number t (>= 100) with instances of those classes, in that order
 *   look <how> <t> <c> [<m>]          how: inst impl tinst timpl meth tmeth implm timplm   (m = member index)
 *   cast <t> <u>                      cast an object of type t to type u
 *   threads <n> <rounds> <t...>       n threads look up every class on the listed types, each in its own random order
 *
 * types 0..26 are built-in, classes 0..29 (tables below).  Instances are reported as tokens: the position (1-based) of the
 * instance in the type's declared list found by the name scan, 0 = none, -1 = a pointer that is no declared instance.
 */
#include <pthread.h>
#include "hc.h"

#define NB 29
/* two types that declare a Cast instance of their own: cast(obj, T) must ask the OBJECT's type */
struct CastAny { int64_t v; }; struct CastNone { int64_t v; };
static var CastAny_Cast(var self, var type) { return self; }                                   /* accepts every target */
static var CastNone_Cast(var self, var type) { return throw(KeyError, "CastNone refuses"); }   /* refuses every target, its own type included */
var CastAny = Cello(CastAny, Instance(Cast, CastAny_Cast));
var CastNone = Cello(CastNone, Instance(Cast, CastNone_Cast));
#define NC 42
/* decoy classes: user-defined class types whose NAMES extend, shorten or re-case the name of a built-in class
   (dispatch is by exact class name) */
struct Lenient { var f; }; struct Le { var f; }; struct Sortable { var f; }; struct So { var f; }; struct Hashes { var f; };
struct Has { var f; }; struct C_ { var f; }; struct C_Integer { var f; }; struct Ge { var f; }; struct Getter { var f; };
struct len { var f; }; struct SHOW { var f; };
var Lenient = Cello(Lenient); var Le = Cello(Le); var Sortable = Cello(Sortable); var So = Cello(So); var Hashes = Cello(Hashes);
var Has = Cello(Has); var C_ = Cello(C_); var C_Integer = Cello(C_Integer); var Ge = Cello(Ge); var Getter = Cello(Getter);
var len_decoy = Cello(len); var SHOW = Cello(SHOW);
/* a type that declares Size, Alloc, New, Current and Doc instances of its own: the functions that are handed the TYPE itself reach them */
static long wr_calls[8]; static int wr_marker; extern var Wr;
struct Wr { int64_t x; };
static size_t Wr_Size(void) { wr_calls[0]++; return 40; }
static var Wr_Alloc(void) { wr_calls[1]++; return header_init(calloc(1, sizeof(struct Header) + 40), Wr, AllocHeap); }
static void Wr_Dealloc(var self) { wr_calls[2]++; free((char*)self - sizeof(struct Header)); }
static void Wr_New(var self, var args) { wr_calls[3]++; }
static void Wr_Del(var self) { wr_calls[4]++; }
static var Wr_Current(void) { wr_calls[5]++; return &wr_marker; }
static const char* Wr_Name(void) { wr_calls[6]++; return "WrDoc"; }
var Wr = Cello(Wr, Instance(Size, Wr_Size), Instance(Alloc, Wr_Alloc, Wr_Dealloc), Instance(New, Wr_New, Wr_Del), Instance(Current, Wr_Current),
  Instance(Doc, Wr_Name, NULL, NULL, NULL, NULL, NULL));
/* types that declare a Pointer instance with ONE member only: the library invokes the member that is there and never the empty one */
struct POnlyRef { var target; }; struct POnlyDeref { var target; };
static long po_calls[2];
static void POnlyRef_Ref(var self, var obj) { po_calls[0]++; ((struct POnlyRef*)self)->target = obj; }
static var POnlyDeref_Deref(var self) { po_calls[1]++; return ((struct POnlyDeref*)self)->target; }
var POnlyRef = Cello(POnlyRef, Instance(Pointer, POnlyRef_Ref, NULL));
var POnlyDeref = Cello(POnlyDeref, Instance(Pointer, NULL, POnlyDeref_Deref));
/* a type that declares a Current instance whose only member is EMPTY: asking for its current object is a ClassError, not a call */
struct WrEmpty { int64_t x; };
var WrEmpty = Cello(WrEmpty, Instance(Current, NULL), Instance(Len, NULL), Instance(Hash, NULL));
/* statically declared types nobody has touched yet (their header has no type until the first type_of): the first question
   asked about each of them is an OBJECT-level one - a type object is an object of type Type whatever was asked before */
var Cold0 = CelloEmpty(Cold0); var Cold1 = CelloEmpty(Cold1); var Cold2 = CelloEmpty(Cold2); var Cold3 = CelloEmpty(Cold3);
var Cold4 = CelloEmpty(Cold4); var Cold5 = CelloEmpty(Cold5); var Cold6 = CelloEmpty(Cold6); var Cold7 = CelloEmpty(Cold7);
static var* BT[NB]; static const char* BTN[NB];
static var* CL[NC]; static const char* CLN[NC]; static int CLM[NC];     /* member counts */
#define MAXRT 64
static var RT[MAXRT];

static void tables(void) {
  int i = 0;
#define T_(x) BT[i] = &x; BTN[i] = #x; i++;
  T_(Type) T_(Tuple) T_(Ref) T_(Box) T_(Int) T_(Float) T_(String) T_(Tree) T_(List) T_(Array) T_(Table) T_(Range) T_(Slice)
  T_(Zip) T_(Filter) T_(Map) T_(ValueError) T_(File) T_(Mutex) T_(Thread) T_(Process) T_(Function) T_(Exception)
#ifdef CELLO_NGC
  T_(Int)                      /* no collector type in this configuration: slot 23 is a stand-in (C18 does not look at it) */
#else
  T_(GC)
#endif
  T_(IOError) T_(KeyError) T_(_) T_(CastAny) T_(CastNone)
#undef T_
  i = 0;
#define C_(x, n) CL[i] = &x; CLN[i] = #x; CLM[i] = n; i++;
  C_(Doc, 6) C_(Help, 1) C_(Cast, 1) C_(Size, 1) C_(Alloc, 2) C_(New, 2) C_(Copy, 1) C_(Assign, 1) C_(Swap, 1) C_(Cmp, 1)
  C_(Hash, 1) C_(Len, 1) C_(Iter, 5) C_(Push, 4) C_(Concat, 2) C_(Get, 6) C_(Sort, 1) C_(Resize, 1) C_(C_Str, 1) C_(C_Int, 1)
  C_(C_Float, 1) C_(Stream, 8) C_(Pointer, 2) C_(Call, 1) C_(Format, 2) C_(Show, 2) C_(Current, 1) C_(Start, 4) C_(Lock, 3) C_(Mark, 1)
  C_(Lenient, 1) C_(Le, 1) C_(Sortable, 1) C_(So, 1) C_(Hashes, 1) C_(Has, 1) C_(C_, 1) C_(C_Integer, 1) C_(Ge, 1) C_(Getter, 1)
  CL[i] = &len_decoy; CLN[i] = "len"; CLM[i] = 1; i++;
  C_(SHOW, 1)
#undef C_
}

static var type_no(int t) { return t < NB ? *BT[t] : RT[t - 100]; }

/* independent oracle: walk the raw type record (struct Type entries after the cache words, up to the NULL name) */
struct Decl { int n; const char* name[300]; var inst[300]; };
static void raw_decl(var type, struct Decl* d) {
  struct Type* e = (struct Type*)type + (CELLO_CACHE_NUM / 3);       /* __Name, __Size, then the instances */
  d->n = 0;
  for (e += 2; e->name != NULL && d->n < 300; e++) { d->name[d->n] = e->name; d->inst[d->n] = e->inst; d->n++; }
}
static int class_no(const char* name) { for (int c = 0; c < NC; c++) if (!strcmp(CLN[c], name)) return c; return -1; }
static int token_of(struct Decl* d, var inst) { if (!inst) return 0; for (int i = 0; i < d->n; i++) if (d->inst[i] == inst) return i + 1; return -1; }

static void emit_decl(int t) {
  struct Decl d; raw_decl(type_no(t), &d);
  long long cls[300]; long long mn[300 * 8]; size_t nm = 0;
  for (int i = 0; i < d.n; i++) cls[i] = class_no(d.name[i]);
  ev_begin("decl"); ev_int("t", t); ev_ints("cls", cls, (size_t)d.n);
  /* which members of each declared instance are empty (NULL): list of [entry, member] */
  ev_key("nulls"); ev_s("[");
  int first = 1;
  for (int i = 0; i < d.n; i++) {
    int c = (int)cls[i]; if (c < 0) continue;
    for (int m = 0; m < CLM[c]; m++) if (((var*)d.inst[i])[m] == NULL) { if (!first) ev_s(","); first = 0; ev_s("["); ev_i(i + 1); ev_s(","); ev_i(m); ev_s("]"); }
  }
  ev_s("]");
  (void)mn; (void)nm;
  ev_end();
}

/* an object whose header says "type t" (never touched otherwise) */
static var fake_obj(int t, char* buf) { memset(buf, 0, 256); return header_init(buf, type_no(t), AllocStack); }

static void do_look(const char* how, int t, int c, int m, int th) {
  char buf[256]; var o = fake_obj(t, buf);
  var type = type_no(t), cls = *CL[c];
  struct Decl d; raw_decl(type, &d);
  volatile long long r = 0; const char* exc = "";
  size_t off = (size_t)m * sizeof(var);
  try {
    if (!strcmp(how, "inst")) r = token_of(&d, instance(o, cls));
    else if (!strcmp(how, "tinst")) r = token_of(&d, type_instance(type, cls));
    else if (!strcmp(how, "impl")) r = implements(o, cls) ? 1 : 0;
    else if (!strcmp(how, "timpl")) r = type_implements(type, cls) ? 1 : 0;
    else if (!strcmp(how, "meth")) r = token_of(&d, method_at_offset(o, cls, off, "member"));
    else if (!strcmp(how, "tmeth")) r = token_of(&d, type_method_at_offset(type, cls, off, "member"));
    else if (!strcmp(how, "implm")) r = implements_method_at_offset(o, cls, off) ? 1 : 0;
    /* the subject is the TYPE OBJECT itself (an object of type Type; a static one may never have been looked at before) */
    else if (!strcmp(how, "simpl")) r = implements(type, cls) ? 1 : 0;
    else if (!strcmp(how, "sinst")) { struct Decl dT; raw_decl(Type, &dT); r = token_of(&dT, instance(type, cls)); }
    else if (!strcmp(how, "timplm")) r = type_implements_method_at_offset(type, cls, off) ? 1 : 0;
  } catch (e) { exc = exc_name(e); }
  ev_begin("look"); ev_str("how", how); ev_int("t", t); ev_int("c", c); ev_int("m", m); ev_int("r", r); ev_str("exc", exc); ev_int("th", th);
  ev_end();
}

/* member lookups on one (type, class) pair back to back inside ONE try block - nothing else is looked up in between (opening a
   try block is itself a lookup); a refused lookup ends the block, the remaining ones continue in the next block */
static void do_lookseq(const char* how, int t, int c, int nm, const int* ms) {
  char buf[256]; var o = fake_obj(t, buf);
  var type = type_no(t), cls = *CL[c];
  struct Decl d; raw_decl(type, &d);
  static long long res[64]; static const char* excs[64];
  int istype = !strcmp(how, "tmeth");
  volatile int k = 0;
  while (k < nm) {
    volatile int start = k;
    try {
      for (; k < nm; k++) {
        excs[k] = "ClassError?";                    /* overwritten on success; if the lookup raises, the handler names the exception */
        var inst = istype ? type_method_at_offset(type, cls, (size_t)ms[k] * sizeof(var), "member") : method_at_offset(o, cls, (size_t)ms[k] * sizeof(var), "member");
        res[k] = (long long)(intptr_t)inst; excs[k] = "";
      }
    } catch (e) { excs[k] = exc_name(e); res[k] = 0; k++; }
    (void)start;
  }
  for (int i = 0; i < nm; i++) {
    long long r = excs[i][0] ? 0 : token_of(&d, (var)(intptr_t)res[i]);
    ev_begin("look"); ev_str("how", how); ev_int("t", t); ev_int("c", c); ev_int("m", ms[i]); ev_int("r", r); ev_str("exc", excs[i]); ev_int("th", 0);
    ev_end();
  }
}

/* concurrent first lookups: every thread records into its own buffer, merged afterwards */
struct Job { int th, nt, rounds; int* ts; long long (*res)[4]; int nres; unsigned seed; };
static void* worker(void* arg) {
  struct Job* j = arg;
  for (int r = 0; r < j->rounds; r++)
    for (int k = 0; k < j->nt * NC; k++) {
      j->seed = j->seed * 1103515245u + 12345u;
      int t = j->ts[(j->seed >> 8) % (unsigned)j->nt], c = (int)((j->seed >> 16) % NC);
      var inst = type_instance(type_no(t), *CL[c]);
      struct Decl d; raw_decl(type_no(t), &d);
      j->res[j->nres][0] = t; j->res[j->nres][1] = c; j->res[j->nres][2] = token_of(&d, inst); j->res[j->nres][3] = j->th; j->nres++;
    }
  return NULL;
}

int main(int argc, char** argv) {
  if (argc < 2) { fprintf(stderr, "usage: h_type script [out]\n"); return 9; }
  FILE* f = fopen(argv[1], "r"); if (!f) { perror(argv[1]); return 9; }
  if (argc > 2) { ev_fd = open(argv[2], O_WRONLY | O_CREAT | O_TRUNC, 0644); if (ev_fd < 0) { perror(argv[2]); return 9; } }
  hc_install(0); tables();
  while (hc_next(f)) {
    alarm(60);
    if (hc_is(0, "reset")) { cur_exec++; ev_begin("reset"); ev_end(); continue; }
    if (hc_is(0, "decl")) { emit_decl((int)hc_int(1)); continue; }
    if (hc_is(0, "rt") || hc_is(0, "rert")) {      /* rert: the SAME Type object constructed again in place with another instance list */
      int again = hc_is(0, "rert");
      int t = (int)hc_int(1); int n = hc_nw - 2;
      var* args = alloca((size_t)(n + 3) * sizeof(var));
      char* nm = malloc(32); snprintf(nm, 32, "RT%d", t);
      args[0] = new_raw(String, $S(nm)); args[1] = new_raw(Int, $I(16));
      for (int i = 0; i < n; i++) {
        int c = (int)hc_int(2 + i);
        var inst = alloc_raw(*CL[c]);                               /* an instance object whose type is the class */
        for (int m = 0; m < CLM[c]; m++) ((var*)inst)[m] = ((i + m) % 3 == 0) ? NULL : (var)(uintptr_t)(0x1000 + 16 * i + m);   /* some members empty */
        args[2 + i] = inst;
      }
      args[2 + n] = Terminal;
      struct Tuple tup = { args };
      var targs = header_init(malloc(sizeof(struct Header) + sizeof(struct Tuple)), Tuple, AllocStack);
      memcpy(targs, &tup, sizeof tup);
      volatile var made = NULL;
      if (again && RT[t - 100]) { made = RT[t - 100]; HC_TRY(destruct(made); construct_with(made, targs)); }
      else { HC_TRY(made = new_raw_with(Type, targs)); RT[t - 100] = made; }
      ev_begin("rt"); ev_int("t", t); ev_int("n", n); ev_str("exc", hc_exc); ev_end();
      continue;
    }
    if (hc_is(0, "look")) { do_look(hc_w[1], (int)hc_int(2), (int)hc_int(3), (int)hc_int(4), 0); continue; }
    if (hc_is(0, "nulltype")) {                 /* no type at all where a type is expected: refused, not dereferenced */
      const char* names[] = { "type_instance", "type_implements", "size", "alloc", "type_method", "class_instance", "class_implements", "class_method", "class_obj_instance" };
      for (int k = 0; k < 9; k++) {
        hc_exc = "";
        if (k == 0) HC_TRY(type_instance(NULL, Size));
        if (k == 1) HC_TRY(type_implements(NULL, Size));
        if (k == 2) HC_TRY(size(NULL));
        if (k == 3) HC_TRY(alloc(NULL));
        if (k == 4) HC_TRY(type_method_at_offset(NULL, Size, 0, "size"));
        if (k == 5) HC_TRY(type_instance(Float, NULL));                 /* no class at all */
        if (k == 6) HC_TRY(type_implements(Int, NULL));
        if (k == 7) HC_TRY(type_method_at_offset(String, NULL, 0, "member"));
        if (k == 8) HC_TRY(instance($I(1), NULL));
        ev_begin("nulltype"); ev_str("what", names[k]); ev_str("exc", hc_exc); ev_end();
      }
      continue;
    }
    if (hc_is(0, "lookseq")) { int ms[64]; int nm = 0; for (int i = 4; i < hc_nw && nm < 64; i++) ms[nm++] = (int)hc_int(i);
      do_lookseq(hc_w[1], (int)hc_int(2), (int)hc_int(3), nm, ms); continue; }
    if (hc_is(0, "cast")) {
      int t = (int)hc_int(1), u = (int)hc_int(2);
      char buf[256]; var o = fake_obj(t, buf);
      volatile long long r = 0;
      HC_TRY(r = (cast(o, type_no(u)) == o) ? 1 : 0);
      ev_begin("cast"); ev_int("t", t); ev_int("u", u); ev_int("r", r); ev_str("exc", hc_exc);
      ev_int("own", type_no(t) == CastAny ? 1 : type_no(t) == CastNone ? 2 : 0); ev_end();       /* what the object's type declares for Cast */
      continue;
    }
    if (hc_is(0, "halfptr")) {
      long bad = 0; po_calls[0] = po_calls[1] = 0;
      HC_TRY(
        var tgt = new_raw(Int, $I(5));
        var a = alloc_raw(POnlyRef); var b = alloc_raw(POnlyDeref); ((struct POnlyDeref*)b)->target = tgt;
        var r1 = alloc_raw(Ref); var r2 = alloc_raw(Ref);
        assign(r1, a);                                   /* no deref member: the Ref refers to the object itself */
        if (deref(r1) != a) bad |= 1;
        assign(r2, b);                                   /* a deref member: the Ref refers to what the object refers to */
        if (deref(r2) != tgt || po_calls[1] != 1) bad |= 2;
        ref(a, tgt); if (((struct POnlyRef*)a)->target != tgt || po_calls[0] != 1) bad |= 4;
        if (implements_method(a, Pointer, deref) || !implements_method(a, Pointer, ref) || implements_method(b, Pointer, ref) || !implements_method(b, Pointer, deref)) bad |= 8;
        var arr = new_raw(Array, Ref, a, b);             /* ... also when stored as elements */
        if (deref(get(arr, $I(0))) != a || deref(get(arr, $I(1))) != tgt) bad |= 16;
        del_raw(arr));
      ev_begin("wrappers"); ev_int("bad", bad); ev_str("exc", hc_exc); ev_end();
      continue;
    }
    if (hc_is(0, "coldimpl")) {           /* coldimpl <k> : object-level questions about a static type object, the first of them while it is cold */
      int k = (int)hc_int(1) & 7; long bad = 0;
      var colds[8] = { Cold0, Cold1, Cold2, Cold3, Cold4, Cold5, Cold6, Cold7 };
      var T = colds[k];
      for (int q = 0; q < 6 && !hc_exc[0]; q++) {
        volatile long long r = -1; int w = (q + k) % 6;
        if      (w == 0) { HC_TRY(r = implements_method(T, Show, show)); if (r != 1) bad |= 1; }
        else if (w == 1) { HC_TRY(r = implements_method(T, Iter, iter_init)); if (r != 0) bad |= 2; }
        else if (w == 2) { HC_TRY(r = implements_method(T, C_Str, c_str)); if (r != 1) bad |= 4; }
        else if (w == 3) { HC_TRY(r = implements(T, Hash)); if (r != 1) bad |= 8; }
        else if (w == 4) { HC_TRY(r = implements(T, Len)); if (r != 0) bad |= 16; }
        else             { HC_TRY(r = (type_of(T) == Type)); if (r != 1) bad |= 32; }
      }
      ev_begin("wrappers"); ev_int("bad", bad); ev_str("exc", hc_exc); ev_end();
      continue;
    }
    if (hc_is(0, "wrappers")) {           /* the functions that take a TYPE (size, alloc, new, del, current, name): each goes through what that type declares */
      long bad = 0; memset(wr_calls, 0, sizeof wr_calls);
      HC_TRY(
        if (size(Wr) != 40 || wr_calls[0] == 0) bad |= 1;
        var o = new_raw(Wr);
        if (wr_calls[1] != 1 || wr_calls[3] != 1 || type_of(o) != Wr) bad |= 2;
        del_raw(o);
        if (wr_calls[4] != 1 || wr_calls[2] != 1) bad |= 4;
        if (current(Wr) != (var)&wr_marker || wr_calls[5] != 1) bad |= 8;
        if (strcmp(name(Wr), "WrDoc") != 0 || wr_calls[6] == 0) bad |= 16;
        if (size(Int) != sizeof(struct Int) || size(Wr) != 40) bad |= 32);
      if (!hc_exc[0]) {          /* empty members behind the functions that take a type / an object: refused, never invoked */
        HC_TRY(current(WrEmpty)); if (strcmp(hc_exc, "ClassError") != 0) bad |= 64;
        HC_TRY(len($(WrEmpty, 1))); if (strcmp(hc_exc, "ClassError") != 0) bad |= 128;
        hc_exc = "";
      }
      ev_begin("wrappers"); ev_int("bad", bad); ev_str("exc", hc_exc); ev_end();
      continue;
    }
    if (hc_is(0, "swaptypes")) {          /* swaptypes <t> <u> : a Type object is not a value that can be exchanged with another: refused, and every later
                                             lookup on both still answers from what each type declares */
      int t = (int)hc_int(1), u = (int)hc_int(2);
      HC_TRY(swap(type_no(t), type_no(u)));
      ev_begin("swaptypes"); ev_int("t", t); ev_int("u", u); ev_str("exc", hc_exc); ev_int("sizeoftype", (long long)size(Type)); ev_end();
      continue;
    }
    if (hc_is(0, "threads")) {
      int n = (int)hc_int(1), rounds = (int)hc_int(2), nt = hc_nw - 3;
      int* ts = malloc(sizeof(int) * (size_t)nt); for (int i = 0; i < nt; i++) ts[i] = (int)hc_int(3 + i);
      pthread_t th[64]; struct Job jobs[64];
      for (int i = 0; i < n && i < 64; i++) {
        jobs[i] = (struct Job){ i + 1, nt, rounds, ts, malloc(sizeof(long long) * 4 * (size_t)(rounds * nt * NC + 1)), 0, 977u * (unsigned)(i + 1) + (unsigned)cur_line };
        pthread_create(&th[i], NULL, worker, &jobs[i]);
      }
      for (int i = 0; i < n && i < 64; i++) pthread_join(th[i], NULL);
      for (int i = 0; i < n && i < 64; i++)
        for (int k = 0; k < jobs[i].nres; k++) {
          ev_begin("look"); ev_str("how", "tinst"); ev_int("t", jobs[i].res[k][0]); ev_int("c", jobs[i].res[k][1]); ev_int("m", 0);
          ev_int("r", jobs[i].res[k][2]); ev_str("exc", ""); ev_int("th", jobs[i].res[k][3]); ev_end();
        }
      continue;
    }
    fprintf(stderr, "unknown op %s\n", hc_w[0]); return 9;
  }
  ev_begin("end"); ev_end(); ev_flush();
  return 0;
}
