/* h_gc.c - script interpreter for the collector (C01, C06, C17).  One execution per process:
 * the last event is written after Cello_Exit (teardown) from a destructor function.
 *
 * usage: h_gc <script> [<out.ndjson>]
 *
 *   new <id> <kind> <mode> [<pointee>]   kind: Node ANode Ref Box Array List Tuple Table TableK Tree TreeK
 *                                        mode: std | root | raw        (Box: pointee id, owned from now on)
 *   at <index>                           arena slot of the next ANode (address = base + 64*index, never reused)
 *   link <src> <slot> <dst|0>            Node/ANode: pointer field; Ref: ref(src, dst)
 *   cpush <c> <dst> | cpop <c>           Array/List of Ref, heap Tuple
 *   cset <c> <key> <dst> | crem <c> <key>     Table / Tree (Int -> Ref)
 *   kset <c> <dst> | krem <c> <dst>      TableK / TreeK (Ref -> Int): the KEY references dst
 *   root <slot> <id|0>                   a word in main's stack frame
 *   tls <key> <id> | untls <key>         thread-local storage of the current thread
 *   del <id>                             del / del_root / del_raw according to the object's mode
 *   collect force|churn                  GC_Mark + GC_Sweep, or allocate garbage until the threshold fires
 *   stop | start
 *
 * Every event carries: ids the registry holds (white-box dump through #include "GC.c"), their root flags,
 * the registry's item count, whether mem(gc, p) agrees with the dump for every address ever handed out,
 * the ids that left the registry during the call without being deleted by the script ("swept"), and the
 * Node ids whose destructor ran during the call ("fin").
 */
#include <alloca.h>
#include <sys/mman.h>
#include "hc.h"
#ifndef NO_WHITEBOX
#include "GC.c"          /* white-box seam: the library is linked without GC.o */
#else
void GC_Mark(struct GC* gc); void GC_Sweep(struct GC* gc);
#endif

#define MAXID (1 << 16)
#define PMASK 0x5a5a5a5a5a5a5a5aULL         /* addresses are kept masked: the harness never roots anything by accident */
enum { K_NODE = 1, K_ANODE, K_REF, K_BOX, K_ARRAY, K_LIST, K_TUPLE, K_TABLE, K_TABLEK, K_TREE, K_TREEK, K_JUNK };
static const char* KN[] = { "", "Node", "ANode", "Ref", "Box", "Array", "List", "Tuple", "Table", "TableK", "Tree", "TreeK", "Junk" };
struct Ent { uintptr_t p; int kind; int mode; /* 0 std 1 root 2 raw */ int state; /* 0 none 1 live 2 gone */ int inreg; };
static struct Ent tab[MAXID];
static int maxid = 0;

static var P(int id) { return (var)(tab[id].p ^ PMASK); }

/* ------------------------------------------------------------------ Node types */
struct Node { var link[2]; int64_t id; int64_t canary; };
#define NODE_CANARY 0x6e6f6465636f6f6cLL
static long long fin_ids[MAXID]; static size_t nfin;
static long long fin_count[MAXID];
extern var Node;
static long long fin_raise_id;                    /* the finaliser of this Node raises (once) */
static long fin_holder_n;                         /* > 0: the Nodes 1000 .. 1000+n-1 are holders (see holders_build) */
static int fin_allocs;                            /* > 0: every Node finaliser allocates that many managed objects */
static long long anode_fin, anode_dealloc;        /* every finalised arena object is also handed back to its own deallocator */
static void Node_New(var self, var args) { struct Node* n = self; n->id = c_int(get(args, $I(0))); n->canary = NODE_CANARY; n->link[0] = n->link[1] = NULL; }
static void Node_Del(var self) {
  struct Node* n = self;
  long long id = (n->canary == NODE_CANARY && n->id > 0 && n->id < MAXID) ? n->id : -1;
  if (nfin < MAXID && id < 1000) fin_ids[nfin++] = id;      /* bulk / cycle Nodes (ids >= 1000) are counted, not listed */
  if (id > 0) fin_count[id]++;
  n->canary = 0;
  if (type_of(self) != Node) anode_fin++;
  if (fin_raise_id && id == fin_raise_id) { fin_raise_id = 0; throw(ValueError, "finaliser of %i raises", $I(id)); }
  if (fin_allocs > 0) { for (int k = 0; k < fin_allocs; k++) { var g = new(Int, $I(k)); (void)g; } }    /* a finaliser that allocates */
  if (fin_holder_n > 0 && id >= 1000 && id < 1000 + fin_holder_n && n->link[0]) {      /* a holder: releases the root resource it owns and leaves a note */
    var res = n->link[0]; n->link[0] = NULL;
    del_root(res);
    var note = new(Node, $I(id + 2 * fin_holder_n)); (void)note;
  }
}
var Node = Cello(Node, Instance(New, Node_New, Node_Del));

struct ANode { var link[2]; int64_t id; int64_t canary; };
extern var ANode;
/* ANode: placed by its own Alloc instance at a script-chosen slot of a big arena (never reused) */
static char* arena; static size_t arena_slots = 1 << 21; static long next_slot = -1;
static var ANode_Alloc(void) {
  if (!arena) arena = mmap(NULL, arena_slots * 64, PROT_READ | PROT_WRITE, MAP_PRIVATE | MAP_ANONYMOUS | MAP_NORESERVE, -1, 0);
  if (next_slot < 0 || (size_t)next_slot >= arena_slots) { fprintf(stderr, "arena slot missing\n"); exit(9); }
  struct Header* h = (struct Header*)(arena + 64 * (size_t)next_slot);
  next_slot = -1;
  memset(h, 0, 64);
  return header_init(h, ANode, AllocHeap);
}
static void ANode_Dealloc(var self) { anode_dealloc++; memset((char*)self - sizeof(struct Header), 0xdd, 64); }
var ANode = Cello(ANode, Instance(New, Node_New, Node_Del), Instance(Alloc, ANode_Alloc, ANode_Dealloc));

/* ------------------------------------------------------------------ observation */
/* masked address -> id of the live object there (open addressing) */
#define HSZ (1 << 18)
static int hmap[HSZ];
static size_t hslot(uintptr_t m) { return (size_t)((m * 0x9E3779B97F4A7C15ULL) >> 46) & (HSZ - 1); }
static void hput(int id) { size_t i = hslot(tab[id].p); while (hmap[i] && hmap[i] != -1) i = (i + 1) & (HSZ - 1); hmap[i] = id; }
static void hdel(int id) { size_t i = hslot(tab[id].p); while (hmap[i]) { if (hmap[i] == id) { hmap[i] = -1; return; } i = (i + 1) & (HSZ - 1); } }
static int id_of(var p) {
  uintptr_t m = (uintptr_t)p ^ PMASK;
  size_t i = hslot(m);
  while (hmap[i]) { int id = hmap[i]; if (id > 0 && tab[id].state == 1 && tab[id].p == m) return id; i = (i + 1) & (HSZ - 1); }
  return 0;
}
static void set_state(int id, int st) { if (tab[id].state == 1 && st != 1) hdel(id); tab[id].state = st; if (st == 1) hput(id); }

static long long deleted_now[64]; static int ndeleted;
static long long presumed[64]; static int npresumed;       /* ids whose address was handed out again: they were reclaimed */
static var type_for(int kind);     /* ids the script deleted in this call (and what they own) */

static long long ev_d = 0;
static void __attribute__((noinline)) observe(const char* op, long long a, long long b, long long c, const char* exc) {
  static long long regs[MAXID], roots_[MAXID], swept[MAXID], memreg[MAXID];
  size_t nr = 0, nro = 0, nsw = 0, nmr = 0;
  long long unknown = 0, nitems = -1, njk = 0, marks = 0, dup = 0, deadmem = 0;
  var gc = current(GC);
  static unsigned char seen[MAXID];
  memset(seen, 0, sizeof seen);
#ifndef NO_WHITEBOX
  struct GC* g = gc;
  nitems = (long long)g->nitems;
  for (size_t i = 0; i < g->nslots; i++) {
    if (g->entries[i].hash == 0) continue;
    int id = id_of(g->entries[i].ptr);
    if (id && type_of(g->entries[i].ptr) != type_for(tab[id].kind)) id = 0;      /* the address of a reclaimed object, reused */
    if (g->entries[i].marked) marks++;
    if (id) { if (seen[id]) dup++; seen[id] = 1; regs[nr++] = id; if (g->entries[i].root) roots_[nro++] = id; }
    else if (type_of(g->entries[i].ptr) == Int) njk++;       /* garbage made by "collect churn" */
    else unknown++;
  }
#endif
  /* the API's view: mem(gc, p) for every object believed alive; for arena objects (addresses never reused) also after death */
  for (int i = 1; i <= maxid; i++) {
    if (tab[i].state == 0) continue;
    int m = mem(gc, P(i)) ? 1 : 0;
#ifndef NO_WHITEBOX
    if (tab[i].state == 1 && m && !seen[i]) m = 0;      /* the address of a reclaimed object, handed out again */
#endif
    if (tab[i].state == 1 && m) memreg[nmr++] = i;
    if (tab[i].state == 2 && tab[i].kind == K_ANODE && m) deadmem++;
#ifdef NO_WHITEBOX
    if (tab[i].state == 1 && m) seen[i] = 1;
#endif
  }
  /* objects that left the registry without the script deleting them */
  for (int i = 1; i <= maxid; i++) {
    if (tab[i].state != 1) continue;
    if (tab[i].inreg && !seen[i]) {
      int byscript = 0; for (int k = 0; k < ndeleted; k++) if (deleted_now[k] == i) byscript = 1;
      if (!byscript) swept[nsw++] = i;
      tab[i].inreg = 0; set_state(i, 2);
    } else if (!tab[i].inreg && seen[i]) tab[i].inreg = 1;
  }
  for (int k = 0; k < npresumed; k++) swept[nsw++] = presumed[k];
  npresumed = 0;
  for (int k = 0; k < ndeleted; k++) { int i = (int)deleted_now[k]; if (tab[i].state == 1 && !seen[i]) { set_state(i, 2); tab[i].inreg = 0; } }
  ndeleted = 0;
  ev_begin(op); ev_int("a", a); ev_int("b", b); ev_int("c", c); ev_int("d", ev_d); ev_d = 0; ev_str("exc", exc); ev_str("msg", exc[0] ? hc_msg : "");
  ev_ints("reg", regs, nr); ev_ints("regroot", roots_, nro); ev_ints("memreg", memreg, nmr);
  ev_int("nitems", nitems); ev_int("njunk", njk); ev_int("unknown", unknown);
  ev_int("deadmem", deadmem); ev_int("marks", marks); ev_int("dup", dup);
  ev_ints("swept", swept, nsw); ev_ints("fin", fin_ids, nfin); nfin = 0;
  ev_int("running", running(gc) ? 1 : 0);
  ev_int("line", cur_line);
  ev_end();
}

/* ------------------------------------------------------------------ operations (noinline: no object pointer survives in main's frame) */
/* key types of other widths for the Int -> Ref containers (keyw 4 / 12): the VALUE then sits at an offset that is not a
 * multiple of the pointer size in a Tree node; plain structs, compared and hashed byte-wise by default */
struct Key4 { int32_t k; };
struct Key12 { int32_t k; int32_t pad[2]; };
static var Key4 = Cello(Key4);
static var Key12 = Cello(Key12);
static int keyw = 8;
static int elemt = 0;           /* 1: the containers hold the pointers in inline 1-Tuples (element / value type Tuple) instead of Refs */
static var hkey_type(void) { return keyw == 4 ? Key4 : keyw == 12 ? Key12 : Int; }
static var key_fill(var b4, var b12, var bi, int k) {
  if (keyw == 4) { ((struct Key4*)b4)->k = k; return b4; }
  if (keyw == 12) { struct Key12* q = b12; q->k = k; q->pad[0] = q->pad[1] = 0; return b12; }
  ((struct Int*)bi)->val = k; return bi;
}
#define KEYOBJ(k) key_fill($(Key4, 0), $(Key12, 0), $I(0), (k))

static var type_for(int kind) {
  switch (kind) {
    case K_NODE: return Node; case K_ANODE: return ANode; case K_REF: return Ref; case K_BOX: return Box;
    case K_ARRAY: return Array; case K_LIST: return List; case K_TUPLE: return Tuple;
    case K_TABLE: case K_TABLEK: return Table; case K_TREE: case K_TREEK: return Tree;
  }
  return NULL;
}

static uintptr_t __attribute__((noinline)) make(int id, int kind, int mode, int pointee) {
  var t = type_for(kind), o = NULL;
  var a1 = NULL, a2 = NULL;
  var idobj = $I(id);                 /* function scope: a compound literal dies with its block */
  if (kind == K_NODE || kind == K_ANODE) a1 = idobj;
  if (kind == K_ARRAY || kind == K_LIST) a1 = elemt ? Tuple : Ref;
  if (kind == K_TABLE || kind == K_TREE) { a1 = hkey_type(); a2 = elemt ? Tuple : Ref; }
  if (kind == K_TABLEK || kind == K_TREEK) { a1 = Ref; a2 = Int; }
  if (kind == K_BOX) a1 = P(pointee);
  if (kind == K_REF) {          /* new(Ref, NULL) would raise: allocate, leave the pointer empty */
    o = mode == 0 ? alloc(Ref) : mode == 1 ? alloc_root(Ref) : alloc_raw(Ref);
  } else if (a2) {
    o = mode == 0 ? new_with(t, tuple(a1, a2)) : mode == 1 ? new_root_with(t, tuple(a1, a2)) : new_raw_with(t, tuple(a1, a2));
  } else if (a1) {
    o = mode == 0 ? new_with(t, tuple(a1)) : mode == 1 ? new_root_with(t, tuple(a1)) : new_raw_with(t, tuple(a1));
  } else {
    o = mode == 0 ? new_with(t, tuple()) : mode == 1 ? new_root_with(t, tuple()) : new_raw_with(t, tuple());
  }
  return (uintptr_t)o ^ PMASK;
}

/* adopt: a holder (a Ref) is built and filled OUTSIDE the collector (alloc_raw) and then handed to it through the public
   registration call set(gc, object, $I(root)): from that call on it is a managed (or root) object like any other, and what it
   refers to is reachable through it - also for a threshold collection that this very call triggers */
static uintptr_t __attribute__((noinline)) adopt_build(int j) { var h = alloc_raw(Ref); ref(h, P(j)); return (uintptr_t)h ^ PMASK; }
static void __attribute__((noinline)) adopt_register(uintptr_t pm, int root) { set(current(GC), (var)(pm ^ PMASK), $I(root)); }

static void __attribute__((noinline)) scrub(void) { volatile char* p = alloca(1 << 16); memset((void*)p, 0, 1 << 16); }

static void __attribute__((noinline)) do_collect(int churn) {
  var gc = current(GC);
  if (!churn) { GC_Mark(gc); GC_Sweep(gc); return; }
  /* allocate garbage until a threshold collection has happened (the registry count drops) */
  for (int round = 0; round < 4000; round++) {
    volatile var j = new(Int, $I(round));
    j = NULL;
#ifndef NO_WHITEBOX
    if (((struct GC*)gc)->nitems + 2 < ((struct GC*)gc)->mitems / 2 && round > 8) break;
#endif
  }
}

/* copies of views: copy() of a Range, a Slice and an (already iterated) Zip are managed objects like any other - they iterate
   like their source, and they and their parts are finalised by a collection or at teardown; returns the number that differ */
static long view_sig(var v) {
  long sig = 0, n = 0;
  foreach (x in v) {
    if (n++ > 100) break;
    if (type_of(x) == Tuple) { foreach (y in x) sig = sig * 31 + (long)c_int(y) + 1; } else sig = sig * 31 + (long)c_int(x) + 1;
  }
  return sig * 1000 + n;
}
static long __attribute__((noinline)) viewcopy_run(void) {
  long bad = 0;
  var a = new(Array, Int, $I(5), $I(6), $I(7), $I(8));
  var views[3];
  views[0] = new(Range, $I(1), $I(10), $I(3));
  views[1] = new(Slice, a, $I(1), $I(3));
  views[2] = new(Zip, a, new(Range, $I(3)));
  for (int i = 0; i < 3; i++) {
    long s0 = view_sig(views[i]);            /* (the Zip has been iterated to its end before it is copied) */
    var c = copy(views[i]);
    if (type_of(c) != type_of(views[i]) || view_sig(c) != s0 || view_sig(views[i]) != s0) bad++;
  }
  return bad;
}

/* long chains: n objects linked head -> ... -> tail, the head in a stack slot; only counts are logged */
static uintptr_t* chainp; static long chainn;
static void __attribute__((noinline)) chain_build(long n, int kind, volatile var* slot) {
  chainp = realloc(chainp, (size_t)n * sizeof *chainp); chainn = n;
  var prev = NULL;
  for (long i = 0; i < n; i++) {
    var o = kind == K_REF ? alloc(Ref) : (var)new(Node, $I(0));
    chainp[i] = (uintptr_t)o ^ PMASK;
    if (i == 0) *slot = o;
    else if (kind == K_REF) ref(prev, o); else ((struct Node*)prev)->link[0] = o;
    prev = o;
  }
}
static long __attribute__((noinline)) chain_count(void) {
  var gc = current(GC); long k = 0;
  for (long i = 0; i < chainn; i++) if (mem(gc, (var)(chainp[i] ^ PMASK))) k++;
  return k;
}

/* bulk: thousands of Nodes, every keep_mod-th one referenced from a rooted Array of Ref (ids 1000 + i).  The registry goes
   through many of its sizes while it grows and shrinks. */
static uintptr_t* bulkp; static long bulkn; static int bulkmod;
static void __attribute__((noinline)) bulk_build(long n, int keep_mod, volatile var* slot) {
  bulkp = realloc(bulkp, (size_t)n * sizeof *bulkp); bulkn = n; bulkmod = keep_mod;
  var keep = new(Array, Ref); *slot = keep;
  for (long i = 0; i < n; i++) {
    var o = new(Node, $I(1000 + i));
    bulkp[i] = (uintptr_t)o ^ PMASK;
    if (i % keep_mod == 0) push(keep, $R(o));
  }
}
static void __attribute__((noinline)) bulk_count(int rooted, long* lost, long* twice, long* stale, long* gone) {
  var gc = current(GC); *lost = *twice = *stale = *gone = 0;
  for (long i = 0; i < bulkn; i++) {
    var o = (var)(bulkp[i] ^ PMASK); long long fc = fin_count[1000 + i];
    if (fc > 1) (*twice)++;
    if (rooted && i % bulkmod == 0) {
      struct Node* nd = o;
      if (fc != 0 || nd->canary != NODE_CANARY || nd->id != 1000 + i || !mem(gc, o)) (*lost)++;
    } else if (fc >= 1) { (*gone)++; }
    else if (!mem(gc, o)) (*stale)++;                      /* neither finalised nor registered any more: dropped unfinalised */
  }
}

/* ownership chains and cycles built with ref(): Box -> Box -> Node, two Boxes owning each other, a Box owning itself */
static void __attribute__((noinline)) cycles_build(long n) {
  for (long i = 0; i < n; i++) {
    var nd = new(Node, $I(1000 + i));
    var inner = new(Box, nd);
    var outer = alloc(Box); ref(outer, inner);            /* outer owns inner owns the Node */
    var c1 = alloc(Box), c2 = alloc(Box); ref(c1, c2); ref(c2, c1);
    if (i % 3 == 0) { var c3 = alloc(Box); ref(c3, c3); }
    (void)outer;
  }
}

/* containers of Boxes that the COLLECTOR (not an explicit del) deletes: each container's destructor deletes what its Boxes
   own, in the middle of the sweep that also has those objects on its list; some Boxes have been emptied before */
static void __attribute__((noinline)) boxcont_build(long n) {
  var a = new(Array, Box), l = new(List, Box), t = new(Table, Int, Box), r = new(Tree, Int, Box);
  for (long i = 0; i < n; i++) {
    var nd = NULL;
    if (i % 5 == 4) { next_slot = 5000 + i; nd = new(ANode, $I(1000 + i)); }      /* every fifth: an object of a type with its own allocator */
    else nd = new(Node, $I(1000 + i));
    switch (i % 4) { case 0: push(a, nd); break; case 1: push(l, nd); break; case 2: set(t, $I(i), $(Box, nd)); break; default: set(r, $I(i), $(Box, nd)); }       /* a map takes a value of its value type */
  }
  if (len(a) > 1) ref(get(a, $I(1)), NULL);               /* emptied: the Node it owned is plain garbage now */
  if (len(l) > 0) ref(get(l, $I(0)), NULL);
  var ur = alloc(Range); (void)ur;                        /* allocated, never constructed: its finaliser deletes a NULL member */
  var e1 = alloc(Box); (void)e1;                          /* a heap Box that never owned anything */
  var e2 = new(Box, new(Node, $I(1000 + n))); ref(e2, NULL);    /* ... and one that gave its object up */
}

/* containers of Boxes that stay REACHABLE (through one Tuple in a stack slot) while collections run: what the Boxes own is
   contained, so no collection may finalise it; the maps use hashed (String) and scattered (Int) keys, so their entries lie
   anywhere in the slot array / tree, not in the first len positions */
static volatile var* boxheld_slot;
static void __attribute__((noinline)) boxheld_build(long n) {
  volatile var* slot = boxheld_slot;
  var a = new(Array, Box), l = new(List, Box), t = new(Table, Int, Box), ts = new(Table, String, Box), r = new(Tree, String, Box), ri = new(Tree, Int, Box);
  *slot = new(Tuple, a, l, t, ts, r, ri);
  char kb[32];
  for (long i = 0; i < n; i++) {
    var nd = new(Node, $I(1000 + i));
    snprintf(kb, sizeof kb, "key-%ld", i * 7919 + 13);
    switch (i % 6) {
      case 0: push(a, nd); break; case 1: push(l, nd); break;
      case 2: set(t, $I(i * 104729 + 17), $(Box, nd)); break;
      case 3: set(ts, $S(kb), $(Box, nd)); break;
      case 4: set(r, $S(kb), $(Box, nd)); break;
      default: set(ri, $I(i * 104729 + 17), $(Box, nd)); break;
    }
  }
}
static long __attribute__((noinline)) boxheld_drop(void) {
  volatile var* slot = boxheld_slot;
  var tp = *slot; long k = 0;
  for (int i = 0; i < 6; i++) { var c = get(tp, $I(i)); k += (long)len(c); }
  *slot = NULL;
  return k;
}

/* holders: n managed Nodes (ids 1000 ..) each owning a ROOT Node (ids 1000+n ..) that its finaliser releases with del_root,
   allocating one more managed Node (ids 1000+2n ..) while it is at it; they stay reachable until the program ends, so all of
   this happens inside teardown - which has to finalise the holders, the resources and the notes, each once */
static void __attribute__((noinline)) holders_build(long n) {
  var keep = new(List, Ref);
  *boxheld_slot = keep;
  for (long i = 0; i < n; i++) {
    var hd = new(Node, $I(1000 + i));
    ((struct Node*)hd)->link[0] = new_root(Node, $I(1000 + n + i));
    push(keep, $R(hd));
  }
}

/* an object whose ONLY reference is a callee-saved register of the running thread (what an optimising compiler does with a
   local that is live across calls; pinned here so that it does not depend on optimisation flags): it is reachable, so forced
   and threshold collections leave it alone */
static long __attribute__((noinline)) reghold_run(void) {
#if defined(__GNUC__) && !defined(__clang__) && defined(__x86_64__)
  long bad = 0;
  register var held asm("r15");
  held = new(Node, $I(1000));
  scrub(); do_collect(0); scrub(); do_collect(1); do_collect(0);
  if (fin_count[1000]) bad++;
  else if (((struct Node*)held)->id != 1000) bad++;
  held = NULL;
  return bad;
#else
  return 0;
#endif
}

/* a registry of n objects at once (beyond the last entry of the collector's table of sizes when n > 7.9 million): every one is
   known, none that was not registered is, and after deleting them all none is; returns the number of wrong answers */
static long __attribute__((noinline)) regscale_run(long n) {
  long bad = 0; var gc = current(GC);
  var* ps = malloc((size_t)n * sizeof(var));
  for (long i = 0; i < n; i++) {
    ps[i] = new_root(Int, $I(i));
    if ((i > n - 5000 || i % 65521 == 0) && (!mem(gc, ps[i]) || !mem(gc, ps[i / 2]) || !mem(gc, ps[0]))) bad++;
  }
  var raw = new_raw(Int, $I(1)); if (mem(gc, raw)) bad++; del_raw(raw);
  for (long i = 0; i < n; i += (i < 3000 || i > n - 3000) ? 1 : 4099) if (!mem(gc, ps[i])) bad++;
  for (long i = 0; i < n; i++) { var p = ps[i]; del_root(p); if (i % 65521 == 0 && (mem(gc, p) || (i + 1 < n && !mem(gc, ps[i + 1])))) bad++; }
  free(ps);
  return bad;
}

/* explicit deletes of objects whose finaliser allocates: n root Nodes deleted one by one with del_root, each finaliser making k
   managed objects while the registry is in the middle of removing its entry (shrink boundaries are crossed on the way down);
   returns the number of wrong registry answers */
static long __attribute__((noinline)) delalloc_run(long n, int k) {
  long bad = 0; var gc = current(GC);
  var* ps = malloc((size_t)n * sizeof(var));
  for (long i = 0; i < n; i++) ps[i] = new_root(Node, $I(1000 + i));
  fin_allocs = k;
  for (long i = 0; i < n; i++) {
    var p = ps[i];
    del_root(p);
    if (mem(gc, p)) bad++;
    if (i + 1 < n && !mem(gc, ps[i + 1])) bad++;
    if (i + 1 < n && !mem(gc, ps[n - 1])) bad++;
  }
  fin_allocs = 0;
  free(ps);
  return bad;
}

/* a type whose Assign makes managed objects of its own (a deep copy): copy(x) of it runs collections in the middle of that assign,
   and what the half-built copy already holds is reachable through it from then on */
struct DLeaf { int64_t serial; }; struct DNode { var kids[8]; };
static char dleaf_fin[1 << 16]; static int64_t dleaf_next = 1;
static void DLeaf_New(var self, var args) { ((struct DLeaf*)self)->serial = dleaf_next < (1 << 16) - 1 ? dleaf_next++ : 0; }
static void DLeaf_Del(var self) { int64_t q = ((struct DLeaf*)self)->serial; if (q > 0 && q < (1 << 16)) dleaf_fin[q]++; }
static void DLeaf_Assign(var self, var obj) { ((struct DLeaf*)self)->serial = dleaf_next < (1 << 16) - 1 ? dleaf_next++ : 0; }
var DLeaf = Cello(DLeaf, Instance(New, DLeaf_New, DLeaf_Del), Instance(Assign, DLeaf_Assign));
static void DNode_Assign(var self, var obj) { for (int i = 0; i < 8; i++) ((struct DNode*)self)->kids[i] = copy(((struct DNode*)obj)->kids[i]); }
var DNode = Cello(DNode, Instance(Assign, DNode_Assign));
static long __attribute__((noinline)) deepcopy_run(long rounds) {
  long bad = 0;
  struct DNode* src = alloc(DNode);
  for (int i = 0; i < 8; i++) src->kids[i] = new(DLeaf);
  for (long r = 0; r < rounds; r++) {
    struct DNode* c = copy(src);
    for (int i = 0; i < 8; i++) { int64_t q = ((struct DLeaf*)c->kids[i])->serial; if (q <= 0 || q >= (1 << 16) || dleaf_fin[q]) bad++; }
    if (r % 2) src = c;                                   /* (the older generation becomes garbage) */
  }
  for (int i = 0; i < 8; i++) { int64_t q = ((struct DLeaf*)src->kids[i])->serial; if (q <= 0 || dleaf_fin[q]) bad++; }
  return bad;
}

/* copy() of objects of a plain type (no Assign, no Copy instance) - managed, root, raw and stack originals: each copy is a
   registered managed object of its own */
struct Pl { int64_t a, b; };
var Pl = Cello(Pl);
static long __attribute__((noinline)) copyplain_run(void) {
  long bad = 0; var gc = current(GC);
  struct Pl* m = alloc(Pl); m->a = 1; struct Pl* r = alloc_root(Pl); r->a = 2; struct Pl* w = alloc_raw(Pl); w->a = 3; var s = $(Pl, 4, 4);
  var srcs[4] = { m, r, w, s };
  for (int i = 0; i < 4; i++) {
    struct Pl* c = copy(srcs[i]);
    if (!mem(gc, c) || type_of(c) != Pl || c->a != i + 1) bad++;
    del(c);
    if (mem(gc, c)) bad++;
  }
  if (!mem(gc, m) || !mem(gc, r) || mem(gc, w) || mem(gc, s)) bad++;
  dealloc_raw(w); del_root(r);
  return bad;
}

/* a type whose New instance has a destructor but NO constructor (both members are optional): its objects are finalised like any
   others - by del, by a Box, by a collection */
struct DOnly { int64_t id; };
static long donly_fin[16];
static void DOnly_Del(var self) { int64_t i = ((struct DOnly*)self)->id; if (i >= 0 && i < 16) donly_fin[i]++; }
var DOnly = Cello(DOnly, Instance(New, NULL, DOnly_Del));
static void __attribute__((noinline)) donly_build(void) {
  for (int i = 0; i < 8; i++) { struct DOnly* d = new(DOnly); d->id = i; if (i == 0) del(d); else if (i == 1) { var b = new(Box, d); del(b); } else if (i == 2) { struct DOnly* r = new_raw(DOnly); r->id = 8; del_raw(r); } }
}
static long __attribute__((noinline)) donly_run(void) {
  long bad = 0; memset(donly_fin, 0, sizeof donly_fin);
  donly_build();
  if (donly_fin[0] != 1 || donly_fin[1] != 1 || donly_fin[8] != 1) bad++;
  scrub(); do_collect(0); do_collect(1); do_collect(0);
  for (int i = 0; i < 9; i++) if (donly_fin[i] != 1) bad++;
  return bad;
}

/* heap views keep their inputs alive: a heap Zip over two Arrays of Refs to Nodes, a heap Slice and a heap Map, each the ONLY
   reference to its input (built in a frame of its own) */
static var keep_fn(var x) { return x; }
static void __attribute__((noinline)) heapviews_build(volatile var* slot) {
  var holder = new(Tuple);
  for (int v = 0; v < 3; v++) {
    var a = new(Array, Ref); var b = new(Array, Ref);
    for (int i = 0; i < 4; i++) { push(a, $R(new(Node, $I(1000 + v * 8 + i)))); push(b, $R(new(Node, $I(1000 + v * 8 + 4 + i)))); }
    var view = v == 0 ? (var)new(Zip, a, b) : v == 1 ? (var)new(Slice, a, $I(1)) : (var)new(Map, a, new(Function, $(Function, keep_fn)));
    push(holder, view);
    if (v != 0) push(holder, b);                 /* (only the Zip takes two inputs) */
  }
  *slot = holder;
}
static long __attribute__((noinline)) heapviews_run(volatile var* slot) {
  long bad = 0;
  heapviews_build(slot);
  scrub(); do_collect(0); do_collect(1); do_collect(0);
  for (int i = 0; i < 24; i++) if (fin_count[1000 + i]) bad++;
  long seen = 0; foreach (t in get(*slot, $I(0))) { seen++; if (seen > 10) break; }
  if (seen != 4) bad++;
  *slot = NULL;
  return bad;
}

static void __attribute__((noinline)) plain_nodes_build(long base, long n) { for (long i = 0; i < n; i++) { var nd = new(Node, $I(base + i)); (void)nd; } }

/* a heap Tuple one of whose items is NULL (set, push and the constructor accept it): the collector meets it while marking */
/* (built in a frame of its own: the argument list of new is a compound literal that would otherwise keep the items visible) */
static void __attribute__((noinline)) tuplenull_build(volatile var* slot) {
  var a = new(Node, $I(1000)), b = new(Node, $I(1001)), c = new(Node, $I(1002));
  *slot = new(Tuple, a, NULL, b, NULL, NULL, c);
}
static long __attribute__((noinline)) tuplenull_run(volatile var* slot) {
  long bad = 0;
  tuplenull_build(slot);
  scrub(); do_collect(0); do_collect(1);
  if (fin_count[1002]) bad++;
  if (fin_count[1000] || fin_count[1001]) bad++;                     /* reachable through the Tuple */
  *slot = NULL;
  return bad;
}

/* streams whose close reports an error (a command that exits with a status, a flush that is refused) left to the collector:
   their finalisers run inside a sweep, between the finalisers of other objects */
static void __attribute__((noinline)) streams_build(long n) {
  for (long i = 0; i < n; i++) {
    var nd = new(Node, $I(1000 + i)); (void)nd;
    if (i % 4 == 1) { var p = new(Process, $S("exit 3"), $S("r")); (void)p; }
    if (i % 4 == 3) { var f = new(File, $S("/dev/full"), $S("wb")); char b = 'x'; swrite(f, &b, 1); }
  }
}

/* an Array concatenated with ITSELF whose element type allocates through the collector when it is assigned (every copy gets a
   Node of its own): collections run in the middle of the doubling; the copies already built are reachable through the Array */
struct CellN { var node; };
static long cell_next_id;
static void CellN_Assign(var self, var obj) { struct CellN* c = self; (void)obj; c->node = new(Node, $I(cell_next_id++)); }
var CellN = Cello(CellN, Instance(Assign, CellN_Assign));
static long __attribute__((noinline)) selfcat_run(long n) {
  long bad = 0; cell_next_id = 1000;
  var a = new(Array, CellN);
  for (long i = 0; i < n; i++) push(a, $(CellN, NULL));
  concat(a, a);
  if ((long)len(a) != 2 * n || cell_next_id != 1000 + 2 * n) bad++;
  for (long i = 0; i < 2 * n; i++) if (fin_count[1000 + i]) bad++;
  for (long i = 0; i < (long)len(a); i++) { struct CellN* c = get(a, $I(i)); if (!c->node || fin_count[1000 + i]) { bad++; continue; } if (((struct Node*)c->node)->id != 1000 + i) bad++; }
  return bad;
}

/* a heap Tuple filled from a source whose items are made while it is filled (a Map whose function allocates): collections run in
   the middle of the fill; every item must be alive and right afterwards.  how: 0 concat, 1 the constructor, 2 assign */
static var fill_fn(var x) { return new(Int, $I(c_int(x) + 1)); }
static long __attribute__((noinline)) tuplefill_run(long n, int how) {
  long bad = 0;
  var src = new(Array, Int); for (long i = 0; i < n; i++) push(src, $I(i));
  var fn = $(Function, fill_fn);
  var m = new(Map, src, fn);
  var t = NULL;
  if (how == 0) { t = new(Tuple); concat(t, m); }
  else if (how == 1) { t = new_with(Tuple, m); }
  else { t = new(Tuple, $I(0)); assign(t, m); }
  if ((long)len(t) != n) bad++;
  for (long i = 0; i < n && i < (long)len(t); i++) {
    var it = get(t, $I(i));
    if (!mem(current(GC), it) || type_of(it) != Int || c_int(it) != i + 1) bad++;
  }
  return bad;
}
/* the Function object a Thread was made from is held by the Thread */
static var thr_fn(var args) { return NULL; }
/* (built in a frame of its own: the argument list of new is a compound literal of the calling frame and would keep fn visible) */
/* (the callable is an object of a user type with a Call instance and the Nodes' counting finaliser: whether it is still there is
   read from the ledger, not from mem() of an address that a later allocation may have taken over) */
static var CallNode_Call(var self, var args) { return NULL; }
var CallNode = Cello(Node, Instance(New, Node_New, Node_Del), Instance(Call, CallNode_Call));
static void __attribute__((noinline)) threadfunc_build(volatile var* slot) {
  var fn = new(CallNode, $I(1000));
  var fn2 = new(Function, $(Function, thr_fn)); (void)fn2;
  *slot = new(Thread, fn);
}
static long __attribute__((noinline)) threadfunc_run(volatile var* slot) {
  threadfunc_build(slot);
  scrub(); do_collect(0); do_collect(1);
  long bad = fin_count[1000] ? 1 : 0;
  *slot = NULL;
  return bad;
}

static int kind_of(const char* s) { for (int k = 1; k <= K_TREEK; k++) if (!strcmp(s, KN[k])) return k; return 0; }

static int wfd = 1;
static void __attribute__((destructor)) after_exit(void) {
  /* runs after Cello_Exit: what did teardown finalise, which Nodes are still alive */
  if (!cur_exec) return;
  ev_begin("exit");
  ev_ints("fin", fin_ids, nfin);
  static long long never[MAXID]; size_t nn = 0;
  static long long twice[MAXID]; size_t nt = 0;
  for (int i = 1; i <= maxid; i++) {
    if ((tab[i].kind == K_NODE || tab[i].kind == K_ANODE) && tab[i].state != 0) {
      if (fin_count[i] == 0) never[nn++] = i;
      if (fin_count[i] > 1) twice[nt++] = i;
    }
  }
  long bulknever = 0, bulktwice = 0;
  for (long i = 0; i < bulkn; i++) { if (fin_count[1000 + i] == 0) bulknever++; if (fin_count[1000 + i] > 1) bulktwice++; }
  ev_ints("never", never, nn); ev_ints("twice", twice, nt); ev_int("bulknever", bulknever); ev_int("bulktwice", bulktwice);
  ev_int("ownfin", anode_fin); ev_int("owndealloc", anode_dealloc);
  ev_end(); ev_flush();
}

static volatile var* g_edge;
static int __attribute__((noinline)) real_main(int argc, char** argv);
/* the program's outermost frame holds one root slot of its own: it lies within a few words of the stack bottom the
   collector was given (programs keep their long-lived variables in main) */
int main(int argc, char** argv) {
  volatile var edge_slot[2] = { NULL, NULL };
  g_edge = &edge_slot[1] > &edge_slot[0] ? &edge_slot[1] : &edge_slot[0];
  int rc = real_main(argc, argv);
  edge_slot[0] = edge_slot[1] = NULL;
  return rc;
}
static int __attribute__((noinline)) real_main(int argc, char** argv) {
  /* stack roots: slots 0..31; slot 1 is redirected to the local closest to the stack bottom the collector was given
     (main's frame is where programs keep their long-lived variables: the scan must reach all the way down) */
  volatile var roots_a[48]; volatile var roots_b[48];
  volatile var* roots = roots_a;
  for (int i = 0; i < 48; i++) { roots_a[i] = NULL; roots_b[i] = NULL; }
  volatile var* edge = g_edge;
#define ROOTSLOT(i) (*((i) == 1 ? edge : &roots[i]))
  if (argc < 2) { fprintf(stderr, "usage: h_gc script [out]\n"); return 9; }
  hc_noaslr(argv);
  FILE* f = fopen(argv[1], "r"); if (!f) { perror(argv[1]); return 9; }
  if (argc > 2) { ev_fd = open(argv[2], O_WRONLY | O_CREAT | O_TRUNC, 0644); if (ev_fd < 0) { perror(argv[2]); return 9; } }
  hc_install(0);
  while (hc_next(f)) {
    alarm(60);
    if (hc_is(0, "keyw")) { keyw = (int)hc_int(1); continue; }
    if (hc_is(0, "elemt")) { elemt = (int)hc_int(1); continue; }
    if (hc_is(0, "reset")) { keyw = 8; elemt = 0; cur_exec++; ev_begin("reset"); ev_int("line", cur_line); ev_end(); continue; }
    if (hc_is(0, "at")) { next_slot = (long)hc_int(1); continue; }
    if (hc_is(0, "new")) {
      int id = (int)hc_int(1), kind = kind_of(hc_w[2]);
      int mode = hc_is(3, "std") ? 0 : hc_is(3, "root") ? 1 : 2;
      int pointee = (int)hc_int(4);
      if (id <= 0 || id >= MAXID || !kind) { fprintf(stderr, "bad new at line %ld\n", (long)cur_line); return 9; }
      volatile uintptr_t pm = 0;
      HC_TRY(pm = make(id, kind, mode, pointee));
      if (!hc_exc[0]) {
        int old = id_of((var)(pm ^ PMASK));
        if (old && npresumed < 60) { presumed[npresumed++] = old; set_state(old, 2); tab[old].inreg = 0; }
      }
      if (!hc_exc[0]) { tab[id].p = pm; tab[id].kind = kind; tab[id].mode = mode; set_state(id, 1); tab[id].inreg = 0; if (id > maxid) maxid = id; }
      roots[0] = hc_exc[0] ? NULL : P(id);          /* the mutator holds a fresh object on its stack until told otherwise */
      ev_d = pointee;
      observe("new", id, kind, mode, hc_exc);
      ev_flush();
      continue;
    }
    if (hc_is(0, "adopt")) {                    /* adopt <k> <j> <std|root> <slot> */
      int k = (int)hc_int(1), j = (int)hc_int(2), root = hc_is(3, "root") ? 1 : 0, slot = (int)hc_int(4);
      if (k <= 0 || k >= MAXID || slot < 2 || slot >= 32) { fprintf(stderr, "bad adopt at line %ld\n", (long)cur_line); return 9; }
      volatile uintptr_t pm = 0;
      HC_TRY(pm = adopt_build(j));
      if (!hc_exc[0]) {
        for (int i = 0; i < 32; i++) if (ROOTSLOT(i) == P(j)) ROOTSLOT(i) = NULL;      /* from now on j is referred to by the holder only */
        ROOTSLOT(slot) = (var)(pm ^ PMASK);
        scrub();
        HC_TRY(adopt_register(pm, root));
        tab[k].p = pm; tab[k].kind = K_REF; tab[k].mode = root; set_state(k, 1); tab[k].inreg = 0; if (k > maxid) maxid = k;
      }
      ev_d = slot;
      observe("adopt", k, j, root, hc_exc);
      ev_flush();
      continue;
    }
    if (hc_is(0, "link")) {
      int s = (int)hc_int(1), slot = (int)hc_int(2), d = (int)hc_int(3);
      var dst = d ? P(d) : NULL;
      if (tab[s].kind == K_NODE || tab[s].kind == K_ANODE) ((struct Node*)P(s))->link[slot & 1] = dst;
      else HC_TRY(ref(P(s), dst));
      observe("link", s, slot, d, hc_exc);
    } else if (hc_is(0, "cpush")) {
      int c = (int)hc_int(1), d = (int)hc_int(2);
      if (tab[c].kind == K_TUPLE) HC_TRY(push(P(c), P(d))); else if (elemt) HC_TRY(push(P(c), tuple(P(d)))); else HC_TRY(push(P(c), $R(P(d))));
      observe("cpush", c, d, 0, hc_exc);
    } else if (hc_is(0, "cpop")) {
      int c = (int)hc_int(1);
      HC_TRY(pop(P(c)));
      observe("cpop", c, 0, 0, hc_exc);
    } else if (hc_is(0, "cset")) {
      int c = (int)hc_int(1), k = (int)hc_int(2), d = (int)hc_int(3);
      var key = KEYOBJ(k);
      if (elemt) HC_TRY(set(P(c), key, tuple(P(d)))); else HC_TRY(set(P(c), key, $R(P(d))));
      observe("cset", c, k, d, hc_exc);
    } else if (hc_is(0, "crem")) {
      int c = (int)hc_int(1), k = (int)hc_int(2);
      var key = KEYOBJ(k);
      HC_TRY(rem(P(c), key));
      observe("crem", c, k, 0, hc_exc);
    } else if (hc_is(0, "kset")) {
      int c = (int)hc_int(1), d = (int)hc_int(2);
      HC_TRY(set(P(c), $R(P(d)), $I(d)));
      observe("kset", c, d, 0, hc_exc);
    } else if (hc_is(0, "krem")) {
      int c = (int)hc_int(1), d = (int)hc_int(2);
      HC_TRY(rem(P(c), $R(P(d))));
      observe("krem", c, d, 0, hc_exc);
    } else if (hc_is(0, "root")) {
      int slot = (int)hc_int(1), id = (int)hc_int(2);
      if (slot < 0 || slot >= 32) { fprintf(stderr, "bad root slot\n"); return 9; }
      ROOTSLOT(slot) = id ? P(id) : NULL;
      observe("root", slot, id, 0, "");
    } else if (hc_is(0, "tls")) {
      int k = (int)hc_int(1), id = (int)hc_int(2);
      char key[32]; snprintf(key, sizeof key, "verif-%d", k);
      HC_TRY(set(current(Thread), $S(key), P(id)));
      observe("tls", k, id, 0, hc_exc);
    } else if (hc_is(0, "untls")) {
      int k = (int)hc_int(1);
      char key[32]; snprintf(key, sizeof key, "verif-%d", k);
      HC_TRY(rem(current(Thread), $S(key)));
      observe("untls", k, 0, 0, hc_exc);
    } else if (hc_is(0, "del")) {
      int id = (int)hc_int(1);
      for (int i = 0; i < 32; i++) if (ROOTSLOT(i) == P(id)) ROOTSLOT(i) = NULL;
      deleted_now[ndeleted++] = id;
      for (int k = 2; k < hc_nw && ndeleted < 60; k++) deleted_now[ndeleted++] = hc_int(k);    /* what it owns (Box pointees) */
      if (tab[id].mode == 0) HC_TRY(del(P(id))); else if (tab[id].mode == 1) HC_TRY(del_root(P(id))); else HC_TRY(del_raw(P(id)));
      if (tab[id].mode == 2) set_state(id, 2);
      observe("del", id, 0, 0, hc_exc);
    } else if (hc_is(0, "collect")) {
      scrub();
      HC_TRY(do_collect(hc_is(1, "churn")));
      observe("collect", hc_is(1, "churn") ? 1 : 0, 0, 0, hc_exc);
    } else if (hc_is(0, "chain")) {            /* chain <n> <Ref|Node> : build, collect while rooted, drop, collect */
      long n = (long)hc_int(1); int kind = kind_of(hc_w[2]);
      stop(current(GC));                          /* build without intermediate collections ... */
      start(current(GC));
      chain_build(n, kind, &roots[31]);
      scrub();
      HC_TRY(do_collect(0));
      long kept = chain_count();
      ev_begin("chain"); ev_int("n", n); ev_int("kept", kept); ev_int("rooted", 1); ev_str("exc", hc_exc); ev_int("line", cur_line); ev_end(); ev_flush();
      roots[31] = NULL;
      scrub();
      HC_TRY(do_collect(0));
      kept = chain_count();
      ev_begin("chain"); ev_int("n", n); ev_int("kept", kept); ev_int("rooted", 0); ev_str("exc", hc_exc); ev_int("line", cur_line); ev_end();
    } else if (hc_is(0, "bulk")) {             /* bulk <n> <keep_mod> : build, collect rooted, drop, collect (n <= 60000) */
      long n = (long)hc_int(1); int km = (int)hc_int(2); if (n > 60000) n = 60000; if (km < 1) km = 1;
      long lost, twice, stale, gone;
      HC_TRY(bulk_build(n, km, &roots[30]); scrub(); do_collect(0); do_collect(0));
      bulk_count(1, &lost, &twice, &stale, &gone);
      ev_begin("bulk"); ev_int("n", n); ev_int("rooted", 1); ev_int("lost", lost); ev_int("twice", twice); ev_int("stale", stale); ev_int("gone", gone);
      ev_str("exc", hc_exc); ev_int("line", cur_line); ev_end(); ev_flush();
      hc_exc = "";
      roots[30] = NULL; scrub();
      HC_TRY(do_collect(0); do_collect(1));
      bulk_count(0, &lost, &twice, &stale, &gone);
      ev_begin("bulk"); ev_int("n", n); ev_int("rooted", 0); ev_int("lost", lost); ev_int("twice", twice); ev_int("stale", stale); ev_int("gone", gone);
      ev_str("exc", hc_exc); ev_int("line", cur_line); ev_end();
    } else if (hc_is(0, "cycles")) {           /* cycles <n> : ownership chains and cycles become garbage and are collected */
      long n = (long)hc_int(1); if (n > 20000) n = 20000;
      bulkn = 0;
      HC_TRY(cycles_build(n); scrub(); do_collect(0); do_collect(1); do_collect(0));
      long twice = 0, gone = 0; for (long i = 0; i < n; i++) { if (fin_count[1000 + i] > 1) twice++; if (fin_count[1000 + i] == 1) gone++; }
      ev_begin("bulk"); ev_int("n", n); ev_int("rooted", 0); ev_int("lost", 0); ev_int("twice", twice); ev_int("stale", 0); ev_int("gone", gone);
      ev_str("exc", hc_exc); ev_int("line", cur_line); ev_end();
    } else if (hc_is(0, "boxcont")) {          /* boxcont <n> : containers of Boxes become garbage and are collected */
      long n = (long)hc_int(1); if (n > 20000) n = 20000;
      bulkn = n + 1;                              /* teardown at the latest finalises every one of them, once */
      HC_TRY(boxcont_build(n); scrub(); do_collect(0); do_collect(1); do_collect(0));
      long twice = 0, gone = 0; for (long i = 0; i <= n; i++) { if (fin_count[1000 + i] > 1) twice++; if (fin_count[1000 + i] == 1) gone++; }
      ev_begin("bulk"); ev_int("n", n); ev_int("rooted", 0); ev_int("lost", 0); ev_int("twice", twice); ev_int("stale", 0); ev_int("gone", gone);
      ev_str("exc", hc_exc); ev_int("line", cur_line); ev_end();
    } else if (hc_is(0, "boxheld")) {          /* boxheld <n> : containers of Boxes stay reachable across collections, then become garbage */
      long n = (long)hc_int(1); if (n > 20000) n = 20000;
      bulkn = n;
      long lost = 0, kept = 0;
      boxheld_slot = &ROOTSLOT(30);
      HC_TRY(boxheld_build(n); scrub(); do_collect(0); do_collect(1); do_collect(0));
      for (long i = 0; i < n; i++) if (fin_count[1000 + i]) lost++;            /* finalised while still contained */
      HC_TRY(kept = boxheld_drop(); scrub(); do_collect(0); do_collect(1); do_collect(0));
      if (kept != n) lost++;
      long twice = 0, gone = 0; for (long i = 0; i < n; i++) { if (fin_count[1000 + i] > 1) twice++; if (fin_count[1000 + i] == 1) gone++; }
      ev_begin("bulk"); ev_int("n", n); ev_int("rooted", 1); ev_int("lost", lost); ev_int("twice", twice); ev_int("stale", 0); ev_int("gone", gone);
      ev_str("exc", hc_exc); ev_int("line", cur_line); ev_end();
    } else if (hc_is(0, "holders")) {          /* holders <n> : finalisers that release a root and allocate, all run by teardown */
      long n = (long)hc_int(1); if (n > 300) n = 300;
      bulkn = 3 * n; fin_holder_n = n; boxheld_slot = &ROOTSLOT(30);
      HC_TRY(holders_build(n); scrub(); do_collect(0); do_collect(1));
      long lost = 0; for (long i = 0; i < 3 * n; i++) if (fin_count[1000 + i]) lost++;           /* nothing is garbage yet */
      ev_begin("bulk"); ev_int("n", n); ev_int("rooted", 1); ev_int("lost", lost); ev_int("twice", 0); ev_int("stale", 0); ev_int("gone", 0);
      ev_str("exc", hc_exc); ev_int("line", cur_line); ev_end();
    } else if (hc_is(0, "reghold")) {          /* reghold : the only reference to an object is a CPU register while collections run */
      bulkn = 1; long bad = 0;
      HC_TRY(bad = reghold_run());
      ev_begin("bulk"); ev_int("n", 1); ev_int("rooted", 1); ev_int("lost", bad); ev_int("twice", 0); ev_int("stale", 0); ev_int("gone", 0);
      ev_str("exc", hc_exc); ev_int("line", cur_line); ev_end();
    } else if (hc_is(0, "regscale")) {         /* regscale <n> : n root objects registered at once, looked up, deleted */
      long n = (long)hc_int(1); volatile long bad = 0; bulkn = 0;
      alarm(240);
      HC_TRY(bad = regscale_run(n));
      ev_begin("bulk"); ev_int("n", 1); ev_int("rooted", 1); ev_int("lost", bad); ev_int("twice", 0); ev_int("stale", 0); ev_int("gone", 0);
      ev_str("exc", hc_exc); ev_int("line", cur_line); ev_end();
    } else if (hc_is(0, "delalloc")) {         /* delalloc <n> <k> : del_root of n root Nodes whose finalisers allocate k objects each */
      long n = (long)hc_int(1); if (n > 20000) n = 20000; volatile long bad = 0; bulkn = n;
      alarm(60);
      HC_TRY(bad = delalloc_run(n, (int)hc_int(2)));
      long twice = 0, gone = 0; for (long i = 0; i < n; i++) { if (fin_count[1000 + i] > 1) twice++; if (fin_count[1000 + i] == 1) gone++; }
      ev_begin("bulk"); ev_int("n", n); ev_int("rooted", 0); ev_int("lost", bad + (gone != n)); ev_int("twice", twice); ev_int("stale", 0); ev_int("gone", gone);
      ev_str("exc", hc_exc); ev_int("line", cur_line); ev_end();
    } else if (hc_is(0, "deepcopy")) {         /* deepcopy <rounds> : copy() of an object whose Assign allocates, across threshold collections */
      volatile long bad = 0; bulkn = 0;
      HC_TRY(bad = deepcopy_run((long)hc_int(1)));
      ev_begin("bulk"); ev_int("n", 1); ev_int("rooted", 1); ev_int("lost", bad); ev_int("twice", 0); ev_int("stale", 0); ev_int("gone", 0);
      ev_str("exc", hc_exc); ev_int("line", cur_line); ev_end();
    } else if (hc_is(0, "copyplain")) {
      volatile long bad = 0; bulkn = 0;
      HC_TRY(bad = copyplain_run());
      ev_begin("bulk"); ev_int("n", 1); ev_int("rooted", 1); ev_int("lost", bad); ev_int("twice", 0); ev_int("stale", 0); ev_int("gone", 0);
      ev_str("exc", hc_exc); ev_int("line", cur_line); ev_end();
    } else if (hc_is(0, "donly")) {
      volatile long bad = 0; bulkn = 0;
      HC_TRY(bad = donly_run());
      ev_begin("bulk"); ev_int("n", 1); ev_int("rooted", 0); ev_int("lost", bad); ev_int("twice", 0); ev_int("stale", 0); ev_int("gone", 0);
      ev_str("exc", hc_exc); ev_int("line", cur_line); ev_end();
    } else if (hc_is(0, "heapviews")) {
      volatile long bad = 0; bulkn = 24;
      boxheld_slot = &ROOTSLOT(30);
      HC_TRY(bad = heapviews_run(boxheld_slot); scrub(); do_collect(0));
      ev_begin("bulk"); ev_int("n", 24); ev_int("rooted", 1); ev_int("lost", bad); ev_int("twice", 0); ev_int("stale", 0); ev_int("gone", 0);
      ev_str("exc", hc_exc); ev_int("line", cur_line); ev_end();
    } else if (hc_is(0, "finalloc")) {         /* finalloc <n> <k> : n garbage Nodes whose finalisers allocate k objects each, in the middle of a sweep */
      long n = (long)hc_int(1); if (n > 20000) n = 20000;
      bulkn = n; fin_allocs = (int)hc_int(2);
      HC_TRY(cycles_build(n); scrub(); do_collect(0); do_collect(1); do_collect(0));
      long twice = 0, gone = 0; for (long i = 0; i < n; i++) { if (fin_count[1000 + i] > 1) twice++; if (fin_count[1000 + i] == 1) gone++; }
      ev_begin("bulk"); ev_int("n", n); ev_int("rooted", 0); ev_int("lost", 0); ev_int("twice", twice); ev_int("stale", 0); ev_int("gone", gone);
      ev_str("exc", hc_exc); ev_int("line", cur_line); ev_end();
    } else if (hc_is(0, "finraise")) {         /* finraise <n> : one finaliser of n garbage Nodes raises during a threshold collection; the program
                                                  handles it; the collector must go on collecting afterwards */
      long n = (long)hc_int(1); if (n > 20000) n = 20000;
      bulkn = 0; fin_raise_id = 1000 + n / 2;
      const char* first = "";
      HC_TRY(cycles_build(n); scrub(); do_collect(1)); first = hc_exc;
      for (int rep = 0; rep < 3 && fin_raise_id; rep++) { HC_TRY(do_collect(1)); if (hc_exc[0]) first = hc_exc; }
      long before = 0; for (long i = 0; i < n; i++) before += fin_count[1000 + i];
      /* a second batch of garbage, after the exception was handled: threshold collections must still happen */
      long base = 1000 + n; long twice = 0, gone2 = 0;
      HC_TRY(plain_nodes_build(base, n); scrub(); do_collect(1); do_collect(1));
      for (long i = 0; i < n; i++) { if (fin_count[base + i] > 1) twice++; if (fin_count[base + i] == 1) gone2++; }
      for (long i = 0; i < n; i++) if (fin_count[1000 + i] > 1) twice++;
      ev_begin("bulk"); ev_int("n", n); ev_int("rooted", 0); ev_int("lost", 0); ev_int("twice", twice); ev_int("stale", gone2 == 0 ? 1 : 0); ev_int("gone", gone2);
      ev_str("raised", first); ev_str("exc", hc_exc); ev_int("line", cur_line); ev_end();
    } else if (hc_is(0, "streams")) {
      long n = (long)hc_int(1); if (n > 200) n = 200;
      bulkn = n;
      HC_TRY(streams_build(n); scrub(); do_collect(0); do_collect(1); do_collect(0));
      long twice = 0, gone = 0; for (long i = 0; i < n; i++) { if (fin_count[1000 + i] > 1) twice++; if (fin_count[1000 + i] == 1) gone++; }
      ev_begin("bulk"); ev_int("n", n); ev_int("rooted", 0); ev_int("lost", 0); ev_int("twice", twice); ev_int("stale", 0); ev_int("gone", gone);
      ev_str("exc", hc_exc); ev_int("line", cur_line); ev_end();
    } else if (hc_is(0, "selfcat")) {          /* selfcat <n> */
      long n = (long)hc_int(1); if (n > 8000) n = 8000; volatile long bad = -1; bulkn = 2 * n;
      HC_TRY(bad = selfcat_run(n); scrub(); do_collect(0); do_collect(1));
      ev_begin("bulk"); ev_int("n", 2 * n); ev_int("rooted", 1); ev_int("lost", bad); ev_int("twice", 0); ev_int("stale", 0); ev_int("gone", 0);
      ev_str("exc", hc_exc); ev_int("line", cur_line); ev_end();
    } else if (hc_is(0, "tuplefill")) {
      long n = (long)hc_int(1); int how = (int)hc_int(2); volatile long bad = -1; bulkn = 0;
      HC_TRY(bad = tuplefill_run(n, how));
      ev_begin("bulk"); ev_int("n", n); ev_int("rooted", 1); ev_int("lost", bad); ev_int("twice", 0); ev_int("stale", 0); ev_int("gone", 0);
      ev_str("exc", hc_exc); ev_int("line", cur_line); ev_end();
    } else if (hc_is(0, "threadfunc")) {
      volatile long bad = -1; bulkn = 0;
      HC_TRY(bad = threadfunc_run(&ROOTSLOT(29)));
      ev_begin("bulk"); ev_int("n", 1); ev_int("rooted", 1); ev_int("lost", bad); ev_int("twice", 0); ev_int("stale", 0); ev_int("gone", 0);
      ev_str("exc", hc_exc); ev_int("line", cur_line); ev_end();
    } else if (hc_is(0, "tuplenull")) {
      volatile long bad = -1; bulkn = 3;
      HC_TRY(bad = tuplenull_run(&ROOTSLOT(30)); scrub(); do_collect(0));
      ev_begin("bulk"); ev_int("n", 2); ev_int("rooted", 1); ev_int("lost", bad); ev_int("twice", 0); ev_int("stale", 0); ev_int("gone", 0);
      ev_str("exc", hc_exc); ev_int("line", cur_line); ev_end();
    } else if (hc_is(0, "viewcopy")) {         /* copies of views are ordinary managed objects */
      volatile long bad = -1;
      HC_TRY(bad = viewcopy_run(); scrub(); do_collect(0));
      ev_begin("bulk"); ev_int("n", 3); ev_int("rooted", 0); ev_int("lost", bad); ev_int("twice", 0); ev_int("stale", 0); ev_int("gone", 0);
      ev_str("exc", hc_exc); ev_int("line", cur_line); ev_end();
    } else if (hc_is(0, "stop")) {
      stop(current(GC)); observe("stop", 0, 0, 0, "");
    } else if (hc_is(0, "start")) {
      start(current(GC)); observe("start", 0, 0, 0, "");
    } else { fprintf(stderr, "unknown op %s at line %ld\n", hc_w[0], (long)cur_line); return 9; }
    ev_flush();
  }
  alarm(45);       /* teardown (the collector finalising what is left) is part of the execution: it may not hang either */
  for (int i = 0; i < 32; i++) ROOTSLOT(i) = NULL;
  ev_begin("end"); ev_int("line", cur_line); ev_end();
  ev_flush();
  return 0;
}
