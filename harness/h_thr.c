/* h_thr.c - threads (C13): isolation, join, Mutex.
 *   reset
 *   run <k> <seed> <rounds>     k Cello threads, thread i runs workload (seed + i); before that the same workloads run ALONE in main
 *   tlsshare                    observation for the open finding: does the parent's collector trace a child's TLS table?
 * Every thread: container work, allocation-heavy work that triggers collections of its own collector, exception-heavy
 * work, thread-local values, and critical sections under one Mutex (lock / trylock / with) with a global atomic ticket
 * taken inside the section at entry and exit.
 */
#include <pthread.h>
#include <sched.h>
#include <stdatomic.h>
#include "hc.h"

static atomic_long ticket;                /* taken only inside critical sections */
static atomic_long order_ticket;          /* function end / join return ordering */
static long shared_plain;                 /* incremented only inside critical sections, deliberately not atomic */
static atomic_long foreign_retire;        /* TProbe destructed by a thread other than its creator */
static atomic_long tprobe_live;
static atomic_long tprobe_child_live;     /* TProbes made by child threads and not finalised yet: 0 once every child is joined */
static pthread_t main_thread;
#define MAXT 32
static __thread int my_idx = -1;          /* index of the child thread running this code (-1: main) */
static atomic_long live_by[MAXT];         /* TProbes of child i not finalised yet */
static atomic_int fn_done[MAXT];          /* child i's function is about to return (its teardown has not started) */
#define SLOW_MARK 987654321

struct TProbe { int64_t val; pthread_t owner; int64_t canary; int64_t oidx; };
static void TProbe_New(var self, var args) { struct TProbe* p = self; p->val = c_int(get(args, $I(0))); p->owner = pthread_self(); p->canary = 0x7470726f6265LL; atomic_fetch_add(&tprobe_live, 1);
  p->oidx = my_idx; if (my_idx >= 0) atomic_fetch_add(&live_by[my_idx], 1);
  if (!pthread_equal(p->owner, main_thread)) atomic_fetch_add(&tprobe_child_live, 1); }
static void TProbe_Del(var self) { struct TProbe* p = self;
  if (p->val == SLOW_MARK) { volatile int guarded = 0; try { guarded = 1; } catch (e) { guarded = 2; } (void)guarded; }      /* a finaliser that uses a try block (also while its thread is torn down) */ if (!pthread_equal(p->owner, pthread_self()) || p->canary != 0x7470726f6265LL) atomic_fetch_add(&foreign_retire, 1); if (p->val == SLOW_MARK) usleep(300);          /* a finaliser that takes its time: teardown of a finished thread lasts a while */
  if (p->canary == 0x7470726f6265LL && p->oidx >= 0) atomic_fetch_sub(&live_by[p->oidx], 1);
  if (p->canary == 0x7470726f6265LL && !pthread_equal(p->owner, main_thread)) atomic_fetch_sub(&tprobe_child_live, 1);
  p->canary = 0; atomic_fetch_sub(&tprobe_live, 1); }
var TProbe = Cello(TProbe, Instance(New, TProbe_New, TProbe_Del));
/* a result a child thread roots and leaves to its joiner: roots outlive the collector that registered them */
struct RProbe { int64_t val; int64_t canary; };
static atomic_long rprobe_fin[MAXT];
static void RProbe_New(var self, var args) { struct RProbe* p = self; p->val = c_int(get(args, $I(0))); p->canary = 0x7270726f6265LL; }
static void RProbe_Del(var self) { struct RProbe* p = self; if (p->val >= 7000 && p->val < 7000 + MAXT) atomic_fetch_add(&rprobe_fin[p->val - 7000], 1); p->canary = 0; }
var RProbe = Cello(RProbe, Instance(New, RProbe_New, RProbe_Del));
static var result_root[MAXT];

struct Res { uint64_t digest; long cs_in[64], cs_out[64]; int ncs; long tryfail; long ended; int exc_seen; int64_t cell; var own[2]; long withbad; };
static struct Res res_thr[MAXT], res_alone[MAXT];
static var the_mutex;
static int64_t cells[MAXT];               /* written by thread i, read by main after join */

static uint64_t mix(uint64_t h, uint64_t x) { h ^= x + 0x9E3779B97F4A7C15ULL + (h << 6) + (h >> 2); return h; }
static uint64_t rnd(uint64_t* s) { *s ^= *s << 13; *s ^= *s >> 7; *s ^= *s << 17; return *s; }

static void crit(struct Res* r, int how) {
  if (how == 3) {
    /* the lock is named by an expression whose value is different when the block ends (a table of locks indexed by a stage that
       the body advances): the Mutex that was ACQUIRED is the one released. Both locks are this thread's own, so the outcome can
       be probed without waiting: the first is free again afterwards, the second was never touched */
    var locks[2] = { r->own[0], r->own[1] }; volatile int stage = 0;
    with (m in locks[stage]) { if (trylock(r->own[0])) { r->withbad++; unlock(r->own[0]); } stage = 1; }
    if (!trylock(r->own[0])) r->withbad++; else unlock(r->own[0]);
    if (!trylock(r->own[1])) r->withbad++; else unlock(r->own[1]);
    how = 2;
  }
  if (how == 0) lock(the_mutex);
  else if (how == 1) { while (!trylock(the_mutex)) { r->tryfail++; sched_yield(); } }
  if (how == 2) {
    with (m in the_mutex) {
      long a = atomic_fetch_add(&ticket, 1); shared_plain++; sched_yield(); long b = atomic_fetch_add(&ticket, 1);
      if (r->ncs < 64) { r->cs_in[r->ncs] = a; r->cs_out[r->ncs] = b; r->ncs++; }
    }
    return;
  }
  long a = atomic_fetch_add(&ticket, 1); shared_plain++; if (a % 3 == 0) sched_yield(); long b = atomic_fetch_add(&ticket, 1);
  if (r->ncs < 64) { r->cs_in[r->ncs] = a; r->cs_out[r->ncs] = b; r->ncs++; }
  unlock(the_mutex);
}

/* an object whose ONLY reference is a thread-local slot of the running thread (made in a frame that is gone afterwards) */
static void __attribute__((noinline)) park_in_tls(uint64_t seed) { set(current(Thread), $S("verif-only"), new(TProbe, $I((int64_t)(seed % 100000) + 77))); }
static void __attribute__((noinline)) scrub_stack(void) { volatile char pad[4096]; for (size_t i = 0; i < sizeof pad; i++) pad[i] = 0; }

/* the workload: everything it computes goes into the digest; with_mutex = 0 for the solo reference run */
static void __attribute__((noinline)) work(uint64_t seed, int rounds, struct Res* r, int with_mutex, int idx) {
  uint64_t s = seed * 2654435761ULL + 88172645463325252ULL, h = 1469598103934665603ULL;
  for (int round = 0; round < rounds; round++) {
    /* containers */
    var t = new(Table, Int, Int); var a = new(Array, Int); var l = new(List, String); var tr = new(Tree, Int, Int);
    for (int i = 0; i < 40; i++) {
      int64_t k = (int64_t)(rnd(&s) % 23) * 55, v = (int64_t)(rnd(&s) % 1000);
      set(t, $I(k), $I(v)); set(tr, $I(k - 300), $I(v));
      push(a, $I(v)); if (i % 3 == 0) push(l, $S("abc")); if (i % 7 == 0 && len(a) > 2) pop_at(a, $I(1));
      if (i % 5 == 0 && mem(t, $I(k))) rem(t, $I(k));
    }
    sort(a);
    foreach (x in a) h = mix(h, (uint64_t)c_int(x));
    foreach (k in tr) h = mix(h, (uint64_t)c_int(k) * 3 + (uint64_t)c_int(get(tr, k)));
    h = mix(h, len(t)); h = mix(h, len(l)); h = mix(h, hash(t));
    /* allocation heavy: garbage for this thread's own collector, a few survivors checked afterwards */
    park_in_tls(seed + (uint64_t)round); scrub_stack();
    var keep[8]; for (int i = 0; i < 8; i++) keep[i] = new(TProbe, $I((int64_t)(seed + (uint64_t)i)));
    for (int i = 0; i < 300; i++) { var g = new(TProbe, $I(i)); (void)g; var g2 = new(Int, $I(i)); (void)g2; }
    for (int i = 0; i < 8; i++) { struct TProbe* p = keep[i]; h = mix(h, (uint64_t)p->val); if (p->canary != 0x7470726f6265LL) h = mix(h, 0xDEAD); }
    { struct TProbe* p = get(current(Thread), $S("verif-only"));        /* still there after this thread's collections */
      h = mix(h, p->canary == 0x7470726f6265LL ? (uint64_t)p->val : 0xDEAD); }
    /* exceptions */
    for (int i = 0; i < 20; i++) {
      volatile int inner = 0, outer = 0;
      try {
        try { if (rnd(&s) % 2) throw(KeyError, "k%i", $I(i)); inner = 1; } catch (e in KeyError) { inner = 2; }
        if (rnd(&s) % 3 == 0) throw(ValueError, "v");
        outer = 1;
      } catch (e) { outer = (e == ValueError) ? 2 : 3; r->exc_seen++; }
      h = mix(h, (uint64_t)(inner * 10 + outer));
      h = mix(h, len(current(Exception)));
    }
    /* thread-local storage */
    set(current(Thread), $S("verif-a"), keep[0]); set(current(Thread), $S("verif-b"), a);
    h = mix(h, (uint64_t)((struct TProbe*)get(current(Thread), $S("verif-a")))->val);
    h = mix(h, len(get(current(Thread), $S("verif-b"))));
    rem(current(Thread), $S("verif-b"));
    if (with_mutex) { crit(r, round % 4); cells[idx] = (int64_t)h; }
    if (round % 4 == 1) sched_yield();
  }
  r->digest = h; r->cell = (int64_t)h;
}

static atomic_int handoff_ok[MAXT];      /* child i found the value its parent had put into its thread-local storage before the start */
/* threads started with call_with(thread, <an Array the caller goes on using>): the thread works on its own copy of the
   arguments - what the caller does to its container after the call is none of the thread's business. The gate keeps every
   thread from reading its arguments until the caller has finished scribbling over its containers. */
static atomic_int args_gate;
static var thread_main(var args) {
  while (!atomic_load(&args_gate)) sched_yield();
  int idx = (int)c_int(get(args, $I(0)));
  { volatile int ok = 0;
    try { struct TProbe* hp = get(current(Thread), $S("handoff")); ok = (hp->canary == 0x7470726f6265LL && hp->val == 5000 + idx) ? 1 : 0; } catch (e) { ok = -1; }
    if (ok == 1 && mem(current(Thread), $S("scratch"))) ok = -2;        /* the creator removed that key from THIS thread's storage before the start */
    atomic_store(&handoff_ok[idx], ok); } uint64_t seed = (uint64_t)c_int(get(args, $I(1))); int rounds = (int)c_int(get(args, $I(2)));
  my_idx = idx;
  work(seed, rounds, &res_thr[idx], 1, idx);
  /* a consumer "releasing" what it was handed: the object belongs to the parent's collector, this thread's collector does not
     know it - the call must leave it alone (no finaliser on this thread, the parent still uses the object) */
  { volatile int dummy = 0; try { del(get(current(Thread), $S("handoff"))); } catch (e) { dummy = 1; } (void)dummy; }
  for (int i = 0; i < 40; i++) { var g = new(TProbe, $I(SLOW_MARK)); (void)g; }      /* left to the thread's teardown */
  result_root[idx] = new_root(RProbe, $I(7000 + idx));           /* published by join; the joiner releases it */
  res_thr[idx].ended = atomic_fetch_add(&order_ticket, 1);
  atomic_store(&fn_done[idx], 1);
  return NULL;
}

/* stop(thread) interrupts THAT thread (it finds itself in a ProgramInterruptedError handler) and no other: the caller goes on */
static atomic_int st_ready, st_caught, st_quit, st_done;
static var stoppable_main(var args) {
  try { atomic_store(&st_ready, 1); for (int i = 0; i < 4000 && !atomic_load(&st_quit); i++) usleep(1000); }
  catch (e in ProgramInterruptedError) { atomic_store(&st_caught, 1); }
  atomic_store(&st_done, 1);
  return NULL;
}
/* open finding: the child's TLS table is walked by the PARENT's collector */
static atomic_int child_go, child_ready;
static var park_main(var args) { atomic_store(&child_ready, 1); while (!atomic_load(&child_go)) sched_yield(); return NULL; }
void GC_Mark(void*); void GC_Sweep(void*);
static uintptr_t __attribute__((noinline)) make_victim(var th) { var v = new(TProbe, $I(4242)); set(th, $S("victim"), v); return (uintptr_t)v ^ 0x5a5a5a5a5a5aULL; }
static void __attribute__((noinline)) scrub(void) { volatile char* p = alloca(1 << 15); memset((void*)p, 0, 1 << 15); }

int main(int argc, char** argv) {
  if (argc < 2) { fprintf(stderr, "usage: h_thr script [out]\n"); return 9; }
  FILE* f = fopen(argv[1], "r"); if (!f) { perror(argv[1]); return 9; }
  if (argc > 2) { ev_fd = open(argv[2], O_WRONLY | O_CREAT | O_TRUNC, 0644); if (ev_fd < 0) { perror(argv[2]); return 9; } }
  hc_install(0);
  main_thread = pthread_self();
  var fn = $(Function, thread_main); var fpark = $(Function, park_main);
  the_mutex = new_root(Mutex);
  while (hc_next(f)) {
    alarm(120);
    if (hc_is(0, "reset")) { if (cur_exec > 0) { ev_begin("end"); ev_end(); } cur_exec++; ev_begin("reset"); ev_end(); continue; }
    if (hc_is(0, "stopthread")) {
      volatile int main_hit = 0; const char* x1 = "";
      exception_signals();
      atomic_store(&st_ready, 0); atomic_store(&st_caught, 0); atomic_store(&st_quit, 0); atomic_store(&st_done, 0);
      var th = new(Thread, $(Function, stoppable_main));
      call(th);
      for (int w = 0; w < 4000 && !atomic_load(&st_ready); w++) usleep(500);
      try { stop(th); for (int w = 0; w < 600 && !atomic_load(&st_done); w++) usleep(1000); }
      catch (e in ProgramInterruptedError) { main_hit = 1; }
      atomic_store(&st_quit, 1);
      HC_TRY(join(th)); x1 = hc_exc;
      hc_install(0);                                  /* (the harness's own handlers back in place) */
      ev_begin("stopthread"); ev_int("caught", atomic_load(&st_caught)); ev_int("mainhit", main_hit); ev_int("done", atomic_load(&st_done)); ev_str("exc", x1); ev_end();
      continue;
    }
    if (hc_is(0, "run")) {
      int k = (int)hc_int(1); uint64_t seed = (uint64_t)hc_int(2); int rounds = (int)hc_int(3);
      if (k > MAXT) k = MAXT;
      memset(res_thr, 0, sizeof res_thr); memset(res_alone, 0, sizeof res_alone);
      { static var own_locks[MAXT][2]; for (int i = 0; i < MAXT; i++) for (int q = 0; q < 2; q++) { if (!own_locks[i][q]) own_locks[i][q] = new_root(Mutex); res_thr[i].own[q] = own_locks[i][q]; } }
      for (int i = 0; i < k; i++) work(seed + (uint64_t)i, rounds, &res_alone[i], 0, i);        /* each workload alone, in main */
      for (int i = 0; i < MAXT; i++) { atomic_store(&live_by[i], 0); atomic_store(&fn_done[i], 0); }
      atomic_store(&args_gate, 0); atomic_store(&ticket, 0); atomic_store(&order_ticket, 0); shared_plain = 0; atomic_store(&foreign_retire, 0);
      var th[MAXT];
      /* Threads obtained in three ways: new, copy of another (not yet started) Thread, assign onto a fresh Thread */
      for (int i = 0; i < k; i++) {
        if (i % 3 == 1) th[i] = copy(th[i - 1]);
        else if (i % 3 == 2) { th[i] = new(Thread, fpark); assign(th[i], th[i - 2]); }
        else th[i] = new(Thread, fn);
      }
      /* arguments must outlive this loop body: a Thread keeps pointers to them */
      static var a_idx[MAXT], a_seed[MAXT], a_rounds;
      if (!a_rounds) a_rounds = new_root(Int, $I(0));
      ((struct Int*)a_rounds)->val = rounds;
      /* state handed to a thread before it starts: the parent puts a value into the (not yet running) thread's storage, keeps
         no other reference, and collects; the thread must find it intact */
      for (int i = 0; i < k; i++) { atomic_store(&handoff_ok[i], 0); set(th[i], $S("handoff"), new(TProbe, $I(5000 + i))); }
      /* get / set / mem / rem on a Thread object address THAT thread's storage, whoever calls: the creator keeps a key of the same
         name in its own storage, puts one into every new thread's and takes it out again */
      static var scratch_val; if (!scratch_val) scratch_val = new_root(Int, $I(77));
      set(current(Thread), $S("scratch"), scratch_val);
      for (int i = 0; i < k; i++) { set(th[i], $S("scratch"), scratch_val); if (!mem(th[i], $S("scratch"))) atomic_store(&foreign_retire, 1000); rem(th[i], $S("scratch")); if (mem(th[i], $S("scratch"))) atomic_store(&foreign_retire, 1001); }
      if (!mem(current(Thread), $S("scratch"))) atomic_store(&foreign_retire, 1002);
      scrub(); GC_Mark(current(GC)); GC_Sweep(current(GC));
      for (int i = 0; i < k; i++) {
        if (!a_idx[i]) { a_idx[i] = new_root(Int, $I(i)); a_seed[i] = new_root(Int, $I(0)); }
        ((struct Int*)a_seed[i])->val = (int64_t)(seed + (uint64_t)i);
        if (i % 4 == 3) {             /* an Array (or a List) as the argument pack, changed and then deleted by the caller right after the call */
          var pack = (i % 8 == 3) ? (var)new(Array, Int, a_idx[i], a_seed[i], a_rounds) : (var)new(List, Int, a_idx[i], a_seed[i], a_rounds);
          call_with(th[i], pack);
          set(pack, $I(0), $I((i + 1) % k)); set(pack, $I(1), $I(12345)); set(pack, $I(2), $I(1)); pop(pack); del(pack);
        } else call(th[i], a_idx[i], a_seed[i], a_rounds);
      }
      atomic_store(&args_gate, 1);
      long joined[MAXT]; int64_t seen[MAXT]; long liveatjoin[MAXT]; long rootres[MAXT];
      for (int i = 0; i < MAXT; i++) { atomic_store(&rprobe_fin[i], 0); rootres[i] = 0; }
      for (int i = 0; i < k; i++) {
        /* every second thread is joined only after its function has returned, while its teardown is still going on:
           join must wait for the whole thread, not just for its function */
        if (i % 2 == 0) { for (int w = 0; w < 200000 && !atomic_load(&fn_done[i]); w++) sched_yield(); usleep(1500); }
        join(th[i]); liveatjoin[i] = atomic_load(&live_by[i]);
        { struct RProbe* rp = result_root[i]; rootres[i] = (rp && atomic_load(&rprobe_fin[i]) == 0 && rp->canary == 0x7270726f6265LL && rp->val == 7000 + i) ? 1 : 0;
          /* (the collector that knew it is gone: del_root here would look it up in the joiner's collector and do nothing; it is released as the raw object it now is) */
          if (rootres[i]) { del_raw(rp); if (atomic_load(&rprobe_fin[i]) != 1) rootres[i] = -1; } result_root[i] = NULL; }
        joined[i] = atomic_fetch_add(&order_ticket, 1); seen[i] = cells[i];
      }
      long total_cs = 0;
      for (int i = 0; i < k; i++) {
        ev_begin("thread"); ev_int("t", i); ev_limbs("digest", res_thr[i].digest); ev_limbs("alone", res_alone[i].digest);
        ev_int("ended", res_thr[i].ended); ev_int("joined", joined[i]); ev_limbs("cell", (uint64_t)res_thr[i].cell); ev_limbs("seen", (uint64_t)seen[i]);
        ev_int("liveatjoin", liveatjoin[i]); ev_int("handoff", atomic_load(&handoff_ok[i])); ev_int("rootres", rootres[i]); ev_int("ncs", res_thr[i].ncs); ev_int("withbad", res_thr[i].withbad); ev_ints("tin", (long long*)res_thr[i].cs_in, 0); ev_end();
        for (int c = 0; c < res_thr[i].ncs; c++) { ev_begin("cs"); ev_int("t", i); ev_int("tin", res_thr[i].cs_in[c]); ev_int("tout", res_thr[i].cs_out[c]); ev_end(); total_cs++; }
      }
      ev_begin("summary"); ev_int("k", k); ev_int("plain", shared_plain); ev_int("sections", total_cs); ev_int("foreign", atomic_load(&foreign_retire));
      ev_int("childlive", atomic_load(&tprobe_child_live)); ev_end();      /* every child's collector was torn down when it ended */
      continue;
    }
    if (hc_is(0, "tlsshare")) {
      /* a child parked in its function; the parent stores an object only in the child's TLS and collects */
      atomic_store(&child_go, 0); atomic_store(&child_ready, 0);
      var th = new(Thread, fpark);
      call(th);
      while (!atomic_load(&child_ready)) sched_yield();
      volatile uintptr_t vm = make_victim(th);
      scrub();
      GC_Mark(current(GC)); GC_Sweep(current(GC));
      int kept = mem(current(GC), (var)(vm ^ 0x5a5a5a5a5a5aULL)) ? 1 : 0;
      atomic_store(&child_go, 1); join(th);
      ev_begin("tlsshare"); ev_int("kept", kept); ev_end();      /* 1: the parent's collector traced the child's table */
      continue;
    }
    fprintf(stderr, "unknown op %s\n", hc_w[0]); return 9;
  }
  ev_begin("end"); ev_end(); ev_flush();
  return 0;
}
