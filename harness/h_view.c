/* h_view.c - iterables and views (C11).  One view expression per script line:
 *
 *   reset
 *   view [@<unit>] <expr>     with a unit: every Int VALUE (base contents, range arguments, probes) is multiplied by the unit for
 *                             the library and divided by it again in the log (positions - slice arguments, indices - are not):
 *                             the view of unit * values is unit * the view of the values, and the specification sees the small ones
 *   expr := A n v..   Array(Int)      L n v..   List(Int)     U n v..  heap Tuple of Ints
 *           B n k..   Table(Int,Int) keys       R n k..  Tree(Int,Int) keys
 *           G k a..   range with k arguments (0..3); the word u stands for _
 *           S k expr a..   slice(expr, a..) with k arguments (0..3)
 *           Z k expr..     zip of k iterables          E expr   enumerate(expr)
 *           F p expr       filter, predicate p         M f expr map, function f
 *
 * For each view: forward iteration (bounded), backward iteration, len and get(i) for every i where the view
 * implements them.  The event also describes the view as a nested array for the specification.
 */
#include "hc.h"

static int tok;
static int nofail;
static int mapget;              /* positional get also over Table / Tree bases (open finding: it is a key lookup there) */
static int getwhile;            /* get(view, 0) is called inside the loop body of the forward iteration (open finding: one cursor) */
/* element types whose size is not a multiple of the pointer size (12 and 3 bytes), readable as integers: Arrays of them have
   slots wider than the type, which every stepping function has to respect - forwards and backwards */
struct Odd12v { int32_t v; int32_t pad[2]; };
struct Odd3v { int8_t v; char pad[2]; };
static int64_t Odd12v_C_Int(var self) { return ((struct Odd12v*)self)->v; }
static int64_t Odd3v_C_Int(var self) { return ((struct Odd3v*)self)->v; }
static int Odd12v_Show(var self, var out, int pos) { return print_to(out, pos, "%li", $I(((struct Odd12v*)self)->v)); }
static int Odd3v_Show(var self, var out, int pos) { return print_to(out, pos, "%li", $I(((struct Odd3v*)self)->v)); }
static var Odd12v = Cello(Odd12v, Instance(C_Int, Odd12v_C_Int), Instance(Show, Odd12v_Show, NULL));
static var Odd3v = Cello(Odd3v, Instance(C_Int, Odd3v_C_Int), Instance(Show, Odd3v_Show, NULL));
static int has_odd_base;        /* such an Array somewhere below: membership probes (Ints) are of another type */
static int has_map_base;        /* a Table / Tree somewhere below: get() takes keys there, not positions */
static var P0, P1, P2, P3, P4, P5, F0, F1, F2;           /* predicate / map Function objects */
static var pred_even(var x) { return c_int(x) % 2 == 0 ? x : NULL; }
static var pred_odd(var x) { return c_int(x) % 2 != 0 ? x : NULL; }
static var pred_gt3(var x) { return c_int(x) > 3 ? x : NULL; }
static var pred_none(var x) { return NULL; }
static var pred_all(var x) { return x; }
/* accepts odd numbers by returning a marker object that is NOT the element: a Filter asks "NULL or not", nothing more */
static struct Int* accept_marker;
static var pred_odd_marker(var x) { return c_int(x) % 2 != 0 ? (var)accept_marker : NULL; }
static struct Int* mapcell;
/* a fresh object per call: two Maps inside one Zip must not hand out the same pointer (a Tuple holding one object
   twice cannot be iterated: open finding F-C04-tuple-dup) */
static var map_add(var x) { return new(Int, $I(c_int(x) + 100)); }
static var map_dbl(var x) { return new(Int, $I(c_int(x) * 2)); }
static var map_neg(var x) { return new(Int, $I(-c_int(x))); }
static var map_null_odd(var x) { return c_int(x) % 2 ? NULL : (var)new(Int, $I(c_int(x) + 100)); }
static var mkfn(var (*f)(var)) { struct Function* fn = alloc_root(Function); fn->func = f; return fn; }

#define U_SENTINEL 1000000
#define SAT (1LL << 30)         /* positions saturate in the log: beyond any container here all magnitudes >= 2^30 select the same items */
static int64_t unit = 1;
static var argobj(int i, int64_t scale) { return hc_is(i, "u") ? _ : (var)new(Int, $I(hc_int(i) * scale)); }
static void arg_desc(int i) { int64_t v = hc_int(i); if (hc_is(i, "u")) ev_i(U_SENTINEL); else ev_i(v > SAT ? SAT : v < -SAT ? -SAT : v); }
static int64_t unscale(int64_t v) { return unit == 1 ? v : v % unit == 0 ? v / unit : -999999; }

/* observed forward iteration of a base container, as a JSON list (Table/Tree: their own order defines the base) */
static void desc_iter(var c) {
  ev_s("[");
  int first = 1; size_t n = 0, lim = len(c) + 2;
  foreach (x in c) { if (n++ >= lim) break; if (!first) ev_s(","); first = 0; ev_i(unscale(c_int(x))); }
  ev_s("]");
}

/* builds the view, appends its description to the current event; everything is collector-managed and reachable from the result */
static var build(void) {
  if (tok >= hc_nw) { fprintf(stderr, "short expr\n"); exit(9); }
  char k = hc_w[tok][0];
  /* lower-case base kinds: the same contents reached through a history (extra elements inserted at the front, in the middle
     and at the end, then removed again): iteration must not depend on how the container got its contents */
  int hist = (k == 'a' || k == 'l' || k == 'u' || k == 'b' || k == 'r');
  if (hist) k = (char)(k - 'a' + 'A');
  if ((k == 'O' || k == 'P') && unit != 1) k = 'A';          /* (small element types cannot hold scaled values) */
  if (k == 'O' || k == 'P') {
    int n = (int)hc_int(tok + 1);
    var c = k == 'O' ? (var)new(Array, Odd12v) : (var)new(Array, Odd3v);
    volatile var hold = c; (void)hold;
    for (int i = 0; i < n; i++) {
      int64_t v = hc_int(tok + 2 + i);
      if (k == 'O') push(c, $(Odd12v, (int32_t)v, {0x5a5a5a5a, 0x5a5a5a5a})); else push(c, $(Odd3v, (int8_t)v, {0x5a, 0x5a}));
    }
    has_odd_base = 1;
    ev_s("[\"seq\",["); for (int i = 0; i < n; i++) { if (i) ev_s(","); ev_i(hc_int(tok + 2 + i)); } ev_s("],\"A\"]");
    tok += 2 + n;
    return c;
  }
  if (k == 'A' || k == 'L' || k == 'U' || k == 'B' || k == 'R') {
    int n = (int)hc_int(tok + 1);
    var c = k == 'A' ? (var)new(Array, Int) : k == 'L' ? (var)new(List, Int) : k == 'U' ? (var)new(Tuple) :
            k == 'B' ? (var)new(Table, Int, Int) : (var)new(Tree, Int, Int);
    volatile var hold = c; (void)hold;
    for (int i = 0; i < n; i++) {
      int64_t v = hc_int(tok + 2 + i) * unit;
      if (k == 'U') push(c, new(Int, $I(v))); else if (k == 'B' || k == 'R') set(c, $I(v), $I(v * 10)); else push(c, $I(v));
    }
    if (hist && n >= 1) {
      if (k == 'B' || k == 'R') {
        for (int j = 0; j < 5; j++) set(c, $I(770000 + 37 * j), $I(1));
        for (int j = 0; j < 5; j++) rem(c, $I(770000 + 37 * j));
      } else {
        if (k != 'U' && !nofail) { try { push(c, $S("refused")); } catch (e) { } }        /* a push the element type refuses (caught): nothing is left behind */
        push_at(c, k == 'U' ? (var)new(Int, $I(7771)) : (var)$I(7771), $I(0));
        if (n >= 2) push_at(c, k == 'U' ? (var)new(Int, $I(7772)) : (var)$I(7772), $I(n / 2 + 1));      /* valid: the length is n + 1 here */
        push(c, k == 'U' ? (var)new(Int, $I(7773)) : (var)$I(7773));
        pop(c);
        if (n >= 2) pop_at(c, $I(n / 2 + 1));
        pop_at(c, $I(0));
      }
    }
    ev_s("[\"seq\",");
    if (k == 'B' || k == 'R') has_map_base = 1;
    if (k == 'B' || k == 'R') desc_iter(c);
    else { ev_s("["); for (int i = 0; i < n; i++) { if (i) ev_s(","); ev_i(hc_int(tok + 2 + i)); } ev_s("]"); }
    ev_s(",\""); ev_raw(&k, 1); ev_s("\"]");
    tok += 2 + n;
    return c;
  }
  if (k == 'G') {
    int n = (int)hc_int(tok + 1);
    var a[3] = { NULL, NULL, NULL };
    ev_s("[\"range\","); ev_i(n);
    for (int i = 0; i < n; i++) { a[i] = argobj(tok + 2 + i, unit); ev_s(","); arg_desc(tok + 2 + i); }
    for (int i = n; i < 3; i++) ev_s(",0");
    ev_s("]");
    tok += 2 + n;
    return n == 0 ? (var)new(Range) : n == 1 ? (var)new(Range, a[0]) : n == 2 ? (var)new(Range, a[0], a[1]) : (var)new(Range, a[0], a[1], a[2]);
  }
  if (k == 'S') {
    int n = (int)hc_int(tok + 1);
    tok += 2;
    ev_s("[\"slice\","); ev_i(n); ev_s(",");
    volatile var sub = build();
    var a[3] = { NULL, NULL, NULL };
    for (int i = 0; i < n; i++) { a[i] = argobj(tok + i, 1); ev_s(","); arg_desc(tok + i); }
    for (int i = n; i < 3; i++) ev_s(",0");
    ev_s("]");
    tok += n;
    return n == 0 ? (var)new(Slice, sub) : n == 1 ? (var)new(Slice, sub, a[0]) : n == 2 ? (var)new(Slice, sub, a[0], a[1]) : (var)new(Slice, sub, a[0], a[1], a[2]);
  }
  if (k == 'Z') {
    int n = (int)hc_int(tok + 1);
    tok += 2;
    volatile var subs[4] = { NULL, NULL, NULL, NULL };
    ev_s("[\"zip\",[");
    for (int i = 0; i < n && i < 4; i++) { if (i) ev_s(","); subs[i] = build(); }
    ev_s("]]");
    return n == 0 ? (var)new(Zip) : n == 1 ? (var)new(Zip, subs[0]) : n == 2 ? (var)new(Zip, subs[0], subs[1]) : (var)new(Zip, subs[0], subs[1], subs[2]);
  }
  if (k == 'E') {
    tok += 1;
    ev_s("[\"enum\",");
    volatile var sub = build();
    ev_s("]");
    var z = new(Zip, new(Range), sub);
    return enumerate_stack(z);
  }
  if (k == 'F' || k == 'M') {
    int p = (int)hc_int(tok + 1);
    tok += 2;
    ev_s(k == 'F' ? "[\"filter\"," : "[\"map\","); ev_i(p); ev_s(",");
    volatile var sub = build();
    ev_s("]");
    var fn = k == 'F' ? (p == 0 ? P0 : p == 1 ? P1 : p == 2 ? P2 : p == 3 ? P3 : p == 5 ? P5 : P4) : (p == 0 ? F0 : p == 1 ? F1 : F2);
    return k == 'F' ? (var)new(Filter, sub, fn) : (var)new(Map, sub, fn);
  }
  fprintf(stderr, "bad expr token %s\n", hc_w[tok]); exit(9);
}

/* an item as JSON: Int -> number, Tuple (zip item) -> list */
static void item(var x) {
  if (x == NULL) { ev_s("-777777"); return; }
  if (type_of(x) == Tuple) { ev_s("["); int first = 1; foreach (y in x) { if (!first) ev_s(","); first = 0; item(y); } ev_s("]"); }
  else ev_i(unscale(c_int(x)));
}

int main(int argc, char** argv) {
  if (argc < 2) { fprintf(stderr, "usage: h_view script [out]\n"); return 9; }
  FILE* f = fopen(argv[1], "r"); if (!f) { perror(argv[1]); return 9; }
  if (argc > 2) { ev_fd = open(argv[2], O_WRONLY | O_CREAT | O_TRUNC, 0644); if (ev_fd < 0) { perror(argv[2]); return 9; } }
  hc_install(0);
  P0 = mkfn(pred_even); P1 = mkfn(pred_odd); P2 = mkfn(pred_gt3); P3 = mkfn(pred_none); P4 = mkfn(pred_all); P5 = mkfn(pred_odd_marker); accept_marker = new_root(Int, $I(-424242));
  F0 = mkfn(map_add); F1 = mkfn(map_dbl); F2 = mkfn(map_neg);
  mapcell = new_root(Int, $I(0));
  while (hc_next(f)) {
    alarm(30);
    if (hc_is(0, "reset")) { cur_exec++; ev_begin("reset"); ev_end(); continue; }
    if (hc_is(0, "nofail")) { nofail = 1; continue; }
    if (hc_is(0, "mapget")) { mapget = 1; continue; }
    if (hc_is(0, "getwhile")) { getwhile = 1; continue; }        /* in-contract observations only (C18: unchecked builds) */
    if (hc_is(0, "zipnull")) {
      /* zipnull <n> : a Zip whose second input yields NULL items (a Map whose function answers NULL for odd values; a Tuple holding
         NULL): NULL is an item like any other - only Terminal ends an iteration, forwards and backwards */
      int n = (int)hc_int(1); volatile long fw = 0, bw = 0, revok = 1, nulls = 0; static int64_t firsts[64];
      HC_TRY(
        var base = new(Array, Int); for (int i = 0; i < n; i++) push(base, $I(i));
        var tup = new(Tuple); for (int i = 0; i < n; i++) push(tup, (i == 1) ? NULL : (var)new(Int, $I(i)));        /* (one NULL only: the same item twice in a Tuple is the open finding F-C04-tuple-dup) */
        var fnull = mkfn(map_null_odd);
        for (int which = 0; which < 2; which++) {
          var z = which == 0 ? (var)new(Zip, base, new(Map, base, fnull)) : (var)new(Zip, base, tup);
          long f1 = 0; long b1 = 0;
          foreach (t in z) { if (f1 < 60) firsts[f1] = c_int(get(t, $I(0))); if (get(t, $I(1)) == NULL) nulls++; f1++; if (f1 > 100) break; }
          for (var t = iter_last(z); t != Terminal && b1 < 100; t = iter_prev(z, t)) { if (b1 < f1 && f1 - 1 - b1 < 60 && firsts[f1 - 1 - b1] != c_int(get(t, $I(0)))) revok = 0; b1++; }
          if ((long)len(z) != n) revok = 0;
          fw += f1; bw += b1;
        });
      ev_begin("zipnull"); ev_int("n", n); ev_int("fwd", fw); ev_int("bwd", bw); ev_int("revok", revok); ev_int("nulls", nulls); ev_str("exc", hc_exc); ev_int("line", cur_line); ev_end();
      continue;
    }
    if (hc_is(0, "longview")) {
      /* longview <a> <b> <kind> : slices of a Range of N = a * 2^20 + b items (N beyond 2^31): the last items, addressed from the
         front, from the end, with a stop beyond the end, and the length of the reversed view; items are logged relative to N */
      int64_t N = hc_int(1) * (1LL << 20) + hc_int(2); const char* kind = hc_w[3];
      volatile long long ln = -1; static long long fw[64], bw[64]; volatile size_t nf = 0, nb = 0;
      HC_TRY(
        var r = new(Range, $I(N));
        var v = !strcmp(kind, "tail4") ? (var)new(Slice, r, $I(N - 4), _) : !strcmp(kind, "neg3") ? (var)new(Slice, r, $I(-3), _)
              : !strcmp(kind, "clamp") ? (var)new(Slice, r, $I(N - 2), $I(N + 9)) : !strcmp(kind, "step2") ? (var)new(Slice, r, $I(N - 5), _, $I(2))
              : (var)new(Slice, r, _, _, $I(-1));
        ln = (long long)len(v);
        if (strcmp(kind, "rev") != 0) {
          foreach (x in v) { if (nf >= 60) break; fw[nf] = c_int(x) - N; nf++; }
          for (var x = iter_last(v); x != Terminal && nb < 60; x = iter_prev(v, x)) { bw[nb] = c_int(x) - N; nb++; }
        } else { var x = iter_init(v); if (x != Terminal) { fw[0] = c_int(x) - N; nf = 1; } }
      );
      ev_begin("longview"); ev_str("kind", kind); ev_int("lenhi", ln >> 20); ev_int("lenlo", ln & ((1 << 20) - 1)); ev_int("a", hc_int(1)); ev_int("b", hc_int(2));
      ev_ints("fwd", fw, nf); ev_ints("bwd", bw, nb); ev_str("exc", hc_exc); ev_int("line", cur_line); ev_end();
      continue;
    }
    if (!hc_is(0, "view")) { fprintf(stderr, "unknown op %s\n", hc_w[0]); return 9; }
    ev_begin("view");
    ev_key("expr");
    tok = 1; has_map_base = 0; has_odd_base = 0; unit = 1;
    if (hc_w[1][0] == '@') { unit = strtoll(hc_w[1] + 1, NULL, 10); tok = 2; if (unit == 0) unit = 1; }
    volatile var v = NULL;
    const char* bexc = "";
    volatile size_t mark = ev_len;
    try { v = build(); } catch (e) { bexc = exc_name(e); }
    if (bexc[0] || !v) { ev_len = mark; ev_s("0"); ev_str("exc", bexc); ev_str("phase", "build"); ev_int("line", cur_line); ev_end(); continue; }
    /* forward */
    volatile size_t n = 0; size_t lim = 400;
    const char* exc = "";
    ev_key("fwd"); ev_s("[");
    try { var it = iter_init(v); while (it != Terminal && n < lim) { if (n) ev_s(","); item(it); n++; if (getwhile) get(v, $I(0)); it = iter_next(v, it); } }
    catch (e) { exc = exc_name(e); }
    ev_s("]"); ev_int("fwdn", (long long)n);
    volatile size_t fwdcount = n;
    n = 0;
    ev_key("bwd"); ev_s("[");
    try { var it = iter_last(v); while (it != Terminal && n < lim) { if (n) ev_s(","); item(it); n++; it = iter_prev(v, it); } }
    catch (e) { if (!exc[0]) exc = exc_name(e); }
    ev_s("]");
    volatile long long L = -1;
    if (implements_method(v, Len, len)) {
      try { L = (long long)len(v); }
      catch (e) { if (e != ClassError && !exc[0]) exc = exc_name(e); }     /* Map / Zip forward len: undefined over a Filter */
    }
    ev_int("len", L);
    ev_key("get"); ev_s("[");
    volatile int gotget = 0;
    if (L >= 0 && L <= 400 && implements_method(v, Get, get) && (!has_map_base || mapget)) {
      gotget = 1;
      try { for (long long i = 0; i < L; i++) { if (i) ev_s(","); item(get(v, $I(i))); } } catch (e) { if (!exc[0]) exc = exc_name(e); ev_s(",-888888"); }
    }
    ev_s("]"); ev_int("hasget", gotget);
    /* negative indices address from the end (where get takes an index) */
    ev_key("getn"); ev_s("[");
    if (gotget && type_of(v) != Zip && type_of(v) != Map) {
      try { for (long long i = 1; i <= L; i++) { if (i > 1) ev_s(","); item(get(v, $I(-i))); } } catch (e) { if (!exc[0]) exc = exc_name(e); ev_s(",-888888"); }
      ev_s("]"); ev_int("hasgetn", 1);
    } else { ev_s("]"); ev_int("hasgetn", 0); }
    /* positions outside the view: one past either end, further out, far out - each must be refused with the documented
       exception (never answered with an element from outside the view) */
    ev_key("oob"); ev_s("[");
    int zip0 = 0; for (int w = 1; w + 1 < hc_nw; w++) if (hc_is(w, "Z") && hc_is(w + 1, "0")) zip0 = 1;   /* a Zip of nothing has no inputs that could refuse a position */
    if (gotget && !zip0 && !nofail) {
      long long cand[6] = { L, L + 1, 1000000, -L - 1, -L - 2, -1000000 };
      int nc = (type_of(v) == Zip || type_of(v) == Map) ? 3 : 6;        /* negative positions only where the view defines them */
      for (int i = 0; i < nc; i++) {
        const char* x = "none";
        try { var r = get(v, $I(cand[i])); (void)r; } catch (e) { x = exc_name(e); }
        if (i) ev_s(","); ev_s("["); ev_i(cand[i]); ev_s(",\""); ev_s(x); ev_s("\"]");
      }
    }
    ev_s("]");
    /* membership: mem(view, x) for a few integers, where the view implements it and yields Ints (not tuples) */
    { static const int64_t probes[] = { 0, 1, 2, 3, 4, 5, 6, 7, 9, 10, 12, 16, 18, 101, 104, 106 };   /* non-negative: a Range reads a negative key as a position from its end */
      int istup = (type_of(v) == Zip); { var t = v; while (type_of(t) == Map || type_of(t) == Filter || type_of(t) == Slice) { t = type_of(t) == Slice ? ((struct Slice*)t)->iter : type_of(t) == Map ? ((struct Map*)t)->iter : ((struct Filter*)t)->iter; if (type_of(t) == Zip) istup = 1; } }
      ev_key("mems"); ev_s("[");
      if (!istup && !has_map_base && !has_odd_base && implements_method(v, Get, mem)) {
        for (size_t i = 0; i < sizeof probes / sizeof probes[0]; i++) {
          volatile int r = -1; try { r = mem(v, $I(probes[i] * unit)) ? 1 : 0; } catch (e) { r = -2; }
          if (i) ev_s(","); ev_s("["); ev_i(probes[i]); ev_s(","); ev_i(r); ev_s("]");
        }
      }
      ev_s("]"); }
    /* assign: a view of the same kind built from other arguments, then assigned from this one, iterates like this one */
    { var ty = type_of(v); volatile var w = NULL; volatile int has = 0; const char* ax = "";
      ev_key("asg"); ev_s("[");
      if (!nofail && (ty == Range || ty == Slice || ty == Zip)) {
        try {
          w = ty == Range ? (var)new(Range, $I(2)) : ty == Slice ? (var)new(Slice, new(Array, Int, $I(1), $I(2), $I(3)), $I(1)) : (hc_nw % 2) ? (var)new(Zip) : (var)new(Zip, new(Range, $I(3)), new(Range, $I(3)), new(Range, $I(3)), new(Range, $I(3)));     /* (a target with no inputs, or with more than any source has) */
          if (ty == Zip) { size_t q = 0; foreach (x0 in w) { if (q++ > 2) break; } }                 /* (the target has been in use: its value slots hold cursors) */
          assign(w, v); has = 1;
          size_t k = 0; var it = iter_init(w); while (it != Terminal && k < lim) { if (k) ev_s(","); item(it); k++; it = iter_next(w, it); }
        } catch (e) { ax = exc_name(e); }
      }
      ev_s("]"); ev_int("hasasg", has); ev_str("asgexc", ax);
      /* copy: a copy of a view (any of the five kinds) iterates like the view */
      ev_key("cpy"); ev_s("["); has = 0; ax = "";
      if (!nofail && (ty == Range || ty == Slice || ty == Zip || ty == Filter || ty == Map)) {
        try {
          w = copy(v); has = 1;
          size_t k = 0; var it = iter_init(w); while (it != Terminal && k < lim) { if (k) ev_s(","); item(it); k++; it = iter_next(w, it); }
        } catch (e) { ax = exc_name(e); has = 2; }
      }
      ev_s("]"); ev_int("hascpy", has); ev_str("cpyexc", ax);
      /* show: a Range / Slice of Ints lists its items between brackets, in iteration order */
      ev_key("shown"); ev_s("["); has = 0;
      if (!nofail && (ty == Range || ty == Slice) && fwdcount < lim) {          /* (a runaway forward walk is not shown: show would not return either) */
        var t = new(String, $S("")); int ok = 1;
        try { show_to(v, t, 0); } catch (e) { ok = 0; }
        char* b = ok ? strchr(c_str(t), '[') : NULL; char* e2 = b ? strrchr(b, ']') : NULL;
        if (b && e2) {
          int tuples = 0; for (char* q = b + 1; q < e2; q++) if (*q == '(' || *q == '<' || *q == '[') tuples = 1;
          if (!tuples) { has = 1; int k = 0; char* q = b + 1; while (q < e2) { char* r; long long x = strtoll(q, &r, 10); if (r == q) { has = 0; break; } if (k++) ev_s(","); ev_i(unscale(x)); q = r; while (q < e2 && (*q == ',' || *q == ' ')) q++; } }
        }
      }
      ev_s("]"); ev_int("hasshown", has); }
    ev_str("exc", exc); ev_str("phase", "iter"); ev_int("line", cur_line);
    ev_end();
    v = NULL;
  }
  ev_begin("end"); ev_end(); ev_flush();
  return 0;
}
