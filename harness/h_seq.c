/* h_seq.c - script interpreter for Array, List and Tuple (C04, C05, C12, C11 parts).
 *
 * usage: h_seq <script> [<out.ndjson>]
 *
 *   types <ElemType>                 Int | String | Probe
 *   K <tok> <spec>                   element value universe (tokens 1..n)
 *   reset
 *   new <o> Array|List|Tuple [v ...]
 *   push <o> <v> | append <o> <v> | pop <o> | pushat <o> <v> <i> | popat <o> <i>
 *   set <o> <i> <v> | get <o> <i> | rem <o> <v> | mem <o> <v>
 *   concat <o> <src> | resize <o> <n> | sort <o> | assign <o> <src> | copy <o> <src> | del <o>
 *   bad <o> <what>                   C12: invalid arguments (see below)
 *
 * After every operation: the projection of every live sequence through the public
 * API only (len, forward and backward iteration, get(i) and get(-i) for every i,
 * mem of every value token; instance serials for Probe elements) plus the ledger.
 */
#include <alloca.h>
#include "hc.h"

#define MAXO 8
static int etk = VT_INT;
struct Slot { var obj; int kind; /* 1 Array 2 List 3 Tuple */ int managed; };
static const char* kind_name(int k) { return k == 1 ? "Array" : k == 2 ? "List" : "Tuple"; }
static void __attribute__((noinline)) new_with_alien(var kt, var et, var g1, var alien, var g2) { var n = new(kt, et, g1, alien, g2); (void)n; }
static void __attribute__((noinline)) churn_ints(int k) { for (int i = 0; i < k; i++) { var g = new(Int, $I(i)); (void)g; } }
static var kind_type(int k) { return k == 1 ? Array : k == 2 ? List : Tuple; }

/* element objects handed to Tuples (a Tuple only stores pointers); freed at reset */
static var* tup_elems; static size_t tup_n, tup_cap;
static var tup_elem(int tok) {
  var o = vt_make(vt_k, tok);
  if (tup_n == tup_cap) { tup_cap = tup_cap ? tup_cap * 2 : 1024; tup_elems = realloc(tup_elems, tup_cap * sizeof(var)); }
  tup_elems[tup_n++] = o;
  return o;
}
#define MAXKEEP 4096
static var keep_tmp[MAXKEEP]; static int n_keep;
static var accept_all(var x) { return x; }
static void tup_free_all(void) { for (size_t i = 0; i < tup_n; i++) vt_free(tup_elems[i]); tup_n = 0; }

/* dispose of an element argument after the call */
static void arg_done(var e, int isT) {
  if (isT) return;                                 /* Tuples keep the pointer */
  if (etk == VT_BOX) { if (hc_exc[0]) del(e); return; }   /* handed over to the Box on success */
  vt_free(e);
}

static unsigned alarm_secs = 30;
static long long clamp32(long long i) { return i > (1LL << 30) ? (1LL << 30) : i < -(1LL << 30) ? -(1LL << 30) : i; }

static void project(struct Slot* so, int o) {
  var c = so->obj;
  static long long buf[1 << 16], ss[1 << 16];
  volatile size_t n = 0, nss = 0;
  size_t L = len(c);
  uint64_t addr_sig = 1469598103934665603ULL;     /* element addresses in order: references must survive a failed call */
  ev_obj_begin();
  ev_int("o", o); ev_str("kind", kind_name(so->kind)); ev_int("len", (long long)L);
  size_t lim = L + 4; if (lim > (1 << 16)) lim = 1 << 16;
  try {
    var it = iter_init(c);
    while (it != Terminal && n < lim) {
      addr_sig = (addr_sig ^ (uint64_t)(uintptr_t)it) * 0x100000001b3ULL;
      long long tk = vt_token(vt_k, vt_nk, it);
      if (IS_PROBE(etk) && so->kind != 3) { ss[nss] = ((struct Probe*)it)->serial; nss++; }
      if (etk == VT_BOX && so->kind != 3) { struct Probe* pp = ((struct Box*)it)->val; ss[nss] = pp ? pp->serial : -1; nss++; }
      buf[n] = tk; n++;
      it = iter_next(c, it);
    }
  } catch (e) { buf[n] = -9; n++; }       /* iteration handed out something that is not an object */
  ev_ints("it", buf, n);
  n = 0;
  if (L > 0 || so->kind != 3) {       /* iter_last of an empty Tuple is only exercised by the C11 check */
    try {
      var it = iter_last(c);
      while (it != Terminal && n < lim) { long long tk = vt_token(vt_k, vt_nk, it); buf[n] = tk; n++; it = iter_prev(c, it); }
    } catch (e) { buf[n] = -9; n++; }
  }
  ev_ints("bw", buf, n);
  n = 0;
  for (size_t i = 0; i < L && i < lim; i++) {
    volatile long long g = -1;
    try { g = vt_token(vt_k, vt_nk, get(c, $I((int64_t)i))); } catch (e) { g = -1; }
    buf[n++] = g;
  }
  ev_ints("gp", buf, n);
  n = 0;
  for (size_t i = 1; i <= L && i < lim; i++) {
    volatile long long g = -1;
    try { g = vt_token(vt_k, vt_nk, get(c, $I(-(int64_t)i))); } catch (e) { g = -1; }
    buf[n++] = g;
  }
  ev_ints("gn", buf, n);
  n = 0;
  for (int k = 1; k <= vt_nk && etk != VT_BOX; k++) {
    var key = vt_make(vt_k, k);
    volatile long long mm = -1;
    try { mm = mem(c, key) ? 1 : 0; } catch (e) { mm = -1; }
    buf[n++] = mm;
    vt_free(key);
  }
  ev_ints("mems", buf, n);
  ev_ints("ss", ss, nss);
  ev_limbs("ah", addr_sig);
  ev_obj_end();
}

static long long init_vals[HC_MAXW]; static size_t n_init;

/* token of the value a zero-filled element has (List resize appends such elements); 0 if none */
static int zero_tok(void) {
  if (etk != VT_INT) return 0;
  for (int k = 1; k <= vt_nk; k++) if (vt_k[k].kind == VT_INT && vt_k[k].i == 0) return k;
  return 0;
}

static void emit(struct Slot* objs, const char* op, int o, int v, long long i, long long n, int src,
                 const char* what, const char* exc, long long r) {
  ev_begin(op);
  ev_int("o", o); ev_int("v", v); ev_int("i", clamp32(i)); ev_int("n", clamp32(n)); ev_int("src", src);
  ev_str("what", what); ev_str("exc", exc); ev_str("msg", hc_msg); ev_int("r", r);
  ev_int("own", (IS_PROBE(etk) || etk == VT_BOX) ? 1 : 0);
  ev_int("zero", zero_tok());
  ev_ints("vals", init_vals, n_init); n_init = 0;
  ev_arr_begin("objs");
  for (int k = 1; k < MAXO; k++) if (objs[k].obj) project(&objs[k], k);
  ev_arr_end();
  ev_ledger();
  /* Probe instances referenced (not owned) by Tuples are live on purpose */
  ev_int("tupn", IS_PROBE(etk) ? (long long)tup_n : 0);
  ev_int("line", cur_line);
  ev_end();
}

static void drop(struct Slot* s) {
  if (!s->obj) return;
  if (s->managed) del(s->obj); else del_raw(s->obj);
  s->obj = NULL;
}


int main(int argc, char** argv) {
  struct Slot objs[MAXO]; memset(objs, 0, sizeof objs);
  if (argc < 2) { fprintf(stderr, "usage: h_seq script [out]\n"); return 9; }
  FILE* f = fopen(argv[1], "r"); if (!f) { perror(argv[1]); return 9; }
  if (argc > 2) { ev_fd = open(argv[2], O_WRONLY | O_CREAT | O_TRUNC, 0644); if (ev_fd < 0) { perror(argv[2]); return 9; } }
  hc_install(0);
  while (hc_next(f)) {
    alarm(alarm_secs);
    const char* op = hc_w[0];
    if (hc_is(0, "alarm")) { alarm_secs = (unsigned)hc_int(1); continue; }
    if (hc_is(0, "types")) { etk = vt_kind_of(hc_w[1]); continue; }
    if (hc_is(0, "K")) { vt_define(vt_k, &vt_nk, etk, (int)hc_int(1), hc_w[2]); continue; }
    if (hc_is(0, "reset")) {
      for (int i = 1; i < MAXO; i++) drop(&objs[i]);
      tup_free_all();
      for (int i = 0; i < n_keep; i++) del_raw(keep_tmp[i]);
      n_keep = 0;
      if (cur_exec > 0) { ev_begin("end"); ev_ledger(); ev_int("line", cur_line); ev_end(); led_abandon(); }   /* closes the previous execution */
      cur_exec++;
      ev_begin("reset"); ev_ledger(); ev_int("line", cur_line); ev_end();
      continue;
    }
    int o = (int)hc_int(1);
    if (o <= 0 || o >= MAXO) { fprintf(stderr, "bad object id at line %ld\n", (long)cur_line); return 9; }
    struct Slot* so = &objs[o];
    if (hc_is(0, "new")) {
      int kind = hc_is(2, "Array") ? 1 : hc_is(2, "List") ? 2 : 3;
      int nv = hc_nw - 3;
      var* args = alloca((size_t)(nv + 3) * sizeof(var)); memset(args, 0, (size_t)(nv + 3) * sizeof(var));   /* on the stack: visible to the collector */
      int a = 0;
      if (kind != 3) args[a++] = vt_type(etk);
      for (int i = 0; i < nv; i++) args[a++] = kind == 3 ? tup_elem((int)hc_int(3 + i)) : vt_make(vt_k, (int)hc_int(3 + i));
      args[a] = Terminal;
      struct Tuple tup = { args };
      var targs = header_init(malloc(sizeof(struct Header) + sizeof(struct Tuple)), Tuple, AllocStack);
      memcpy(targs, &tup, sizeof tup);
      volatile var made = NULL;
      if (etk == VT_BOX) HC_TRY(made = new_with(kind_type(kind), targs));
      else HC_TRY(made = new_raw_with(kind_type(kind), targs));
      so->obj = made; so->kind = kind; so->managed = (etk == VT_BOX);
      if (kind != 3 && etk != VT_BOX) for (int i = 0; i < nv; i++) vt_free(args[1 + i]);
      free((char*)targs - sizeof(struct Header));
      ev_begin("new"); ev_int("o", o); ev_str("what", kind_name(kind)); ev_str("exc", hc_exc); ev_str("msg", hc_msg);
      for (int i = 0; i < nv; i++) init_vals[i] = hc_int(3 + i);
      ev_ints("init", init_vals, (size_t)nv);
      ev_int("own", (IS_PROBE(etk) || etk == VT_BOX) ? 1 : 0);
      ev_arr_begin("objs");
      for (int k = 1; k < MAXO; k++) if (objs[k].obj) project(&objs[k], k);
      ev_arr_end();
      ev_ledger(); ev_int("tupn", IS_PROBE(etk) ? (long long)tup_n : 0); ev_int("line", cur_line); ev_end();
      continue;
    }
    if (!so->obj && !hc_is(0, "copy")) { ev_begin("missing"); ev_int("o", o); ev_int("line", cur_line); ev_end(); continue; }   /* an earlier call failed to produce it */
    var c = so->obj;
    int isT = so->kind == 3;
    if (hc_is(0, "push") || hc_is(0, "append")) {
      int v = (int)hc_int(2);
      var e = isT ? tup_elem(v) : vt_make(vt_k, v);
      if (hc_is(0, "push")) HC_TRY(push(c, e)); else HC_TRY(append(c, e));
      arg_done(e, isT);
      emit(objs, op, o, v, 0, 0, 0, "", hc_exc, 0);
    } else if (hc_is(0, "pushsame")) {
      /* the object already at index 0 once more (Tuple: the same pointer twice) */
      HC_TRY(push(c, get(c, $I(0))));
      emit(objs, "pushsame", o, 0, 0, 0, 0, "", hc_exc, 0);
    } else if (hc_is(0, "pop")) {
      HC_TRY(pop(c));
      emit(objs, "pop", o, 0, 0, 0, 0, "", hc_exc, 0);
    } else if (hc_is(0, "pushat")) {
      int v = (int)hc_int(2); long long i = hc_int(3);
      var e = isT ? tup_elem(v) : vt_make(vt_k, v);
      HC_TRY(push_at(c, e, $I(i)));
      arg_done(e, isT);
      emit(objs, "pushat", o, v, i, 0, 0, "", hc_exc, 0);
    } else if (hc_is(0, "popat")) {
      long long i = hc_int(2);
      HC_TRY(pop_at(c, $I(i)));
      emit(objs, "popat", o, 0, i, 0, 0, "", hc_exc, 0);
    } else if (hc_is(0, "set")) {
      long long i = hc_int(2); int v = (int)hc_int(3);
      var e = isT ? tup_elem(v) : vt_make(vt_k, v);
      HC_TRY(set(c, $I(i), e));
      if (!isT) vt_free(e);
      emit(objs, "set", o, v, i, 0, 0, "", hc_exc, 0);
    } else if (hc_is(0, "get")) {
      long long i = hc_int(2);
      volatile long long r = 0;
      HC_TRY(r = vt_token(vt_k, vt_nk, get(c, $I(i))));
      emit(objs, "get", o, 0, i, 0, 0, "", hc_exc, r);
    } else if (hc_is(0, "rem")) {
      int v = (int)hc_int(2);
      var e = vt_make(vt_k, v);
      HC_TRY(rem(c, e));
      vt_free(e);
      emit(objs, "rem", o, v, 0, 0, 0, "", hc_exc, 0);
    } else if (hc_is(0, "mem")) {
      int v = (int)hc_int(2);
      var e = vt_make(vt_k, v);
      volatile long long r = 0;
      HC_TRY(r = mem(c, e) ? 1 : 0);
      vt_free(e);
      emit(objs, "mem", o, v, 0, 0, 0, "", hc_exc, r);
    } else if (hc_is(0, "concat")) {
      int src = (int)hc_int(2);
      HC_TRY(concat(c, objs[src].obj));
      emit(objs, "concat", o, 0, 0, 0, src, "", hc_exc, 0);
    } else if (hc_is(0, "concatv")) {
      /* concat with a temporary sequence of the same kind built from fresh element objects */
      int nv = hc_nw - 2;
      var* args = alloca((size_t)(nv + 3) * sizeof(var)); memset(args, 0, (size_t)(nv + 3) * sizeof(var));   /* on the stack: visible to the collector */
      int a = 0;
      if (!isT) args[a++] = vt_type(etk);
      for (int i = 0; i < nv; i++) { init_vals[i] = hc_int(2 + i); args[a++] = isT ? tup_elem((int)hc_int(2 + i)) : vt_make(vt_k, (int)hc_int(2 + i)); }
      args[a] = Terminal;
      struct Tuple tup = { args };
      var targs = header_init(malloc(sizeof(struct Header) + sizeof(struct Tuple)), Tuple, AllocStack);
      memcpy(targs, &tup, sizeof tup);
      var tmp = new_raw_with(kind_type(so->kind), targs);
      if (!isT) for (int i = 0; i < nv; i++) vt_free(args[1 + i]);
      free((char*)targs - sizeof(struct Header));
      HC_TRY(concat(c, tmp));
      del_raw(tmp);
      n_init = (size_t)nv;
      emit(objs, "concatv", o, 0, 0, 0, 0, "", hc_exc, 0);
    } else if (hc_is(0, "concatown")) {
      /* concatown <o> : concat with a (stack) Tuple of the sequence's OWN first and last elements; growing the storage must not
         pull them away under the call */
      hc_exc = "";
      if (!isT && (long long)len(c) > 0) {
        var first = get(c, $I(0)), last = get(c, $I(-1));
        init_vals[0] = vt_token(vt_k, vt_nk, first); init_vals[1] = vt_token(vt_k, vt_nk, last);
        if (first == last) { HC_TRY(concat(c, tuple(first))); n_init = 1; }      /* (one object twice in a Tuple: open finding F-C04-tuple-dup) */
        else { HC_TRY(concat(c, tuple(first, last))); n_init = 2; }
        emit(objs, "concatv", o, 0, 0, 0, 0, "", hc_exc, 0);
      }
    } else if (hc_is(0, "pushself")) {
      /* pushself <o> <i> [<at>] : the new element is one of the sequence's own (get(c, i)); growing or shifting the storage
         must not pull it away under the call */
      long long i = hc_int(2); hc_exc = "";
      if ((long long)len(c) > 0) {
        i = ((i % (long long)len(c)) + (long long)len(c)) % (long long)len(c);
        var own = get(c, $I(i)); int v = vt_token(vt_k, vt_nk, own);
        if (hc_nw > 3) { long long at = hc_int(3); HC_TRY(push_at(c, own, $I(at))); emit(objs, "pushat", o, v, at, 0, 0, "", hc_exc, 0); }
        else { HC_TRY(push(c, own)); emit(objs, "push", o, v, 0, 0, 0, "", hc_exc, 0); }
      } else { var e = isT ? tup_elem(1) : vt_make(vt_k, 1); HC_TRY(push(c, e)); arg_done(e, isT); emit(objs, "push", o, 1, 0, 0, 0, "", hc_exc, 0); }
    } else if (hc_is(0, "xassign")) {
      /* xassign <o> <tok>... : a TEMPORARY Array and List of this element type (the given elements) are each overwritten by
         assign from sequences of a DIFFERENT element type and size (Int, then a 12-byte record), then deleted: every element
         they held must have been finalised exactly once (the ledger of the event shows it), nothing else may change */
      int nv = hc_nw - 2;
      hc_exc = "";
      for (int kk = 1; kk <= 2 && !hc_exc[0]; kk++) {
        var tmp = new_raw_with(kind_type(kk), tuple(vt_type(etk)));
        for (int i = 0; i < nv; i++) { var e = vt_make(vt_k, (int)hc_int(2 + i)); hc_exc = ""; push(tmp, e); arg_done(e, 0); }
        var srcI = new_raw(Array, Int, $I(5), $I(6), $I(7)); var o1 = new_raw(Odd12, $I(3)), o2 = new_raw(Odd12, $I(4)); var srcO = new_raw(List, Odd12, o1, o2); del_raw(o1); del_raw(o2);
        HC_TRY(assign(tmp, srcI); assign(tmp, srcO); assign(tmp, srcI));
        del_raw(tmp); del_raw(srcI); del_raw(srcO);
      }
      emit(objs, "xassign", o, 0, 0, nv, 0, "", hc_exc, 0);
    } else if (hc_is(0, "fromit")) {
      /* fromit <o> assign|concat tree|table|slice|filter <tok>... : the operand is another kind of iterable over the same
         element type; what it yields (its own forward iteration, logged as vals) is what must arrive, in that order */
      int isassign = hc_is(2, "assign"); const char* sk = hc_w[3]; int nv = hc_nw - 4;
      var et = vt_type(etk); var src = NULL; var base = NULL;
      if (!strcmp(sk, "tree") || !strcmp(sk, "table")) {
        src = !strcmp(sk, "tree") ? (var)new_raw(Tree, et, Int) : (var)new_raw(Table, et, Int);
        for (int i = 0; i < nv; i++) { var k = vt_make(vt_k, (int)hc_int(4 + i)); set(src, k, $I(0)); vt_free(k); }
      } else {
        base = new_raw(Array, et);
        for (int i = 0; i < nv; i++) { var k = vt_make(vt_k, (int)hc_int(4 + i)); push(base, k); vt_free(k); }
      }
      var fn_all = $(Function, accept_all);
      var view = base ? (!strcmp(sk, "slice") ? (var)slice(base) : (var)filter(base, fn_all)) : src;
      var dupitems[40]; var dupobj[16] = {0}; struct Tuple duptup = { dupitems };
      var duphdr = NULL;
      if (!strcmp(sk, "duptuple")) {
        /* a Tuple that holds the same OBJECT at every position of the same token (positions are what counts: get(t, i)) */
        if (nv > 38) nv = 38;
        for (int i = 0; i < nv; i++) { int t = (int)hc_int(4 + i) & 15; if (!dupobj[t]) dupobj[t] = vt_make(vt_k, t); dupitems[i] = dupobj[t]; }
        dupitems[nv] = Terminal;
        duphdr = malloc(sizeof(struct Header) + sizeof(struct Tuple));
        view = header_init(duphdr, Tuple, AllocStack); memcpy(view, &duptup, sizeof duptup);
        n_init = 0; for (int i = 0; i < nv; i++) init_vals[n_init++] = vt_token(vt_k, vt_nk, dupitems[i]);
      } else {
      n_init = 0; { size_t lim = (size_t)nv + 2; foreach (x in view) { if (n_init >= lim) break; init_vals[n_init++] = vt_token(vt_k, vt_nk, x); } }
      }
      if (isassign) HC_TRY(assign(c, view)); else HC_TRY(concat(c, view));
      if (duphdr) {
        /* (a List assigned from a Tuple becomes a List of Ref to the Tuple's items: checked here, position by position, from
           both ends and by iteration; then the List gets its element type back from an empty Array and is logged as empty) */
        if (!hc_exc[0]) {
          long mism = 0; size_t k = 0;
          if (len(c) != (size_t)nv) mism++;
          for (int i = 0; i < nv && !mism; i++) { if (deref(get(c, $I(i))) != dupitems[i]) mism++; if (deref(get(c, $I(i - nv))) != dupitems[i]) mism++; }
          foreach (x in c) { if (k >= (size_t)nv || deref(x) != dupitems[k]) { mism++; break; } k++; }
          if (k != (size_t)nv) mism++;
          var ea = new_raw(Array, et); assign(c, ea); del_raw(ea);
          if (mism) hc_exc = "dup-mismatch";
        }
        n_init = 0;
        for (int t = 0; t < 16; t++) if (dupobj[t]) vt_free(dupobj[t]);
        free(duphdr);
      }
      /* a Tuple keeps pointers into the operand: it stays alive until the next reset */
      if (n_keep + 2 < MAXKEEP) { if (src) keep_tmp[n_keep++] = src; if (base) keep_tmp[n_keep++] = base; }
      emit(objs, isassign ? "assignit" : "concatit", o, 0, 0, 0, 0, sk, hc_exc, 0);
    } else if (hc_is(0, "resize")) {
      long long n = hc_int(2);
      HC_TRY(resize(c, (size_t)n));
      emit(objs, "resize", o, 0, 0, n, 0, "", hc_exc, 0);
    } else if (hc_is(0, "sort")) {
      HC_TRY(sort(c));
      emit(objs, "sort", o, 0, 0, 0, 0, "", hc_exc, 0);
    } else if (hc_is(0, "sortby")) {           /* sortby <o> gt|lt : sort_by with a caller-chosen comparison */
      int desc = hc_is(2, "gt") || hc_is(2, "ge");       /* le / ge: comparisons that hold for equal arguments too */
      HC_TRY(sort_by(c, hc_is(2, "gt") ? gt : hc_is(2, "ge") ? ge : hc_is(2, "le") ? le : lt));
      emit(objs, desc ? "sortbygt" : "sort", o, 0, 0, 0, 0, "", hc_exc, 0);
    } else if (hc_is(0, "assign")) {
      int src = (int)hc_int(2);
      HC_TRY(assign(c, objs[src].obj));
      emit(objs, "assign", o, 0, 0, 0, src, "", hc_exc, 0);
    } else if (hc_is(0, "copy")) {
      int src = (int)hc_int(2);
      drop(so);
      volatile var made = NULL;
      HC_TRY(made = copy(objs[src].obj));
      so->obj = made; so->kind = objs[src].kind; so->managed = 1;
      emit(objs, "copy", o, 0, 0, 0, src, "", hc_exc, 0);
    } else if (hc_is(0, "del")) {
      drop(so);
      emit(objs, "del", o, 0, 0, 0, 0, "", "", 0);
    } else if (hc_is(0, "bad")) {
      /* C12: every kind of invalid argument; the spec says which exception and that nothing changes */
      const char* what = hc_w[2];
      long long L = (long long)len(c);
      var e1 = isT ? tup_elem(1) : vt_make(vt_k, 1);
      var alien = new_raw(Table, Int, Int);      /* neither an element nor an index */
      long long idx = 0;
      if      (!strcmp(what, "get_len"))    { idx = L;        HC_TRY(get(c, $I(idx))); }
      else if (!strcmp(what, "get_neg"))    { idx = -L - 1;   HC_TRY(get(c, $I(idx))); }
      else if (!strcmp(what, "get_far"))    { idx = L + 1000; HC_TRY(get(c, $I(idx))); }
      else if (!strcmp(what, "get_max"))    { idx = INT64_MAX; HC_TRY(get(c, $I(idx))); }
      else if (!strcmp(what, "get_min"))    { idx = INT64_MIN; HC_TRY(get(c, $I(idx))); }
      else if (!strcmp(what, "set_len"))    { idx = L;        HC_TRY(set(c, $I(idx), e1)); }
      else if (!strcmp(what, "set_neg"))    { idx = -L - 1;   HC_TRY(set(c, $I(idx), e1)); }
      else if (!strcmp(what, "set_max"))    { idx = INT64_MAX; HC_TRY(set(c, $I(idx), e1)); }
      else if (!strcmp(what, "popat_len"))  { idx = L;        HC_TRY(pop_at(c, $I(idx))); }
      else if (!strcmp(what, "popat_neg"))  { idx = -L - 1;   HC_TRY(pop_at(c, $I(idx))); }
      else if (!strcmp(what, "popat_min"))  { idx = INT64_MIN; HC_TRY(pop_at(c, $I(idx))); }
      else if (!strcmp(what, "pushat_far")) { idx = L + 2;    HC_TRY(push_at(c, e1, $I(idx))); }
      else if (!strcmp(what, "pushat_neg")) { idx = -L - 2;   HC_TRY(push_at(c, e1, $I(idx))); }
      else if (!strcmp(what, "pushat_max")) { idx = INT64_MAX; HC_TRY(push_at(c, e1, $I(idx))); }
      else if (!strcmp(what, "pop_empty"))  { HC_TRY(pop(c)); }
      else if (!strcmp(what, "get_nullkey")) { HC_TRY(get(c, NULL)); }
      else if (!strcmp(what, "get_alienkey")) { HC_TRY(get(c, alien)); }
      else if (!strcmp(what, "set_alienkey")) { HC_TRY(set(c, alien, e1)); }
      else if (!strcmp(what, "popat_alienkey")) { HC_TRY(pop_at(c, alien)); }
      else if (!strcmp(what, "set_null"))   { HC_TRY(set(c, $I(0), NULL)); }
      else if (!strcmp(what, "set_alien"))  { HC_TRY(set(c, $I(0), alien)); }
      else if (!strcmp(what, "push_null"))  { HC_TRY(push(c, NULL)); }
      else if (!strcmp(what, "push_alien")) { HC_TRY(push(c, alien)); }
      else if (!strcmp(what, "pushat_null")) { HC_TRY(push_at(c, NULL, $I(0))); }
      else if (!strcmp(what, "pushat_alien")) { HC_TRY(push_at(c, alien, $I(0))); }
      else if (!strcmp(what, "concat_alien")) { var tl = new_raw(List, Table); resize(tl, 0); var a2 = new_raw(Table, Int, Int); push(tl, a2); HC_TRY(concat(c, tl)); del_raw(tl); del_raw(a2); }
      else if (!strcmp(what, "rem_null"))   { HC_TRY(rem(c, NULL)); }
      else if (!strcmp(what, "mem_null"))   { HC_TRY(mem(c, NULL)); }
      else if (!strcmp(what, "concat_null")) { HC_TRY(concat(c, NULL)); }
      else if (!strcmp(what, "concat_int")) { HC_TRY(concat(c, $I(3))); }
      else if (!strcmp(what, "assign_int")) { HC_TRY(assign(c, $I(3))); }
      else if (!strncmp(what, "refuse_", 7)) {         /* an element of the right type that the element type's Assign refuses */
        var bad = new_raw(Probe, $I(PROBE_REFUSED));
        if (!strcmp(what, "refuse_push")) HC_TRY(push(c, bad));
        else if (!strcmp(what, "refuse_pushat")) { idx = L / 2; HC_TRY(push_at(c, bad, $I(idx))); }
        else if (!strcmp(what, "refuse_set")) { idx = L / 2; HC_TRY(set(c, $I(idx), bad)); }
        else { fprintf(stderr, "unknown bad op %s\n", what); return 9; }
        del_raw(bad);
      }
      else if (!strcmp(what, "assign_strtable")) {      /* a source with len and get whose get refuses positions (a Table keyed on Strings) */
        var tb = new_raw(Table, String, Int); set(tb, $S("a"), $I(1)); set(tb, $S("b"), $I(2));
        HC_TRY(assign(c, tb)); del_raw(tb); }
      else if (!strcmp(what, "resize_huge")) { idx = 0; HC_TRY(resize(c, (size_t)1 << 60)); }                  /* more than can be had */
      else if (!strcmp(what, "resize_wrap")) { idx = 0; HC_TRY(resize(c, ((size_t)1 << 59) + 1)); }            /* the byte count wraps for 16- and 32-byte slots */
      else if (!strcmp(what, "resize_grow")) { idx = L + 3; HC_TRY(resize(c, (size_t)idx)); }   /* Tuple only */
      else if (!strcmp(what, "new_alien")) {
        /* a constructor that is handed an element it cannot take (between two good ones): it raises; what it leaves behind
           is managed by the collector, which must survive meeting it - the garbage loop forces collections */
        var g1 = vt_make(vt_k, 1), g2 = vt_make(vt_k, 1);
        HC_TRY(new_with_alien(kind_type(so->kind), vt_type(etk), g1, alien, g2));
        vt_free(g1); vt_free(g2);
        static char saved[64]; snprintf(saved, sizeof saved, "%s", hc_exc);
        HC_TRY(churn_ints(3000));
        if (hc_exc[0]) { static char later[96]; snprintf(later, sizeof later, "later:%s", hc_exc); hc_exc = later; } else hc_exc = saved;
      }
      else if (!strncmp(what, "zt_", 3)) {
        /* a Tuple that was allocated but never constructed (zeroed memory: what resize of a List of Tuples, or alloc, hands out):
           it is an empty Tuple - every position is out of bounds, and saying so does not touch it */
        var z = alloc_raw(Tuple); const char* w2 = what + 3;
        if      (!strcmp(w2, "get"))    HC_TRY(get(z, $I(0)));
        else if (!strcmp(w2, "getneg")) HC_TRY(get(z, $I(-1)));
        else if (!strcmp(w2, "set"))    HC_TRY(set(z, $I(0), e1));
        else if (!strcmp(w2, "pop"))    HC_TRY(pop(z));
        else if (!strcmp(w2, "popat"))  HC_TRY(pop_at(z, $I(0)));
        else if (!strcmp(w2, "pushat")) HC_TRY(push_at(z, e1, $I(1)));
        else { fprintf(stderr, "unknown bad op %s\n", what); return 9; }
        if (!hc_exc[0] || len(z) != 0) hc_exc = "none-or-changed";
        dealloc_raw(z);
      }
      else if (!strncmp(what, "alien_", 6)) {
        /* an operation of a class the object's type does not implement (the object: a Table): ClassError, for every dispatcher */
        const char* w2 = what + 6;
        if      (!strcmp(w2, "c_str"))   HC_TRY(c_str(alien));
        else if (!strcmp(w2, "c_int"))   HC_TRY(c_int(alien));
        else if (!strcmp(w2, "c_float")) HC_TRY(c_float(alien));
        else if (!strcmp(w2, "call"))    HC_TRY(call(alien));
        else if (!strcmp(w2, "start"))   HC_TRY(start(alien));
        else if (!strcmp(w2, "stop"))    HC_TRY(stop(alien));
        else if (!strcmp(w2, "lock"))    HC_TRY(lock(alien));
        else if (!strcmp(w2, "sclose"))  HC_TRY(sclose(alien));
        else if (!strcmp(w2, "deref"))   HC_TRY(deref(alien));
        else if (!strcmp(w2, "current")) HC_TRY(current(Table));
        else if (!strcmp(w2, "currentelem")) HC_TRY(current(vt_type(etk)));
        else if (!strcmp(w2, "sort"))    HC_TRY(sort(alien));
        else if (!strcmp(w2, "push"))    HC_TRY(push(alien, e1));
        else if (!strcmp(w2, "pop"))     HC_TRY(pop(alien));
        else if (!strcmp(w2, "concat"))  HC_TRY(concat(alien, c));
        else if (!strcmp(w2, "join"))    HC_TRY(join(alien));
        else { fprintf(stderr, "unknown bad op %s\n", what); return 9; }
      }
      else if ((!strcmp(what, "sort_mixed") || !strcmp(what, "sort_perm")) && isT && L >= 3) {
        /* a sort whose comparison raises part-way (an element of another type in the last place): the exception is the documented
           one; what the Tuple holds afterwards is classified - untouched / the same items in another order / not the same items.
           sort_mixed (C12) asks for untouched, sort_perm (C04: "sort leaves a permutation of the previous contents") for the same items */
        struct Tuple* tp = c; var saved[64]; var odd = etk == VT_STR ? $I(7) : $S("x");
        if (L > 64) { fprintf(stderr, "sort_mixed: Tuple too long\n"); return 9; }
        for (long long k = 0; k < L; k++) saved[k] = tp->items[k];
        tp->items[L - 1] = odd;
        HC_TRY(sort(c));
        int same = 1, perm = 1; char used[64] = {0};
        for (long long k = 0; k < L; k++) {
          var want = k == L - 1 ? odd : saved[k];
          if (tp->items[k] != want) same = 0;
          int hit = 0;
          for (long long j = 0; j < L && !hit; j++) if (!used[j] && tp->items[j] == want) { used[j] = 1; hit = 1; }
          if (!hit) perm = 0;
        }
        if (tp->items[L] != Terminal) perm = 0;
        for (long long k = 0; k < L; k++) tp->items[k] = saved[k];
        static char cls[96];
        if (!perm || (!same && !strcmp(what, "sort_mixed"))) { snprintf(cls, sizeof cls, "%s:%s", perm ? "reordered" : "items-changed", hc_exc); hc_exc = cls; }
      }
      else if (!strncmp(what, "stack_", 6) && isT) {
        /* the Tuple as a STACK object (what tuple(...) and $(Tuple, ...) make: the header says so): every operation that would
           have to reallocate its items is refused with ValueError - and has not touched the items when it says so */
#if CELLO_ALLOC_CHECK == 1
        var was = header(c)->alloc; header(c)->alloc = (var)AllocStack;
        const char* w2 = what + 6;
        if      (!strcmp(w2, "push"))   HC_TRY(push(c, e1));
        else if (!strcmp(w2, "pushat")) HC_TRY(push_at(c, e1, $I(0)));
        else if (!strcmp(w2, "pop"))    HC_TRY(pop(c));
        else if (!strcmp(w2, "popat"))  HC_TRY(pop_at(c, $I(0)));
        else if (!strcmp(w2, "popatn")) HC_TRY(pop_at(c, $I(-1)));
        else if (!strcmp(w2, "rem"))    HC_TRY(rem(c, get(c, $I(L / 2))));
        else if (!strcmp(w2, "resize")) HC_TRY(resize(c, (size_t)(L - 1)));
        else if (!strcmp(w2, "concat")) HC_TRY(concat(c, tuple(e1)));
        else if (!strcmp(w2, "assign")) HC_TRY(assign(c, tuple(e1)));
        else if (!strcmp(w2, "assignit")) { var fb = new_raw(Array, vt_type(etk), e1, e1); var fn_all = $(Function, accept_all); var fv = filter(fb, fn_all); HC_TRY(assign(c, fv)); del_raw(fb); }   /* a source that can only be walked */
        else { fprintf(stderr, "unknown bad op %s\n", what); return 9; }
        header(c)->alloc = was;
#else
        hc_exc = "ValueError";          /* (a build without allocation classes cannot tell: an error path, not part of its contract) */
#endif
      }
      else { fprintf(stderr, "unknown bad op %s\n", what); return 9; }
      if (!isT) vt_free(e1);
      del_raw(alien);
      emit(objs, "bad", o, 0, idx, 0, 0, what, hc_exc, 0);
    } else {
      fprintf(stderr, "unknown op %s at line %ld\n", op, (long)cur_line); return 9;
    }
  }
  alarm(45);
  for (int i = 1; i < MAXO; i++) drop(&objs[i]);
  tup_free_all();
  ev_begin("end"); ev_ledger(); ev_int("line", cur_line); ev_end();
  ev_flush();
  return 0;
}
