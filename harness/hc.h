/* hc.h - shared pieces of the conformance harnesses.
 *
 *  - a tiny script reader (one operation per line, blank separated words)
 *  - an ndjson event writer that survives crashes of the code under test
 *    (own buffer + write(2); fatal-signal / alarm handlers append a last
 *    event {"op":"crash"|"hang", ...} so that the trace tells where it died)
 *  - a value table: tokens (small naturals) <-> concrete Int / String / Float values
 *  - the Probe element type with an ownership ledger (C05, C06, C01, ...)
 *
 * Never use Cello's macro names (in, is, not, and, or, new, ...) as identifiers.
 */
#ifndef HC_H
#define HC_H

#include <stdio.h>
#include <stdlib.h>
#include <string.h>
#include <stdint.h>
#include <unistd.h>
#include <signal.h>
#include <fcntl.h>
#include <errno.h>
#include "Cello.h"

/* ------------------------------------------------------------------ output */

static int    ev_fd = 1;
static char   ev_buf[1 << 20];
static size_t ev_len = 0;
static long   ev_count = 0;
static volatile long cur_line = 0;      /* script line being executed */
static volatile long cur_exec = 0;      /* execution (reset) counter */
static int    ev_first = 1;

static void ev_flush(void) {
  size_t off = 0;
  while (off < ev_len) {
    ssize_t w = write(ev_fd, ev_buf + off, ev_len - off);
    if (w <= 0) { if (errno == EINTR) continue; break; }
    off += (size_t)w;
  }
  ev_len = 0;
}

static void ev_raw(const char* s, size_t n) {
  if (ev_len + n > sizeof(ev_buf)) ev_flush();
  if (n > sizeof(ev_buf)) { (void)!write(ev_fd, s, n); return; }
  memcpy(ev_buf + ev_len, s, n); ev_len += n;
}
static void ev_s(const char* s) { ev_raw(s, strlen(s)); }
static void ev_i(long long v) { char b[32]; int n = snprintf(b, sizeof b, "%lld", v); ev_raw(b, (size_t)n); }

static void ev_key(const char* k) {
  if (!ev_first) ev_s(",");
  ev_first = 0;
  ev_s("\""); ev_s(k); ev_s("\":");
}
static void ev_begin(const char* op) { ev_s("{"); ev_first = 1; ev_key("op"); ev_s("\""); ev_s(op); ev_s("\""); }
static void ev_int(const char* k, long long v) { ev_key(k); ev_i(v); }
static void ev_str(const char* k, const char* v) {
  ev_key(k); ev_s("\"");
  for (const char* p = v; *p; p++) {
    unsigned char c = (unsigned char)*p;
    if (c == '"' || c == '\\') { char b[3] = {'\\', (char)c, 0}; ev_s(b); }
    else if (c < 0x20 || c >= 0x7f) { char b[8]; snprintf(b, sizeof b, "\\u%04x", c); ev_s(b); }
    else ev_raw((const char*)&c, 1);
  }
  ev_s("\"");
}
static void ev_ints(const char* k, const long long* a, size_t n) {
  ev_key(k); ev_s("[");
  for (size_t i = 0; i < n; i++) { if (i) ev_s(","); ev_i(a[i]); }
  ev_s("]");
}
static void ev_arr_begin(const char* k) { ev_key(k); ev_s("["); ev_first = 1; }
static void ev_arr_end(void) { ev_s("]"); ev_first = 0; }
static void ev_obj_begin(void) { if (!ev_first) ev_s(","); ev_s("{"); ev_first = 1; }
static void ev_obj_end(void) { ev_s("}"); ev_first = 0; }
static void ev_end(void) { ev_s("}\n"); ev_count++; ev_first = 1; }

/* 64-bit value as four 16-bit limbs, most significant first, top limb signed (TLC ints are 32 bit) */
static void ev_limbs(const char* k, uint64_t u) {
  long long l[4] = { (long long)(int16_t)(u >> 48), (long long)((u >> 32) & 0xFFFF),
                     (long long)((u >> 16) & 0xFFFF), (long long)(u & 0xFFFF) };
  ev_ints(k, l, 4);
}

static void fatal_handler(int sig) {
  /* written from a signal handler: only our own buffer and write(2) */
  static const char a[] = "\n{\"op\":\"";
  ev_flush();
  char b[160];
  int n = snprintf(b, sizeof b, "%s%s\",\"sig\":%d,\"line\":%ld,\"exec\":%ld}\n", a,
                   sig == SIGALRM ? "hang" : "crash", sig, (long)cur_line, (long)cur_exec);
  (void)!write(ev_fd, b, (size_t)n);
  _exit(sig == SIGALRM ? 4 : 3);
}

#include <sys/personality.h>
/* re-exec once with address-space randomisation off: conservative stack scanning then behaves the
   same from run to run (a rejection must reproduce before it is reported) */
static void hc_noaslr(char** argv) {
  if (getenv("HC_NOASLR_DONE")) return;
  setenv("HC_NOASLR_DONE", "1", 1);
  int p = personality(0xffffffff);
  if (p == -1 || (p & ADDR_NO_RANDOMIZE)) return;
  if (personality(p | ADDR_NO_RANDOMIZE) == -1) return;
  execv("/proc/self/exe", argv);
}

static void hc_install(int per_op_seconds) {
  struct sigaction sa; memset(&sa, 0, sizeof sa);
  sa.sa_handler = fatal_handler; sigemptyset(&sa.sa_mask);
  static char altstack[1 << 16];
  stack_t ss; ss.ss_sp = altstack; ss.ss_size = sizeof altstack; ss.ss_flags = 0;
  sigaltstack(&ss, NULL);
  sa.sa_flags = SA_ONSTACK;
  sigaction(SIGSEGV, &sa, NULL); sigaction(SIGBUS, &sa, NULL); sigaction(SIGFPE, &sa, NULL);
  sigaction(SIGABRT, &sa, NULL); sigaction(SIGILL, &sa, NULL); sigaction(SIGALRM, &sa, NULL);
  (void)per_op_seconds;
}

/* ------------------------------------------------------------------ script */

#define HC_MAXW 65536
static char* hc_w[HC_MAXW];
static int   hc_nw;
static char* hc_linebuf = NULL;
static size_t hc_linecap = 0;

/* reads next non-empty, non-comment line into hc_w[]; returns 0 at EOF */
static int hc_next(FILE* f) {
  ssize_t n;
  while ((n = getline(&hc_linebuf, &hc_linecap, f)) >= 0) {
    cur_line++;
    hc_nw = 0;
    char* p = hc_linebuf;
    while (*p) {
      while (*p == ' ' || *p == '\t' || *p == '\n' || *p == '\r') p++;
      if (!*p || *p == '#') break;
      if (hc_nw < HC_MAXW) hc_w[hc_nw++] = p;
      while (*p && *p != ' ' && *p != '\t' && *p != '\n' && *p != '\r') p++;
      if (*p) *p++ = 0;
    }
    if (hc_nw > 0) return 1;
  }
  return 0;
}
static long long hc_int(int i) { return i < hc_nw ? strtoll(hc_w[i], NULL, 10) : 0; }
static int hc_is(int i, const char* s) { return i < hc_nw && strcmp(hc_w[i], s) == 0; }

static size_t hc_unhex(const char* h, unsigned char* out, size_t cap) {
  size_t n = 0;
  if (h[0] == '-' && h[1] == 0) return 0;          /* "-" = empty */
  while (h[0] && h[1] && n < cap) {
    unsigned v; sscanf(h, "%2x", &v); out[n++] = (unsigned char)v; h += 2;
  }
  return n;
}

/* ------------------------------------------------------------------ exceptions */

static const char* hc_exc = "";
static char hc_msg[160] = "";          /* text of the last exception (diagnostics only, never judged) */
static const char* exc_name(var e);
static const char* hc_caught(var e) {
  hc_msg[0] = 0;
  var m = new_raw(String, $S(""));
  show_to(current(Exception), m, 0);
  const char* t = strstr(c_str(m), " - ");            /* <'Exception' At 0x.. Type - message> */
  strncpy(hc_msg, t ? t + 3 : c_str(m), sizeof hc_msg - 1); hc_msg[sizeof hc_msg - 1] = 0;
  del_raw(m);
  for (char* p = hc_msg; *p; p++) if ((unsigned char)*p < 0x20 || (unsigned char)*p >= 0x7f || *p == '"' || *p == '\\') *p = '.';
  return exc_name(e);
}
/* run a statement; hc_exc = "" or the name of the exception type that came out */
#define HC_TRY(stmt) do { hc_exc = ""; hc_msg[0] = 0; try { stmt; } catch (hc_e_) { hc_exc = hc_caught(hc_e_); } } while (0)

static const char* exc_name(var e) {
  if (e == NULL) return "NULL";
  if (e == IOError) return "IOError";
  if (e == KeyError) return "KeyError";
  if (e == BusyError) return "BusyError";
  if (e == TypeError) return "TypeError";
  if (e == ValueError) return "ValueError";
  if (e == ClassError) return "ClassError";
  if (e == FormatError) return "FormatError";
  if (e == ResourceError) return "ResourceError";
  if (e == OutOfMemoryError) return "OutOfMemoryError";
  if (e == IndexOutOfBoundsError) return "IndexOutOfBoundsError";
  if (e == SegmentationError) return "SegmentationError";
  if (e == ProgramAbortedError) return "ProgramAbortedError";
  if (e == DivisionByZeroError) return "DivisionByZeroError";
  return "OtherException";
}

/* ------------------------------------------------------------------ Probe type + ledger */

struct Probe {
  int64_t val;      /* the abstract value (what cmp / hash / eq look at) */
  int64_t serial;   /* identity of this *instance* (travels with the bytes) */
  char*   heap;     /* owned heap block; holds a copy of serial */
  int64_t canary;
};
#define PROBE_CANARY 0x5ca1ab1e0ddba11LL

enum { LED_MAX = 1 << 22 };
static unsigned char* led_state;      /* 0 never issued, 1 live, 2 retired */
static int64_t led_next = 1;
static int64_t led_live = 0;
static int64_t led_errors = 0;        /* double retire, retire of unknown, bad canary, ... */
static int64_t led_issued_total = 0, led_retired_total = 0;
static char led_errmsg[256] = "";
static uint64_t probe_hash_mul = 1;   /* hash(probe) = val * mul */

static void led_init(void) { if (!led_state) led_state = calloc(LED_MAX, 1); }
static void led_err(const char* what, int64_t serial) {
  led_errors++;
  if (!led_errmsg[0]) snprintf(led_errmsg, sizeof led_errmsg, "%s serial=%lld", what, (long long)serial);
}

static void probe_issue(struct Probe* p, int64_t val) {
  led_init();
  p->val = val;
  p->serial = led_next++;
  if (p->serial >= LED_MAX) { fprintf(stderr, "ledger full\n"); _exit(9); }
  p->heap = malloc(16);
  memcpy(p->heap, &p->serial, 8);
  p->canary = PROBE_CANARY;
  led_state[p->serial] = 1; led_live++; led_issued_total++;
}

static void probe_retire(struct Probe* p) {
  led_init();
  if (p->serial <= 0 || p->serial >= LED_MAX || led_state[p->serial] == 0) { led_err("retire-unknown", p->serial); return; }
  if (led_state[p->serial] == 2) { led_err("double-retire", p->serial); return; }
  if (p->canary != PROBE_CANARY) led_err("bad-canary", p->serial);
  if (p->heap == NULL || memcmp(p->heap, &p->serial, 8) != 0) led_err("heap-mismatch", p->serial);
  else { memset(p->heap, 0xdd, 16); free(p->heap); }
  led_state[p->serial] = 2; led_live--; led_retired_total++;
  p->heap = NULL; p->canary = 0;     /* serial and val stay readable: a stale copy is recognisable */
}

static int probe_is_live(struct Probe* p) {
  return p->serial > 0 && p->serial < LED_MAX && led_state && led_state[p->serial] == 1 && p->canary == PROBE_CANARY;
}

extern var Probe;

static void Probe_New(var self, var args) {
  struct Probe* p = self;
  probe_issue(p, len(args) > 0 ? c_int(get(args, $I(0))) : 0);
}
static void Probe_Del(var self) { probe_retire(self); }
#define PROBE_REFUSED (-770077)      /* a value the type does not take: assigning FROM it raises, before anything is changed */
static void Probe_Assign(var self, var obj) {
  struct Probe* p = self; struct Probe* o = cast(obj, Probe);
  if (o->val == PROBE_REFUSED) throw(ValueError, "Probe: refused value %li", $I(o->val));
  if (p->serial == 0 && p->heap == NULL) { probe_issue(p, o->val); return; }   /* into fresh (zeroed) memory */
  if (!probe_is_live(p)) { led_err("assign-over-dead", p->serial); return; }
  p->val = o->val;                                                        /* over a live instance: value replaced */
}
static int Probe_Cmp(var self, var obj) {
  struct Probe* p = self; struct Probe* o = cast(obj, Probe);
  return p->val < o->val ? -1 : (p->val > o->val ? 1 : 0);
}
static uint64_t Probe_Hash(var self) { struct Probe* p = self; return (uint64_t)p->val * probe_hash_mul; }
static int64_t Probe_C_Int(var self) { struct Probe* p = self; return p->val; }
static int Probe_Show(var self, var out, int pos) { struct Probe* p = self; return print_to(out, pos, "P%li", $I(p->val)); }

var Probe = Cello(Probe,
  Instance(New, Probe_New, Probe_Del),
  Instance(Assign, Probe_Assign),
  Instance(Cmp, Probe_Cmp),
  Instance(Hash, Probe_Hash),
  Instance(C_Int, Probe_C_Int),
  Instance(Show, Probe_Show, NULL));

/* WProbe: the same element with a wide body (160 bytes: wider than any buffer a helper might move elements through) that owns a
   second heap block at its far end; the ledger entry is shared, the tail block must still belong to the same instance when it goes */
struct WProbe { struct Probe p; char pad[112]; char* tail; int64_t tailserial; };
extern var WProbe;
static void wprobe_tail(struct WProbe* w) { memset(w->pad, 0x77, sizeof w->pad); w->tail = malloc(16); memcpy(w->tail, &w->p.serial, 8); w->tailserial = w->p.serial; }
static void WProbe_New(var self, var args) { struct WProbe* w = self; probe_issue(&w->p, len(args) > 0 ? c_int(get(args, $I(0))) : 0); wprobe_tail(w); }
static void WProbe_Del(var self) {
  struct WProbe* w = self;
  if (w->tailserial != w->p.serial || w->tail == NULL || memcmp(w->tail, &w->p.serial, 8) != 0) led_err("tail-mismatch", w->p.serial);
  else { memset(w->tail, 0xdd, 16); free(w->tail); }
  for (size_t i = 0; i < sizeof w->pad; i++) if (w->pad[i] != 0x77) { led_err("body-damaged", w->p.serial); break; }
  w->tail = NULL; w->tailserial = 0;
  probe_retire(&w->p);
}
static void WProbe_Assign(var self, var obj) {
  struct WProbe* w = self; struct WProbe* o = cast(obj, WProbe);
  if (o->p.val == PROBE_REFUSED) throw(ValueError, "Probe: refused value %li", $I(o->p.val));
  if (w->p.serial == 0 && w->p.heap == NULL) { probe_issue(&w->p, o->p.val); wprobe_tail(w); return; }
  if (!probe_is_live(&w->p)) { led_err("assign-over-dead", w->p.serial); return; }
  w->p.val = o->p.val;
}
static int WProbe_Cmp(var self, var obj) { struct WProbe* w = self; struct WProbe* o = cast(obj, WProbe); return w->p.val < o->p.val ? -1 : w->p.val > o->p.val ? 1 : 0; }
static uint64_t WProbe_Hash(var self) { struct WProbe* w = self; return (uint64_t)w->p.val * probe_hash_mul; }
static int64_t WProbe_C_Int(var self) { struct WProbe* w = self; return w->p.val; }
static int WProbe_Show(var self, var out, int pos) { struct WProbe* w = self; return print_to(out, pos, "P%li", $I(w->p.val)); }
var WProbe = Cello(WProbe, Instance(New, WProbe_New, WProbe_Del), Instance(Assign, WProbe_Assign), Instance(Cmp, WProbe_Cmp),
  Instance(Hash, WProbe_Hash), Instance(C_Int, WProbe_C_Int), Instance(Show, WProbe_Show, NULL));

/* after an execution has been closed (its end event reported what was left): forget leftovers and
   ledger errors so that one defect is blamed on one execution only */
static void led_abandon(void) {
  led_init();
  for (int64_t s = 1; s < led_next; s++) if (led_state[s] == 1) { led_state[s] = 3; led_live--; }
  led_errors = 0; led_errmsg[0] = 0;
}

/* sorted list of live serials into the current event */
static void ev_ledger(void) {
  led_init();
  ev_key("led"); ev_s("[");
  int first = 1;
  for (int64_t s = 1; s < led_next; s++) if (led_state[s] == 1) { if (!first) ev_s(","); first = 0; ev_i(s); }
  ev_s("]");
  ev_int("lerr", led_errors);
}

/* ------------------------------------------------------------------ value table */

enum { VT_INT = 1, VT_STR = 2, VT_FLT = 3, VT_PROBE = 4, VT_BOX = 5, VT_ODD = 6, VT_PAIR = 7, VT_SWP = 8, VT_WPROBE = 9 };
#define IS_PROBE(k) ((k) == VT_PROBE || (k) == VT_WPROBE)   /* VT_BOX: a Box owning a managed Probe */
/* a plain 12-byte record (no Swap, Assign or Hash instance of its own: the library's byte-wise defaults apply); the two
   payload fields are functions of the key, so a record whose bytes were mixed with another one's is recognised */
struct Odd12 { int32_t key, a, b; };
static void Odd12_New(var self, var args) { struct Odd12* o = self; o->key = (int32_t)c_int(get(args, $I(0))); o->a = o->key * 3 + 1; o->b = o->key * 7 + 2; }
static int Odd12_Cmp(var self, var obj) { struct Odd12* x = self; struct Odd12* y = cast(obj, type_of(self)); return x->key < y->key ? -1 : x->key > y->key ? 1 : 0; }
var Odd12 = Cello(Odd12, Instance(New, Odd12_New, NULL), Instance(Cmp, Odd12_Cmp));
static void odd12_init(void) { }
/* a plain 16-byte record with NO instances at all (default byte-wise cmp / eq / hash, default assign): value v is the pair
   (v >> 2, v & 3), so different values share their first 8 bytes; for 0 <= v < 1024 the byte-wise order is the order of v */
struct Pair16 { int64_t hi, lo; };
var Pair16 = Cello(Pair16);
/* a record with its OWN Swap instance (and Cmp): sort exchanges elements through it; tag is a function of the value */
struct Swp { int64_t v, tag; };
static int Swp_Cmp(var self, var obj) { struct Swp* x = self; struct Swp* y = cast(obj, type_of(self)); return x->v < y->v ? -1 : x->v > y->v ? 1 : 0; }
static void Swp_Swap(var self, var obj) { struct Swp* x = self; struct Swp* y = cast(obj, type_of(self)); struct Swp t = *x; *x = *y; *y = t; }
var Swp = Cello(Swp, Instance(Cmp, Swp_Cmp), Instance(Swap, Swp_Swap));
static var swp_make(int64_t v) { struct Swp* p = alloc_raw(Swp); p->v = v; p->tag = v * 5 + 3; return p; }
static var pair16_make(int64_t v) { struct Pair16* p = alloc_raw(Pair16); p->hi = v >> 2; p->lo = v & 3; return p; }
struct Val { int kind; int64_t i; double f; char* s; size_t sl; };
#define HC_MAXV 4096
static struct Val vt_k[HC_MAXV], vt_v[HC_MAXV];   /* two universes: keys/elements and values */
static int vt_nk = 0, vt_nv = 0;

static int vt_kind_of(const char* s) {
  if (!strcmp(s, "Int")) return VT_INT; if (!strcmp(s, "String")) return VT_STR;
  if (!strcmp(s, "Float")) return VT_FLT; if (!strcmp(s, "Probe")) return VT_PROBE; if (!strcmp(s, "WProbe")) return VT_WPROBE; if (!strcmp(s, "Box")) return VT_BOX;
  if (!strcmp(s, "Odd12")) { odd12_init(); return VT_ODD; } if (!strcmp(s, "Pair16")) return VT_PAIR; if (!strcmp(s, "Swp")) return VT_SWP; return 0;
}
static var vt_type(int kind) { return kind == VT_WPROBE ? WProbe : kind == VT_SWP ? Swp : kind == VT_PAIR ? Pair16 : kind == VT_ODD ? Odd12 : kind == VT_INT ? Int : kind == VT_STR ? String : kind == VT_FLT ? Float : kind == VT_BOX ? Box : Probe; }

/* parse "<tok> <spec>" : Int/Probe decimal, String hex, Float hex of the IEEE bits */
static void vt_define(struct Val* tab, int* n, int kind, int tok, const char* spec) {
  if (tok <= 0 || tok >= HC_MAXV) { fprintf(stderr, "bad token %d\n", tok); exit(9); }
  struct Val* v = &tab[tok]; v->kind = kind;
  if (kind == VT_INT || kind == VT_PROBE || kind == VT_WPROBE || kind == VT_BOX || kind == VT_ODD || kind == VT_PAIR || kind == VT_SWP) v->i = strtoll(spec, NULL, 10);
  else if (kind == VT_FLT) { uint64_t b = strtoull(spec, NULL, 16); memcpy(&v->f, &b, 8); }
  else { size_t cap = strlen(spec) / 2 + 2; v->s = malloc(cap); v->sl = hc_unhex(spec, (unsigned char*)v->s, cap - 1); v->s[v->sl] = 0; }
  if (tok > *n) *n = tok;
}

/* fresh raw (unmanaged) object holding the value of token tok */
static var vt_make(struct Val* tab, int tok) {
  struct Val* v = &tab[tok];
  switch (v->kind) {
    case VT_INT: return new_raw(Int, $I(v->i));
    case VT_FLT: return new_raw(Float, $F(v->f));
    case VT_STR: return new_raw(String, $S(v->s));
    case VT_PROBE: return new_raw(Probe, $I(v->i));
    case VT_WPROBE: return new_raw(WProbe, $I(v->i));
    case VT_BOX: return new(Probe, $I(v->i));      /* managed: a Box deletes its pointee with del() */
    case VT_ODD: return new_raw(Odd12, $I(v->i));
    case VT_PAIR: return pair16_make(v->i);
    case VT_SWP: return swp_make(v->i);
  }
  return NULL;
}
static void vt_free(var o) { if (o) del_raw(o); }

/* token of a concrete object, found by comparing raw representations (never Cello's cmp/eq/hash); 0 = unknown */
static int vt_token(struct Val* tab, int n, var o) {
  if (o == NULL) return 0;
  var t = type_of(o);
  for (int k = 1; k <= n; k++) {
    struct Val* v = &tab[k];
    if (v->kind == 0) continue;
    if (v->kind == VT_INT && t == Int) { if (((struct Int*)o)->val == v->i) return k; }
    else if (v->kind == VT_FLT && t == Float) { if (memcmp(&((struct Float*)o)->val, &v->f, 8) == 0) return k; }
    else if (v->kind == VT_STR && t == String) { char* s = ((struct String*)o)->val; if (s && strlen(s) == v->sl && memcmp(s, v->s, v->sl) == 0) return k; }
    else if (v->kind == VT_PROBE && t == Probe) { if (((struct Probe*)o)->val == v->i) return k; }
    else if (v->kind == VT_WPROBE && t == WProbe) { if (((struct Probe*)o)->val == v->i) return k; }
    else if (v->kind == VT_BOX && t == Box) { struct Probe* pp = ((struct Box*)o)->val; if (pp && pp->val == v->i) return k; }
    else if (v->kind == VT_BOX && t == Probe) { if (((struct Probe*)o)->val == v->i) return k; }
    else if (v->kind == VT_SWP && t == Swp) { struct Swp* r = o; if (r->v == v->i && r->tag == v->i * 5 + 3) return k; }
    else if (v->kind == VT_PAIR && t == Pair16) { struct Pair16* r = o; if (r->hi == (v->i >> 2) && r->lo == (v->i & 3)) return k; }
    else if (v->kind == VT_ODD && t == Odd12) { struct Odd12* r = o; if (r->key == (int32_t)v->i && r->a == r->key * 3 + 1 && r->b == r->key * 7 + 2) return k; }
  }
  return 0;
}

#endif
