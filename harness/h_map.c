/* h_map.c - script interpreter for Table and Tree (C02, C03, C05, C12, C10 parts).
 *
 * usage: h_map <script> [<out.ndjson>]
 *
 * script:
 *   types <KeyType> <ValType>            Int | String | Probe (once, before the first reset)
 *   K <tok> <spec> / W <tok> <spec>      key / value universes (tokens 1..n)
 *   hashmul <n>                          Probe hash = val * n
 *   hashes                               emit hash() of every key token (generator support)
 *   reset                                delete everything, new execution
 *   new <o> Table|Tree [k v ...]         constructor (with initial pairs)
 *   set <o> <k> <v> | rem <o> <k> | get <o> <k> | mem <o> <k>
 *   resize <o> <n> | assign <o> <src> | copy <o> <src> | del <o>
 *   bad <o> <what>                       C12: setkey settype setval setnullk setnullv getnull remnull memnull gettype remtype
 *
 * After every operation one event with the projection of *every* live container
 * through the public API only: len, forward / backward iteration, get + mem of
 * every key of the universe; for Probe elements the instance serials inside and
 * the ledger of live instances.
 */
#include "hc.h"
#ifndef NO_WHITEBOX
#include "Tree.c"      /* white-box seam: the library is linked without Tree.o */
#endif

#define MAXO 8
static int ktk = VT_INT, vtk = VT_INT;

struct Slot { var obj; int kind; /* 1 Table 2 Tree */ int managed; };

static const char* kind_name(int k) { return k == 1 ? "Table" : "Tree"; }

static int light = 0;          /* >0: reduced projection with that many probe keys per event */
static int force_full = 0;
static int cur_k = 0;            /* key token touched by the current operation */
static uint64_t probe_rng = 88172645463325252ULL;
static uint64_t xs(void) { probe_rng ^= probe_rng << 13; probe_rng ^= probe_rng >> 7; probe_rng ^= probe_rng << 17; return probe_rng; }

#ifndef NO_WHITEBOX
/* white-box view of the red-black structure (C03 names it): nodes in preorder as
   [key token, red, left, right, parent] with 1-based indices into the list */
#define WB_MAX 40
static var wb_nodes[WB_MAX + 8]; static int wb_n;
static void wb_collect(struct Tree* m, var node, int depth) {
  if (node == NULL || wb_n >= WB_MAX + 4 || depth > 64) return;
  wb_nodes[wb_n++] = node;
  wb_collect(m, *Tree_Left(m, node), depth + 1);
  wb_collect(m, *Tree_Right(m, node), depth + 1);
}
static int wb_index(var node) { if (!node) return 0; for (int i = 0; i < wb_n; i++) if (wb_nodes[i] == node) return i + 1; return -1; }
/* summary over trees of any size: returns black height or -1; fills counters */
static long wb_count, wb_height, wb_redred, wb_parent;
static long wb_walk(struct Tree* m, var node, var parent, int depth) {
  if (node == NULL) return 1;
  if (depth > 200) { wb_height = 9999; return -1; }
  wb_count++;
  if (depth + 1 > wb_height) wb_height = depth + 1;
  if (Tree_Get_Parent(m, node) != parent) wb_parent++;
  if (Tree_Is_Red(m, node) && (Tree_Is_Red(m, *Tree_Left(m, node)) || Tree_Is_Red(m, *Tree_Right(m, node)))) wb_redred++;
  long a = wb_walk(m, *Tree_Left(m, node), node, depth + 1);
  long b = wb_walk(m, *Tree_Right(m, node), node, depth + 1);
  if (a < 0 || b < 0 || a != b) return -1;
  return a + (Tree_Is_Red(m, node) ? 0 : 1);
}
#endif

static void project(struct Slot* so, int o) {
  var c = so->obj;
  uint64_t addr_sig = 1469598103934665603ULL;     /* where the keys live, in iteration order (references must survive a failed call) */
  static long long buf[1 << 16], ks[1 << 16], vs[1 << 16];
  volatile size_t n;
  int full = (light == 0) || force_full;
  ev_obj_begin();
  ev_int("o", o); ev_str("kind", kind_name(so->kind));
  ev_int("len", (long long)len(c));
  ev_int("full", full);
  volatile size_t nks = 0, nvs = 0;
  n = 0;
  if (full) {
    size_t lim = len(c) + 4; if (lim > (1 << 16)) lim = 1 << 16;
    try {
      var it = iter_init(c);
      while (it != Terminal && n < lim) {
        addr_sig = (addr_sig ^ (uint64_t)(uintptr_t)it) * 0x100000001b3ULL;
        long long tk = vt_token(vt_k, vt_nk, it);
        if (IS_PROBE(ktk)) { ks[nks] = ((struct Probe*)it)->serial; nks++; }
        if (IS_PROBE(vtk)) { var v = get(c, it); vs[nvs] = ((struct Probe*)v)->serial; nvs++; }
        buf[n] = tk; n++;
        it = iter_next(c, it);
      }
    } catch (e) { buf[n] = -9; n++; }
    ev_ints("it", buf, n);
    n = 0;
    try {
      var it = iter_last(c);
      while (it != Terminal && n < lim) { long long tk = vt_token(vt_k, vt_nk, it); buf[n] = tk; n++; it = iter_prev(c, it); }
    } catch (e) { buf[n] = -9; n++; }
    ev_ints("bw", buf, n);
  } else { ev_ints("it", buf, 0); ev_ints("bw", buf, 0); }
  /* get / mem probes: every key of the universe (full) or the touched key plus a few others (light) */
  static long long pk[HC_MAXV], pg[HC_MAXV], pm[HC_MAXV];
  int np = 0;
  if (full) { for (int k = 1; k <= vt_nk; k++) pk[np++] = k; }
  else { if (cur_k > 0) pk[np++] = cur_k;
         for (int i = 0; i < light && np < HC_MAXV; i++) pk[np++] = 1 + (long long)(xs() % (uint64_t)vt_nk); }
  for (int i = 0; i < np; i++) {
    var key = vt_make(vt_k, (int)pk[i]);
    volatile long long g = 0;
    try { var v = get(c, key); g = vt_token(vt_v, vt_nv, v); if (g == 0) g = -2; }
    catch (e) { g = (e == KeyError) ? 0 : -1; }
    pg[i] = g;
    volatile long long mm = -1;
    try { mm = mem(c, key) ? 1 : 0; } catch (e) { mm = -1; }
    pm[i] = mm;
    vt_free(key);
  }
  ev_ints("pk", pk, (size_t)np); ev_ints("pg", pg, (size_t)np); ev_ints("pm", pm, (size_t)np);
  ev_ints("ks", ks, nks); ev_ints("vs", vs, nvs);
  ev_limbs("ah", full ? addr_sig : 0);
  ev_str("kt", c_str(key_type(c)));
  ev_str("vt", c_str(val_type(c)));
#ifndef NO_WHITEBOX
  if (so->kind == 2) {
    struct Tree* m = c;
    wb_count = wb_height = wb_redred = wb_parent = 0;
    long bh = wb_walk(m, m->root, NULL, 0);
    long long rb[6] = { wb_count, wb_height, bh >= 0, wb_redred == 0, wb_parent == 0, Tree_Is_Black(m, m->root) };
    ev_ints("rb", rb, 6);
    wb_n = 0;
    if (len(c) <= WB_MAX) wb_collect(m, m->root, 0);
    ev_arr_begin("nodes");
    if (full && len(c) <= WB_MAX) for (int i = 0; i < wb_n; i++) {
      var nd = wb_nodes[i];
      if (i) ev_s(",");
      ev_s("["); ev_i(vt_token(vt_k, vt_nk, Tree_Key(m, nd))); ev_s(","); ev_i(Tree_Is_Red(m, nd) ? 1 : 0); ev_s(",");
      ev_i(wb_index(*Tree_Left(m, nd))); ev_s(","); ev_i(wb_index(*Tree_Right(m, nd))); ev_s(",");
      ev_i(wb_index(Tree_Get_Parent(m, nd))); ev_s("]");
    }
    ev_arr_end();
  } else
#endif
  { long long z[1]; ev_ints("rb", z, 0); ev_arr_begin("nodes"); ev_arr_end(); }
  ev_obj_end();
}

static long long init_pairs[HC_MAXW]; static size_t n_init = 0;   /* pairs given to the constructor */

static void emit(struct Slot* objs, const char* op, int o, int k, int v, long long n, int src, const char* what, const char* exc, long long r) {
  ev_begin(op);
  ev_int("o", o); ev_int("k", k); ev_int("v", v); ev_int("n", n); ev_int("src", src);
  ev_str("what", what); ev_str("exc", exc); ev_str("msg", hc_msg); ev_int("r", r);
  ev_int("own", (IS_PROBE(ktk) || IS_PROBE(vtk)) ? 1 : 0);
  ev_arr_begin("init");
  for (size_t i = 0; i + 1 < n_init; i += 2) { if (i) ev_s(","); ev_s("["); ev_i(init_pairs[i]); ev_s(","); ev_i(init_pairs[i + 1]); ev_s("]"); }
  ev_arr_end();
  n_init = 0;
  force_full = !strcmp(op, "snap") || !strcmp(op, "xasg");
  cur_k = k;
  ev_arr_begin("objs");
  for (int i = 1; i < MAXO; i++) if (objs[i].obj) project(&objs[i], i);
  ev_arr_end();
  force_full = 0;
  ev_ledger();
  ev_int("line", cur_line);
  ev_end();
}

static void drop(struct Slot* s) {
  if (!s->obj) return;
  if (s->managed) del(s->obj); else del_raw(s->obj);
  s->obj = NULL;
}

static long scale_len, scale_seen;
static long __attribute__((noinline)) scale_run(char kind, long n, int reserve) {
  long bad = 0; scale_len = -1; scale_seen = 0;
  var t = kind == 'T' ? (var)new_raw(Table, Int, Int) : (var)new_raw(Tree, Int, Int);
  if (reserve) resize(t, (size_t)n);
  for (long i = 0; i < n; i++) set(t, $I(i * 7 + 1), $I(i));
  scale_len = (long)len(t);
  for (long i = 0; i < n; i += (i < 2000 || i > n - 2000) ? 1 : 4099) { if (!mem(t, $I(i * 7 + 1)) || c_int(get(t, $I(i * 7 + 1))) != i) bad++; if (mem(t, $I(i * 7 + 2))) bad++; }
  foreach (k in t) { scale_seen++; }
  for (long i = 0; i < n && i < 5000; i += 2) rem(t, $I(i * 7 + 1));
  for (long i = 0; i < n && i < 5000; i++) if ((mem(t, $I(i * 7 + 1)) ? 1 : 0) != (i % 2)) bad++;
  set(t, $I(-5), $I(5)); if (c_int(get(t, $I(-5))) != 5) bad++;
  del_raw(t);
  return bad;
}

int main(int argc, char** argv) {
  struct Slot objs[MAXO]; memset(objs, 0, sizeof objs);
  if (argc < 2) { fprintf(stderr, "usage: h_map script [out]\n"); return 9; }
  FILE* f = fopen(argv[1], "r"); if (!f) { perror(argv[1]); return 9; }
  if (argc > 2) { ev_fd = open(argv[2], O_WRONLY | O_CREAT | O_TRUNC, 0644); if (ev_fd < 0) { perror(argv[2]); return 9; } }
  hc_install(0);
  while (hc_next(f)) {
    alarm(30);
    const char* op = hc_w[0];
    if (hc_is(0, "types")) { ktk = vt_kind_of(hc_w[1]); vtk = vt_kind_of(hc_w[2]); continue; }
    if (hc_is(0, "K")) { vt_define(vt_k, &vt_nk, ktk, (int)hc_int(1), hc_w[2]); continue; }
    if (hc_is(0, "W")) { vt_define(vt_v, &vt_nv, vtk, (int)hc_int(1), hc_w[2]); continue; }
    if (hc_is(0, "light")) { light = (int)hc_int(1); continue; }
    if (hc_is(0, "hashmul")) { probe_hash_mul = (uint64_t)hc_int(1); continue; }
    if (hc_is(0, "hashes")) {
      for (int k = 1; k <= vt_nk; k++) { var key = vt_make(vt_k, k); ev_begin("hash"); ev_int("k", k); ev_limbs("h", hash(key)); ev_end(); vt_free(key); }
      continue;
    }
    if (hc_is(0, "reset")) {
      for (int i = 1; i < MAXO; i++) drop(&objs[i]);
      if (cur_exec > 0) { ev_begin("end"); ev_ledger(); ev_int("line", cur_line); ev_end(); led_abandon(); }   /* closes the previous execution */
      cur_exec++;
      ev_begin("reset"); ev_ledger(); ev_int("line", cur_line); ev_end();
      continue;
    }
    if (hc_is(0, "scale")) {
      /* scale <T|R> <n> : a map of n Int bindings (beyond the last entry of the library's size table when n > 8.8 million): room
         reserved first or grown step by step, then every binding checked; only counts are logged */
      long n = (long)hc_int(2); int reserve = hc_nw > 3 ? (int)hc_int(3) : 0; volatile long bad = 0; volatile long ln = -1, seen = 0;
      alarm(240);
      HC_TRY(bad = scale_run(hc_w[1][0], n, reserve));
      ln = scale_len; seen = scale_seen;
      ev_begin("scale"); ev_int("n", n); ev_int("len", ln); ev_int("seen", seen); ev_int("bad", bad); ev_str("exc", hc_exc); ev_int("line", cur_line); ev_end();
      continue;
    }
    int o = (int)hc_int(1);
    if (o <= 0 || o >= MAXO) { fprintf(stderr, "bad object id at line %ld\n", (long)cur_line); return 9; }
    struct Slot* so = &objs[o];
    if (hc_is(0, "new")) {
      int kind = hc_is(2, "Table") ? 1 : 2;
      int np = (hc_nw - 3) / 2;
      var* args = calloc((size_t)(2 * np + 3), sizeof(var));
      args[0] = vt_type(ktk); args[1] = vt_type(vtk);
      for (int i = 0; i < np; i++) { args[2 + 2 * i] = vt_make(vt_k, (int)hc_int(3 + 2 * i)); args[3 + 2 * i] = vt_make(vt_v, (int)hc_int(4 + 2 * i)); }
      args[2 + 2 * np] = Terminal;
      struct Tuple tup = { args };
      var targs = header_init(malloc(sizeof(struct Header) + sizeof(struct Tuple)), Tuple, AllocStack);
      memcpy(targs, &tup, sizeof tup);
      volatile var made = NULL;
      HC_TRY(made = new_raw_with(kind == 1 ? Table : Tree, targs));
      so->obj = made; so->kind = kind; so->managed = 0;
      for (int i = 0; i < 2 * np; i++) vt_free(args[2 + i]);
      free((char*)targs - sizeof(struct Header)); free(args);
      for (int i = 0; i < 2 * np; i++) init_pairs[i] = hc_int(3 + i);
      n_init = (size_t)(2 * np);
      emit(objs, "new", o, 0, 0, np, 0, kind_name(kind), hc_exc, 0);
      continue;
    }
    if (!so->obj && !hc_is(0, "copy")) { ev_begin("missing"); ev_int("o", o); ev_int("line", cur_line); ev_end(); continue; }   /* an earlier call failed to produce it */
    if (hc_is(0, "set")) {
      int k = (int)hc_int(2), v = (int)hc_int(3);
      var key = vt_make(vt_k, k), val = vt_make(vt_v, v);
      HC_TRY(set(so->obj, key, val));
      vt_free(key); vt_free(val);
      emit(objs, "set", o, k, v, 0, 0, "", hc_exc, 0);
    } else if (hc_is(0, "setalias")) {
      /* setalias <o> <knew> <kold> <v> : arguments that live INSIDE the container itself.  The value is the one stored under
         kold (a pointer into the container's storage), bound to knew; and, if kold is present, kold is bound to v again using
         the container's own key object (taken from its iteration).  Both are ordinary calls; growth must not pull the
         arguments away under them. */
      int kn = (int)hc_int(2), ko = (int)hc_int(3), v = (int)hc_int(4);
      var kold = vt_make(vt_k, ko);
      int present = 0; hc_exc = "";
      HC_TRY(present = mem(so->obj, kold) ? 1 : 0);
      if (present) {
        var knew = vt_make(vt_k, kn);
        var inside = get(so->obj, kold); int vtok = vt_token(vt_v, vt_nv, inside);
        HC_TRY(set(so->obj, knew, inside));
        vt_free(knew); vt_free(kold);                 /* (temporaries gone before the event: the ledger shows the containers only) */
        emit(objs, "set", o, kn, vtok, 0, 0, "", hc_exc, 0);
        var ownkey = NULL; { size_t lim = len(so->obj) + 2, c = 0; foreach (kk in so->obj) { if (c++ > lim) break; if (vt_token(vt_k, vt_nk, kk) == ko) ownkey = kk; } }
        if (ownkey) { var val = vt_make(vt_v, v); HC_TRY(set(so->obj, ownkey, val)); vt_free(val); emit(objs, "set", o, ko, v, 0, 0, "", hc_exc, 0); }
      } else {
        var knew = vt_make(vt_k, kn); var val = vt_make(vt_v, v);
        HC_TRY(set(so->obj, knew, val)); vt_free(val); vt_free(knew); vt_free(kold);
        emit(objs, "set", o, kn, v, 0, 0, "", hc_exc, 0);
      }
    } else if (hc_is(0, "rem")) {
      int k = (int)hc_int(2);
      var key = vt_make(vt_k, k);
      HC_TRY(rem(so->obj, key));
      vt_free(key);
      emit(objs, "rem", o, k, 0, 0, 0, "", hc_exc, 0);
    } else if (hc_is(0, "get")) {
      int k = (int)hc_int(2);
      var key = vt_make(vt_k, k);
      volatile long long r = 0;
      HC_TRY(r = vt_token(vt_v, vt_nv, get(so->obj, key)));
      vt_free(key);
      emit(objs, "get", o, k, 0, 0, 0, "", hc_exc, r);
    } else if (hc_is(0, "getalias")) {
      /* getalias <o> <k> : the key argument is the VALUE object bound to k, which lives inside the container's own storage
         (key and value types are of one kind here); it is an ordinary key like any other: looked up by its value */
      int k = (int)hc_int(2);
      var key = vt_make(vt_k, k);
      volatile var inside = NULL; hc_exc = "";
      HC_TRY(inside = mem(so->obj, key) ? get(so->obj, key) : NULL);
      vt_free(key);
      if (inside) {
        int kk = vt_token(vt_k, vt_nk, inside);
        volatile long long r = 0;
        HC_TRY(r = vt_token(vt_v, vt_nv, get(so->obj, inside)));
        emit(objs, "get", o, kk, 0, 0, 0, "", hc_exc, r);
        volatile long long m2 = 0;
        HC_TRY(m2 = mem(so->obj, inside) ? 1 : 0);
        emit(objs, "mem", o, kk, 0, 0, 0, "", hc_exc, m2);
      } else emit(objs, "snap", o, 0, 0, 0, 0, "", "", 0);
    } else if (hc_is(0, "mem")) {
      int k = (int)hc_int(2);
      var key = vt_make(vt_k, k);
      volatile long long r = 0;
      HC_TRY(r = mem(so->obj, key) ? 1 : 0);
      vt_free(key);
      emit(objs, "mem", o, k, 0, 0, 0, "", hc_exc, r);
    } else if (hc_is(0, "resize")) {
      long long n = hc_int(2);
      HC_TRY(resize(so->obj, (size_t)n));
      emit(objs, "resize", o, 0, 0, n, 0, "", hc_exc, 0);
    } else if (hc_is(0, "assign")) {
      int src = (int)hc_int(2);
      HC_TRY(assign(so->obj, objs[src].obj));
      emit(objs, "assign", o, 0, 0, 0, src, "", hc_exc, 0);
    } else if (hc_is(0, "copy")) {
      int src = (int)hc_int(2);
      drop(so);
      volatile var made = NULL;
      HC_TRY(made = copy(objs[src].obj));
      so->obj = made; so->kind = objs[src].kind; so->managed = 1;
      emit(objs, "copy", o, 0, 0, 0, src, "", hc_exc, 0);
    } else if (hc_is(0, "xasg")) {
      /* assign from a map of OTHER key and value types (other sizes: another node / slot layout) and back again: the old bindings
         must be finalised with the layout they were built with; the contents are the source's each time */
      volatile var saved = NULL; volatile long long n1 = -1; const char* x = "";
      HC_TRY(saved = copy(so->obj));
      if (saved && !hc_exc[0]) {
        var akt = ktk == VT_ODD ? Int : Odd12, avt = IS_PROBE(vtk) ? Int : Probe;
        var alien = so->kind == 2 ? (var)new_raw(Tree, akt, avt) : (var)new_raw(Table, akt, avt);
        for (int i = 0; i < 2; i++) {
          var ak = akt == Int ? (var)new_raw(Int, $I(40 + i)) : (var)new_raw(Odd12, $I(40 + i));
          var av = avt == Int ? (var)new_raw(Int, $I(7)) : (var)new_raw(Probe, $I(7));
          set(alien, ak, av); del_raw(ak); del_raw(av);
        }
        HC_TRY(assign(so->obj, alien)); x = hc_exc;
        if (!x[0]) { HC_TRY(n1 = (long long)len(so->obj)); x = hc_exc; }
        del_raw(alien);
        if (!x[0]) { HC_TRY(assign(so->obj, saved)); x = hc_exc; }
      } else x = hc_exc;
      if (saved) del(saved);
      emit(objs, "xasg", o, 0, 0, n1, 0, "", x, 0);
    } else if (hc_is(0, "snap")) {
      emit(objs, "snap", o, 0, 0, 0, 0, "", "", 0);
    } else if (hc_is(0, "del")) {
      drop(so);
      emit(objs, "del", o, 0, 0, 0, 0, "", "", 0);
    } else if (hc_is(0, "bad")) {
      const char* what = hc_w[2];
      var c = so->obj;
      /* an object of a type that is neither the key nor the value type */
      var alien = (ktk == VT_FLT || vtk == VT_FLT) ? (var)new_raw(Ref, $I(0)) : (var)new_raw(Float, $F(1.5));
      var key = vt_make(vt_k, 1), val = vt_make(vt_v, 1);
      if (!strcmp(what, "settype")) HC_TRY(set(c, alien, val));
      else if (!strcmp(what, "setval")) HC_TRY(set(c, key, alien));
      else if (!strcmp(what, "setnullk")) HC_TRY(set(c, NULL, val));
      else if (!strcmp(what, "setnullv")) HC_TRY(set(c, key, NULL));
      else if (!strcmp(what, "getnull")) HC_TRY(get(c, NULL));
      else if (!strcmp(what, "remnull")) HC_TRY(rem(c, NULL));
      else if (!strcmp(what, "memnull")) HC_TRY(mem(c, NULL));
      else if (!strcmp(what, "gettype")) HC_TRY(get(c, alien));
      else if (!strcmp(what, "remtype")) HC_TRY(rem(c, alien));
      else if (!strcmp(what, "memtype")) HC_TRY(mem(c, alien));
      else if (!strcmp(what, "resizehuge")) HC_TRY(resize(c, (size_t)1 << 59));       /* more than can be had: refused, the bindings stay */
      else if (!strcmp(what, "resizemax")) HC_TRY(resize(c, (size_t)-1));
      else if (!strcmp(what, "newnulltypes")) { var k0 = so->kind == 2 ? Tree : Table; HC_TRY(new_raw_with(k0, tuple(NULL, NULL))); }            /* no types at all */
      else if (!strcmp(what, "newinttypes")) { var k0 = so->kind == 2 ? Tree : Table; HC_TRY(new_raw_with(k0, tuple($I(1), $I(2)))); }           /* objects that are not types */
      else if (!strcmp(what, "setrefuse")) {           /* a value of the right type that the value type's Assign refuses; key: token hc_w[3], present or not */
        var k2 = vt_make(vt_k, (int)hc_int(3)); var bad = new_raw(Probe, $I(PROBE_REFUSED));
        HC_TRY(set(c, k2, bad));
        vt_free(k2); del_raw(bad);
      }
      else { fprintf(stderr, "unknown bad op %s\n", what); return 9; }
      vt_free(key); vt_free(val); del_raw(alien);
      emit(objs, "bad", o, 0, 0, 0, 0, what, hc_exc, 0);
    } else {
      fprintf(stderr, "unknown op %s at line %ld\n", op, (long)cur_line); return 9;
    }
  }
  alarm(45);
  for (int i = 1; i < MAXO; i++) drop(&objs[i]);
  ev_begin("end"); ev_ledger(); ev_int("line", cur_line); ev_end();
  ev_flush();
  return 0;
}
