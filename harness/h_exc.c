/* h_exc.c - runs try / throw / catch program trees with the real macros (C07).
 *
 * usage: h_exc <script> [<out.ndjson>]
 *   reset
 *   prog <tokens>       one program, executed in a forked child (an uncaught exception ends the process)
 *
 * program grammar (prefix, blank separated):
 *   T <mask> ( stmts ) ( stmts )    try { body } catch (e in <kinds of mask>) { handler };  mask 0 = catch (e): everything;
 *                                   mask 8 + m: the kinds of m, one of them yielded by a function that runs a try block of its own
 *   X <k>                           throw kind k (1 TypeError, 2 ValueError, 3 KeyError)
 *   M                               a visible statement
 *   C ( stmts )                     the statements run in a nested C function call
 *
 * Nesting here is dynamic (every body is run by a recursive call inside the lexical try block of run_try);
 * lexically nested programs are generated as C source by tools/excgen.py and linked as h_exc_lex.
 */
#include <sys/wait.h>
#include "hc.h"

enum { N_TRY = 1, N_THROW, N_MARK, N_CALL, N_THROWN };
struct PNode { int t; int arg; int body, handler; int next; };      /* indices into nodes[], 0 = none */
static struct PNode nodes[65536]; static int nn = 1;
static int tok;

static int parse_list(void);
static int parse_stmt(void) {
  if (tok >= hc_nw) return 0;
  int id = nn++;
  struct PNode* n = &nodes[id]; memset(n, 0, sizeof *n);
  if (hc_is(tok, "T")) { n->t = N_TRY; n->arg = (int)hc_int(tok + 1); tok += 2; n = NULL;
    tok++; int b = parse_list(); tok++; tok++; int h = parse_list(); tok++;
    nodes[id].body = b; nodes[id].handler = h; }
  else if (hc_is(tok, "X")) { n->t = N_THROW; n->arg = (int)hc_int(tok + 1); tok += 2; }
  else if (hc_is(tok, "Y")) { n->t = N_THROWN; n->arg = (int)hc_int(tok + 1); tok += 2; }
  else if (hc_is(tok, "M")) { n->t = N_MARK; tok += 1; }
  else if (hc_is(tok, "C")) { n->t = N_CALL; tok += 1; tok++; int b = parse_list(); tok++; nodes[id].body = b; }
  else { fprintf(stderr, "bad program token %s\n", hc_w[tok]); exit(9); }
  return id;
}
static int parse_list(void) {
  int first = 0, last = 0;
  while (tok < hc_nw && !hc_is(tok, ")")) {
    int s = parse_stmt();
    if (!first) first = s; else nodes[last].next = s;
    last = s;
  }
  return first;
}

/* an object whose Show instance uses a complete try / throw / catch of its own: as an argument of a throw's message it runs
   while that throw is being prepared - the exception that throw raises is still the one it was given */
struct ShowTry { int64_t shown; };
static int ShowTry_Show(var self, var out, int pos) {
  struct ShowTry* st = self;
  var inner = st->shown == 1 ? TypeError : st->shown == 2 ? ValueError : KeyError;          /* (shown: which kind it raises inside) */
  try { throw(inner, "inside show %i", $I(st->shown)); } catch (e) { }
  return print_to(out, pos, "<ShowTry>");
}
var ShowTry = Cello(ShowTry, Instance(Show, ShowTry_Show, NULL));
static var kind_obj(int k) { return k == 1 ? TypeError : k == 2 ? ValueError : KeyError; }
static int kind_of_obj(var e) { return e == TypeError ? 1 : e == ValueError ? 2 : e == KeyError ? 3 : -1; }
static int fid_counter = 0;
static long depth_now(void) { return (long)len(current(Exception)); }

static void run_list(int first);

#define HANDLER_BODY(fid, n) { ev_begin("handler"); ev_int("fid", fid); ev_int("e", kind_of_obj(e)); ev_end(); \
                               run_list((n)->handler); ev_begin("handlerend"); ev_int("fid", fid); ev_end(); }
#define BODY(fid, n) { run_list((n)->body); ev_begin("bodyend"); ev_int("fid", fid); ev_end(); }

/* a filter EXPRESSION that runs a complete try / catch of its own before it yields the kind (masks 9 .. 15 = 8 + the kinds) */
static var __attribute__((noinline)) via_try(var k) { try { throw(IOError, "inside the filter expression"); } catch (e in IOError) { } return k; }
/* (in a function of its own: every try block has a jmp_buf in the frame, and run_try is 2048 deep in the deepest programs) */
static void __attribute__((noinline)) run_try_via(struct PNode* n) {
  int fid = ++fid_counter;
  ev_begin("try"); ev_int("fid", fid); ev_int("mask", n->arg); ev_int("depth", depth_now()); ev_end();
  switch (n->arg) {
    case 9: try BODY(fid, n) catch (e in via_try(TypeError)) HANDLER_BODY(fid, n) break;
    case 10: try BODY(fid, n) catch (e in via_try(ValueError)) HANDLER_BODY(fid, n) break;
    case 11: try BODY(fid, n) catch (e in via_try(TypeError), ValueError) HANDLER_BODY(fid, n) break;
    case 12: try BODY(fid, n) catch (e in via_try(KeyError)) HANDLER_BODY(fid, n) break;
    case 13: try BODY(fid, n) catch (e in KeyError, via_try(TypeError)) HANDLER_BODY(fid, n) break;
    case 14: try BODY(fid, n) catch (e in via_try(ValueError), via_try(KeyError)) HANDLER_BODY(fid, n) break;
    case 15: try BODY(fid, n) catch (e in TypeError, ValueError, via_try(KeyError)) HANDLER_BODY(fid, n) break;
  }
  ev_begin("after"); ev_int("fid", fid); ev_int("depth", depth_now()); ev_end();
}

static void __attribute__((noinline)) run_try(struct PNode* n) {
  if (n->arg >= 8) { run_try_via(n); return; }
  int fid = ++fid_counter;
  ev_begin("try"); ev_int("fid", fid); ev_int("mask", n->arg); ev_int("depth", depth_now()); ev_end();
  switch (n->arg) {
    case 0: try BODY(fid, n) catch (e) HANDLER_BODY(fid, n) break;
    case 1: try BODY(fid, n) catch (e in TypeError) HANDLER_BODY(fid, n) break;
    case 2: try BODY(fid, n) catch (e in ValueError) HANDLER_BODY(fid, n) break;
    case 3: try BODY(fid, n) catch (e in TypeError, ValueError) HANDLER_BODY(fid, n) break;
    case 4: try BODY(fid, n) catch (e in KeyError) HANDLER_BODY(fid, n) break;
    case 5: try BODY(fid, n) catch (e in KeyError, TypeError) HANDLER_BODY(fid, n) break;
    case 6: try BODY(fid, n) catch (e in ValueError, KeyError) HANDLER_BODY(fid, n) break;
    case 7: try BODY(fid, n) catch (e in TypeError, ValueError, KeyError) HANDLER_BODY(fid, n) break;
  }
  ev_begin("after"); ev_int("fid", fid); ev_int("depth", depth_now()); ev_end();
}

static void __attribute__((noinline)) run_call(int first) { volatile char pad[64]; pad[0] = 1; run_list(first); pad[1] = pad[0]; }

static void run_list(int first) {
  for (int i = first; i; i = nodes[i].next) {
    struct PNode* n = &nodes[i];
    switch (n->t) {
      case N_TRY: run_try(n); break;
      case N_THROW: ev_begin("throw"); ev_int("e", n->arg); ev_end(); ev_flush(); throw(kind_obj(n->arg), "kind %i", $I(n->arg)); break;
      case N_THROWN: ev_begin("throw"); ev_int("e", n->arg); ev_end(); ev_flush(); throw(kind_obj(n->arg), "kind %i %$", $I(n->arg), $(ShowTry, n->arg % 3 + 1)); break;
      case N_MARK: ev_begin("mark"); ev_end(); break;
      case N_CALL: ev_begin("call"); ev_end(); run_call(n->body); ev_begin("ret"); ev_end(); break;
    }
  }
}

#ifdef LEXICAL_PROGS
extern void (*lex_progs[])(void); extern int n_lex_progs;
#endif

/* every ordered pair (filter F, thrown T) of the built-in exception kinds, plus two kinds defined here: the inner handler
   runs exactly when F and T are the same kind, otherwise the enclosing catch-all gets T; the bound object is T */
static var UserErrA, UserErrB, UserErr, IOErrorRetry, IOKind, TryKindA, TryKindB;   /* names in prefix relation with each other and with a built-in kind */
/* exception kinds that are objects of a user type whose comparison itself uses a try block (one that completes normally):
   a try is then entered while an exception is being matched against the filters */
struct TryKind { int64_t id; };
static int TryKind_Cmp(var self, var obj) {
  volatile int guarded = 0;
  try { guarded = 1; } catch (e in TypeError, KeyError) { guarded = 2; }       /* a filtered handler: it must not even look at the exception in flight */
  if (type_of(obj) != type_of(self)) return 1;
  return ((struct TryKind*)self)->id == ((struct TryKind*)obj)->id ? 0 : (guarded == 1 ? 1 : -1);
}
var TryKind = Cello(TryKind, Instance(Cmp, TryKind_Cmp));
/* ... and kinds whose comparison raises and handles an exception of its own while the filters are being matched */
struct ThrowKind { int64_t id; };
static int ThrowKind_Cmp(var self, var obj) {
  volatile int handled = 0;
  try { throw(KeyError, "inside cmp"); } catch (e in KeyError) { handled = 1; }
  if (type_of(obj) != type_of(self)) return 1;
  return ((struct ThrowKind*)self)->id == ((struct ThrowKind*)obj)->id ? 0 : (handled ? 1 : -1);
}
var ThrowKind = Cello(ThrowKind, Instance(Cmp, ThrowKind_Cmp));
static var ThrowKindA, ThrowKindB;
/* ... and kinds that are plain value objects of a type with NO Cmp instance (matched by the default byte-wise comparison):
   two of them agree in their first 8 bytes */
struct PlainKind { int64_t domain, code; };
var PlainKind = Cello(PlainKind);
static var PlainK11, PlainK12, PlainK21;
/* ... and status codes: Int objects whose values agree in their low 32 bits (a facility in the high half), Strings in prefix relation */
static var IntK7, IntK7a, IntK7b, IntK7c, StrKa, StrKb, FltK1, FltK2, FltKnan;
#define NK 37
static int kind_sort(int i) { return i < 21 ? 0 : i < 23 ? 1 : 2; }
static void run_pairs(void) {
  var K[NK] = { TypeError, ValueError, ClassError, IndexOutOfBoundsError, KeyError, OutOfMemoryError, IOError, FormatError, BusyError,
                ResourceError, ProgramAbortedError, DivisionByZeroError, IllegalInstructionError, ProgramInterruptedError,
                SegmentationError, ProgramTerminationError, UserErrA, UserErrB, UserErr, IOErrorRetry, IOKind, TryKindA, TryKindB, PlainK11, PlainK12, PlainK21,
                IntK7, IntK7a, IntK7b, IntK7c, StrKa, StrKb, ThrowKindA, ThrowKindB, FltK1, FltK2, FltKnan };
  for (int fi = 0; fi < NK; fi++) for (int ti = 0; ti < NK; ti++) {
    /* kinds of different sorts meet as well: a type object as filter and a value object in flight (or the other way round) are
       simply different kinds - deciding that must not itself raise */
    for (int dup = 0; dup < 2; dup++) {           /* dup: the filter names its kind twice, with another kind in between */
      if (dup && (fi + ti) % 3) continue;
      volatile int inner = 0, outer = 0, bound = -1, after = 0; volatile long d0 = depth_now();
      try {
        if (!dup && (fi * 7 + ti) % 5 == 0) { try { throw(K[ti], "pair %i %$ %i", $I(fi), $(ShowTry, 0), $I(ti)); } catch (e in K[fi]) { inner++; for (int k = 0; k < NK; k++) if (e == K[k]) bound = k; } }
        else if (!dup && (fi * 5 + ti) % 11 == 2) { try { throw(K[ti], "pair %i (nearest: %$) %i", $I(fi), NULL, $I(ti)); } catch (e in K[fi]) { inner++; for (int k = 0; k < NK; k++) if (e == K[k]) bound = k; } }     /* (a message that shows a NULL object) */
        else if (!dup && (fi * 3 + ti) % 7 == 1) { try { throw(K[ti], "pair %i%% of %i%%", $I(fi), $I(ti)); } catch (e in K[fi]) { inner++; for (int k = 0; k < NK; k++) if (e == K[k]) bound = k; } }     /* (a message with per cent signs) */
        else if (!dup) { try { throw(K[ti], "pair %i %i", $I(fi), $I(ti)); } catch (e in K[fi]) { inner++; for (int k = 0; k < NK; k++) if (e == K[k]) bound = k; } }
        else { try { throw(K[ti], "pair %i %i", $I(fi), $I(ti)); } catch (e in K[fi], K[fi]) { inner++; for (int k = 0; k < NK; k++) if (e == K[k]) bound = k; } }
        after = 1;
      } catch (e) { outer++; for (int k = 0; k < NK; k++) if (e == K[k]) bound = k; }
      ev_begin("pair"); ev_int("f", fi); ev_int("t", ti); ev_int("dup", dup); ev_int("inner", inner); ev_int("outer", outer); ev_int("bound", bound);
      ev_int("after", after); ev_int("d0", d0); ev_int("d1", depth_now()); ev_end();
    }
  }
}

int main(int argc, char** argv) {
  if (argc < 2) { fprintf(stderr, "usage: h_exc script [out]\n"); return 9; }
  UserErrA = new_root(Type, $S("UserErrA"), $I(0)); UserErrB = new_root(Type, $S("UserErrB"), $I(0));
  UserErr = new_root(Type, $S("UserErr"), $I(0)); IOErrorRetry = new_root(Type, $S("IOErrorRetry"), $I(0)); IOKind = new_root(Type, $S("IO"), $I(0));
  PlainK11 = alloc_root(PlainKind); PlainK12 = alloc_root(PlainKind); PlainK21 = alloc_root(PlainKind);
  ((struct PlainKind*)PlainK11)->domain = 1; ((struct PlainKind*)PlainK11)->code = 1; ((struct PlainKind*)PlainK12)->domain = 1; ((struct PlainKind*)PlainK12)->code = 2;
  ((struct PlainKind*)PlainK21)->domain = 2; ((struct PlainKind*)PlainK21)->code = 1;
  IntK7 = new_root(Int, $I(7)); IntK7a = new_root(Int, $I((1LL << 32) | 7)); IntK7b = new_root(Int, $I(7 - (1LL << 32))); IntK7c = new_root(Int, $I((1LL << 31) + 7));
  FltK1 = new_root(Float, $F(1.0)); FltK2 = new_root(Float, $F(2.0)); FltKnan = new_root(Float, $F(0.0)); ((struct Float*)FltKnan)->val = 0.0 / 0.0;     /* (a not-a-number kind) */
  StrKa = new_root(String, $S("disk")); StrKb = new_root(String, $S("disk-full"));
  ThrowKindA = new_root(ThrowKind); ((struct ThrowKind*)ThrowKindA)->id = 1; ThrowKindB = new_root(ThrowKind); ((struct ThrowKind*)ThrowKindB)->id = 2;
  TryKindA = new_root(TryKind); ((struct TryKind*)TryKindA)->id = 1; TryKindB = new_root(TryKind); ((struct TryKind*)TryKindB)->id = 2;
  FILE* f = fopen(argv[1], "r"); if (!f) { perror(argv[1]); return 9; }
  if (argc > 2) { ev_fd = open(argv[2], O_WRONLY | O_CREAT | O_TRUNC | O_APPEND, 0644); if (ev_fd < 0) { perror(argv[2]); return 9; } }
  while (hc_next(f)) {
    if (hc_is(0, "reset")) { cur_exec++; ev_begin("reset"); ev_int("line", cur_line); ev_end(); continue; }
    if (hc_is(0, "pairs")) { hc_install(0); alarm(30); run_pairs(); alarm(0); continue; }
    if (!hc_is(0, "prog") && !hc_is(0, "lex")) { fprintf(stderr, "unknown op %s\n", hc_w[0]); return 9; }
    ev_flush();
    int pfd[2]; if (pipe(pfd)) return 9;
    pid_t pid = fork();
    if (pid == 0) {
      close(pfd[0]); dup2(pfd[1], 2); close(pfd[1]);
      close(fileno(f));            /* exit() in the child must not move the parent's read position */
      hc_install(0); alarm(20);
      atexit(ev_flush);
      nn = 1; tok = 1; fid_counter = 0;
#ifdef LEXICAL_PROGS
      if (hc_is(0, "lex")) { int k = (int)hc_int(1); if (k < 0 || k >= n_lex_progs) exit(9); lex_progs[k](); }
      else
#endif
      { int first = parse_list(); run_list(first); }
      ev_begin("done"); ev_int("depth", depth_now()); ev_end();
      ev_flush();
      exit(0);
    }
    close(pfd[1]);
    char buf[4096]; size_t got = 0; ssize_t r;
    while ((r = read(pfd[0], buf + got, sizeof buf - 1 - got)) > 0) got += (size_t)r;
    buf[got] = 0; close(pfd[0]);
    int st = 0; waitpid(pid, &st, 0);
    ev_begin("exit");
    ev_int("status", WIFEXITED(st) ? WEXITSTATUS(st) : -1);
    ev_int("sig", WIFSIGNALED(st) ? WTERMSIG(st) : 0);
    ev_int("diag", strstr(buf, "Uncaught") ? 1 : 0);
    ev_int("line", cur_line);
    ev_end();
  }
  ev_begin("end"); ev_end();
  ev_flush();
  return 0;
}
