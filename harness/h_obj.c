/* h_obj.c - object identity, allocation class and disposal (C19).  Link with -Wl,--wrap=free.
 *   reset
 *   case <how> <type> [<op> ...]
 *     how : new new_raw new_root alloc stack copy static aelem lelem tkey tval rkey rval uitem
 *           it_array it_list it_table it_tree it_range it_slice it_zip it_map rtinst
 *     type: Int Float String Tuple Array Probe          (where the way of obtaining leaves a choice)
 *     op  : del del_raw del_root dealloc dealloc_raw resize assign concat push pop popat append printto lookfrom lookempty scanshow
 * For the object obtained: type_of, header allocation class, size(type) bytes written and read back; for every op:
 * exception, was the object's block freed (free() interposed), is the object unchanged, destructor count.
 */
#include "hc.h"

void __real_free(void*);
static void* watch; static int freed;
void __wrap_free(void* p) { if (p && p == watch) freed++; __real_free(p); }

/* element types of awkward sizes: container layouts must give each element size(type) bytes of its own */
struct Odd { char b[12]; }; struct Tiny { char b[1]; };
var Odd = Cello(Odd); var Tiny = Cello(Tiny);

/* a type whose Alloc instance supplies only half of the pair (its own alloc, no dealloc - like the library's own Type) and
   which has a destructor: a refused release must not have run it */
struct Half { int64_t v; int64_t canary; };
static long long half_fin;
extern var Half;
static void Half_New(var self, var args) { struct Half* h = self; h->v = 5; h->canary = 0x68616c66; }
static void Half_Del(var self) { struct Half* h = self; h->canary = 0; half_fin++; }
static var Half_Alloc2(void) { return header_init(calloc(1, sizeof(struct Header) + sizeof(struct Half)), Half, AllocHeap); }
var Half = Cello(Half, Instance(New, Half_New, Half_Del), Instance(Alloc, Half_Alloc2, NULL));

static var T_of(const char* s) {
  if (!strcmp(s, "Half")) return Half;
  if (!strcmp(s, "Odd")) return Odd;
  if (!strcmp(s, "Tiny")) return Tiny;
  return !strcmp(s, "Int") ? Int : !strcmp(s, "Float") ? Float : !strcmp(s, "String") ? String :
         !strcmp(s, "Tuple") ? Tuple : !strcmp(s, "Array") ? Array : Probe;
}
static var value_of(var T, int heap) {      /* a constructed value of type T */
  if (T == Int) return heap ? (var)new_raw(Int, $I(41)) : NULL;
  return NULL;
}

static var keep_all(var x) { return x; }
static var mapf(var x) { return x; }

static int usable(var o, var T) {
  size_t n = size(T);
  if (n == 0 || n > 4096) return 1;
  unsigned char save[4096]; memcpy(save, o, n);
  for (size_t i = 0; i < n; i++) ((unsigned char*)o)[i] = (unsigned char)(0xA5 ^ i);
  int ok = 1;
  for (size_t i = 0; i < n; i++) if (((unsigned char*)o)[i] != (unsigned char)(0xA5 ^ i)) ok = 0;
  memcpy(o, save, n);
  return ok;
}

/* heap objects reached by a deletion issued from an owner's destructor while the collector sweeps: n unreachable
   Box -> Probe pairs (optionally each owner also reachable from a garbage Tuple), made in a frame that is gone when the collections run */
static void __attribute__((noinline)) make_owned(int n, int chain) {
  for (int i = 0; i < n; i++) {
    var p = new(Probe, $I(i));
    var b = new(Box, p);
    /* (a Box constructed from a Box takes over the same target: that would be two owners of one object) */
    if (chain == 1) { var t = new(Tuple, b); (void)t; }       /* a second garbage object that reaches the owner */
    if (chain == 2) {                                          /* ownership cycles: two Boxes owning each other, one owning itself */
      var c1 = new(Box, new(Probe, $I(i))), c2 = new(Box, new(Probe, $I(i)));
      del(deref(c1)); del(deref(c2));                          /* (the placeholders go; then the Boxes point at each other) */
      ref(c1, c2); ref(c2, c1);
      if (i % 3 == 0) { var c3 = alloc(Box); ref(c3, c3); }
    }
  }
}
static void __attribute__((noinline)) scrub_stack(void) { volatile char* p = alloca(1 << 15); memset((void*)p, 0, 1 << 15); }
void GC_Mark(void*); void GC_Sweep(void*);

int main(int argc, char** argv) {
  if (argc < 2) { fprintf(stderr, "usage: h_obj script [out]\n"); return 9; }
  FILE* f = fopen(argv[1], "r"); if (!f) { perror(argv[1]); return 9; }
  if (argc > 2) { ev_fd = open(argv[2], O_WRONLY | O_CREAT | O_TRUNC, 0644); if (ev_fd < 0) { perror(argv[2]); return 9; } }
  hc_install(0);
  var rtT = new_root(Type, $S("RtThing"), $I(24));
  while (hc_next(f)) {
    alarm(30);
    if (hc_is(0, "reset")) { if (cur_exec > 0) { ev_begin("end"); ev_end(); } cur_exec++; ev_begin("reset"); ev_end(); continue; }
    if (hc_is(0, "owned")) {            /* owned <pairs> <chain 0|1> <how: force|churn> */
      int n = (int)hc_int(1), chain = (int)hc_int(2);
      int64_t issued0 = led_issued_total, retired0 = led_retired_total;
      hc_exc = "";
      HC_TRY(make_owned(n, chain); scrub_stack();
             if (hc_is(3, "force")) { GC_Mark(current(GC)); GC_Sweep(current(GC)); GC_Mark(current(GC)); GC_Sweep(current(GC)); }
             else for (int i = 0; i < 4000; i++) { var g = new(Int, $I(i)); (void)g; });
      ev_begin("owned"); ev_int("pairs", n); ev_int("issued", led_issued_total - issued0); ev_int("retired", led_retired_total - retired0);
      ev_int("lerr", led_errors); ev_str("lmsg", led_errmsg); ev_str("exc", hc_exc); ev_str("msg", hc_msg); ev_int("line", cur_line); ev_end();
      led_abandon();
      continue;
    }
    if (!hc_is(0, "case")) { fprintf(stderr, "unknown op %s\n", hc_w[0]); return 9; }
    const char* how = hc_w[1]; var T = T_of(hc_w[2]);
    volatile var o = NULL; volatile var wantT = T; const char* wantcls = "heap"; int reg = 0;
    volatile var keep1 = NULL, keep2 = NULL;      /* containers / views the object lives in (kept reachable) */
    hc_exc = "";
    /* stack objects and stack views live in this block (the loop body): compound literals die with their block */
    var sH = $(Half, 5, 0x68616c66);
    static char sbuf[8]; strcpy(sbuf, "abc");                      /* (writable characters: a refused operation must not have touched them) */
    var sI = $I(7); var sF = $F(1.5); var sS = $S(sbuf); var sT = tuple($I(1), $I(2));
    volatile var baseA = new(Array, Int, $I(1), $I(2), $I(3));
    var vR = range($I(3)); var vS = slice(baseA, $I(2)); var vZ = zip(baseA, range($I(2))); var vM = map(baseA, $(Function, mapf));
    try {
      /* values used to fill containers: the element type decides */
      #define MK(T_) ((T_) == Half ? (var)$(Half, 5, 0x68616c66) : (T_) == Odd ? (var)$(Odd, "elevenchars") : (T_) == Tiny ? (var)$(Tiny, "x") : (T_) == Int ? (var)$I(7) : (T_) == Float ? (var)$F(1.5) : (T_) == String ? (var)$S("abc") : (T_) == Probe ? (var)$(Probe, 0, 0, NULL, 0) : (var)$I(7))
      var ET = (T == Tuple || T == Array) ? Int : T;          /* containers of containers are not needed here */
      if (!strcmp(how, "new"))        { o = (T == Tuple) ? (var)new(Tuple, $I(1), $I(2), $I(3), $I(4)) : (T == Array) ? (var)new(Array, Int, $I(1)) : (T == String) ? (var)new(String, $S("abc")) : (T == Probe) ? (var)new(Probe, $I(5)) : new_with(T, tuple(MK(T))); reg = 1; }
      else if (!strcmp(how, "new_raw")) { o = (T == Tuple) ? (var)new_raw(Tuple, $I(1), $I(2), $I(3), $I(4)) : (T == Array) ? (var)new_raw(Array, Int, $I(1)) : (T == String) ? (var)new_raw(String, $S("abc")) : (T == Probe) ? (var)new_raw(Probe, $I(5)) : new_raw_with(T, tuple(MK(T))); }
      else if (!strcmp(how, "new_root")) { o = (T == Tuple) ? (var)new_root(Tuple, $I(1), $I(2), $I(3), $I(4)) : (T == Array) ? (var)new_root(Array, Int, $I(1)) : (T == String) ? (var)new_root(String, $S("abc")) : (T == Probe) ? (var)new_root(Probe, $I(5)) : new_root_with(T, tuple(MK(T))); reg = 1; }
      else if (!strcmp(how, "alloc") || !strcmp(how, "alloc_raw") || !strcmp(how, "alloc_root")) {
        o = !strcmp(how, "alloc") ? alloc(T) : !strcmp(how, "alloc_raw") ? alloc_raw(T) : alloc_root(T); reg = strcmp(how, "alloc_raw") ? 1 : 0; if (T == String) ((struct String*)o)->val = calloc(1, 1); if (T == Tuple) { ((struct Tuple*)o)->items = malloc(sizeof(var)); ((struct Tuple*)o)->items[0] = Terminal; } if (T == Probe) probe_issue(o, 5); }
      else if (!strcmp(how, "stack"))  { o = (T == Half) ? sH : (T == Float) ? sF : (T == String) ? sS : (T == Tuple) ? sT : sI; if (T != Int && T != Float && T != String && T != Tuple && T != Half) wantT = Int; wantcls = "stack"; }
      else if (!strcmp(how, "copy"))   { var src = (T == String) ? sS : (T == Float) ? sF : sI; o = copy(src); wantT = type_of(src); reg = 1; }
      else if (!strcmp(how, "static")) { o = T; wantT = Type; wantcls = "static"; }
      else if (!strcmp(how, "staticobj")) {          /* a String OBJECT in static storage (header says so) around writable static characters */
        static char sobj[sizeof(struct Header) + sizeof(struct String)]; static char schars[16];
        strcpy(schars, "abc"); o = header_init(sobj, String, AllocStatic); ((struct String*)o)->val = schars; wantT = String; wantcls = "static"; }
      else if (!strcmp(how, "aelem"))  { keep1 = new(Array, ET, MK(ET), MK(ET), MK(ET)); o = get(keep1, $I(1)); wantT = ET; wantcls = "data"; }
      /* an Array of Ints that is ASSIGNED from a source it can only iterate (a Filter over an Array of the element type: no len, no
         get): its slots are laid out for the new element type afterwards */
      else if (!strcmp(how, "f_aelem")) { keep2 = new(Array, ET, MK(ET), MK(ET), MK(ET)); keep1 = new(Array, Int, $I(1), $I(2), $I(3), $I(4));
                                          assign(keep1, filter(keep2, $(Function, keep_all))); o = get(keep1, $I(1)); wantT = ET; wantcls = "data"; }
      else if (!strcmp(how, "lelem"))  { keep1 = new(List, ET, MK(ET), MK(ET), MK(ET)); o = get(keep1, $I(1)); wantT = ET; wantcls = "data"; }
      else if (!strcmp(how, "tkey"))   { keep1 = new(Table, ET, Int, MK(ET), $I(1)); o = iter_init(keep1); wantT = ET; wantcls = "data"; }
      else if (!strcmp(how, "tval"))   { keep1 = new(Table, Int, ET, $I(1), MK(ET)); o = get(keep1, $I(1)); wantT = ET; wantcls = "data"; }
      else if (!strcmp(how, "rkey"))   { keep1 = new(Tree, ET, Int, MK(ET), $I(1)); o = iter_init(keep1); wantT = ET; wantcls = "data"; }
      else if (!strcmp(how, "rval"))   { keep1 = new(Tree, Int, ET, $I(1), MK(ET)); o = get(keep1, $I(1)); wantT = ET; wantcls = "data"; }
      /* the same four, but the container is a COPY of, or was ASSIGNED from, the one that was filled - and the other of its two
         types is a 1-byte type, so the key and value sizes differ as much as they can */
      else if (!strcmp(how, "c_tkey") || !strcmp(how, "a_tkey") || !strcmp(how, "c_rkey") || !strcmp(how, "a_rkey")
            || !strcmp(how, "c_tval") || !strcmp(how, "a_tval") || !strcmp(how, "c_rval") || !strcmp(how, "a_rval")) {
        var CT = how[2] == 't' ? Table : Tree; int iskey = how[3] == 'k';
        keep2 = iskey ? new_with(CT, tuple(ET, Tiny, MK(ET), MK(Tiny))) : new_with(CT, tuple(Tiny, ET, MK(Tiny), MK(ET)));
        if (how[0] == 'c') keep1 = copy(keep2);
        else { keep1 = new_with(CT, tuple(Int, Int, $I(3), $I(4))); assign(keep1, keep2); }
        o = iskey ? iter_init(keep1) : get(keep1, MK(Tiny));
        wantT = ET; wantcls = "data";
      }
      else if (!strcmp(how, "uitem"))  { keep2 = new(Int, $I(9)); keep1 = new(Tuple, keep2); o = get(keep1, $I(0)); wantT = Int; wantcls = "heap"; reg = 1; }
      else if (!strcmp(how, "it_array")) { keep1 = new(Array, ET, MK(ET), MK(ET), MK(ET)); o = iter_next(keep1, iter_init(keep1)); wantT = ET; wantcls = "data"; }
      else if (!strcmp(how, "it_list"))  { keep1 = new(List, ET, MK(ET), MK(ET)); o = iter_last(keep1); wantT = ET; wantcls = "data"; }
      else if (!strcmp(how, "it_table")) { keep1 = new(Table, ET, ET, MK(ET), MK(ET)); o = iter_last(keep1); wantT = ET; wantcls = "data"; }
      else if (!strcmp(how, "it_tree"))  { keep1 = new(Tree, ET, ET, MK(ET), MK(ET)); o = iter_last(keep1); wantT = ET; wantcls = "data"; }
      else if (!strcmp(how, "it_range")) { o = iter_init(vR); wantT = Int; wantcls = "stack"; }
      /* a HEAP Range that has lived through collections: the cursor object it hands out is its own, still alive and an Int */
      else if (!strcmp(how, "it_hrange")) { keep1 = new(Range, $I(3)); for (int q = 0; q < 4000; q++) { volatile var g = new(Float, $F(q)); g = NULL; } o = iter_init(keep1); wantT = Int; wantcls = "heap"; reg = 1; }
      /* a copy of a plain object (its type has no Assign and no Copy instance of its own): a managed heap object like any other copy */
      else if (!strcmp(how, "copyplain")) { o = copy($(Odd, "elevenchars")); wantT = Odd; reg = 1; }
      else if (!strcmp(how, "it_slice")) { o = iter_last(vS); wantT = Int; wantcls = "data"; }
      else if (!strcmp(how, "it_zip"))   { o = iter_init(vZ); wantT = Tuple; wantcls = "stack"; }
      else if (!strcmp(how, "it_map"))   { o = iter_init(vM); wantT = Int; wantcls = "data"; }
      else if (!strcmp(how, "rtinst"))   { o = new(rtT); wantT = rtT; reg = 1; }
      else { fprintf(stderr, "unknown how %s\n", how); return 9; }
    } catch (e) { hc_exc = hc_caught(e); }
    if (!hc_exc[0]) hc_msg[0] = 0;
    var tt = (o && !hc_exc[0]) ? type_of(o) : NULL;
    ev_begin("obtain"); ev_str("how", how); ev_str("ty", hc_w[2]); ev_str("exc", hc_exc); ev_str("msg", hc_msg);
    ev_str("type", tt ? c_str(tt) : "?"); ev_str("wanttype", wantT ? c_str(wantT) : "?");
    ev_int("alloc", (o && !hc_exc[0]) ? (long long)(intptr_t)header(o)->alloc : 0); ev_str("wantcls", wantcls); ev_int("reg", reg);
    int us = (o && !hc_exc[0] && tt == wantT) ? usable(o, tt) : 0;
    if (us && keep1 && (!strcmp(how, "aelem") || !strcmp(how, "f_aelem") || !strcmp(how, "lelem") || !strcmp(how, "it_array"))) {
      /* writing every byte of this element (the middle one of three) must not touch its neighbours on either side */
      var nb = get(keep1, $I(0)), nc = get(keep1, $I(2)); size_t n = size(tt) <= 64 ? size(tt) : 64;
      unsigned char a[64], c[64], save[64]; memcpy(a, nb, n); memcpy(c, nc, n); memcpy(save, o, n);
      memset(o, 0x5C, n);
      if (memcmp(a, nb, n) != 0 || header(nb)->type != tt || memcmp(c, nc, n) != 0 || header(nc)->type != tt) us = 0;
      memcpy(o, save, n);
    }
    if (us && keep1 && strlen(how) == 6 && how[1] == '_') {
      /* writing every byte of this key / value must not touch the other half of the binding */
      var nb = how[3] == 'k' ? get(keep1, o) : iter_init(keep1); var nbT = Tiny; size_t n = size(tt) <= 64 ? size(tt) : 64;
      unsigned char a0 = *(unsigned char*)nb, save[64]; memcpy(save, o, n);
      memset(o, 0x5C, n);
      if (*(unsigned char*)nb != a0 || type_of(nb) != nbT || header(nb)->alloc != (var)AllocData) us = 0;
      memcpy(o, save, n);
    }
    ev_int("usable", us);
    ev_int("ingc", (o && !hc_exc[0]) ? (mem(current(GC), o) ? 1 : 0) : 0);
    ev_int("line", cur_line); ev_end();
    if (!o || hc_exc[0]) continue;
    /* disposing operations */
    for (int k = 3; k < hc_nw; k++) {
      const char* op = hc_w[k];
      size_t n = size(tt) <= 256 ? size(tt) : 256;
      unsigned char before[256]; memcpy(before, o, n);
      char sbefore[64] = ""; if (tt == String && ((struct String*)o)->val) strncpy(sbefore, c_str(o), 63);
      long lbefore = (tt == Tuple || tt == String || tt == Array) ? (long)len(o) : 0;
      long long fin0 = led_retired_total + half_fin;
      watch = (char*)o - sizeof(struct Header); freed = 0; int clsok = 1;
      if      (!strcmp(op, "del"))         HC_TRY(del(o));
      else if (!strcmp(op, "del_raw"))     HC_TRY(del_raw(o));
      else if (!strcmp(op, "del_root"))    HC_TRY(del_root(o));
      else if (!strcmp(op, "dealloc"))     HC_TRY(dealloc(o));
      else if (!strcmp(op, "dealloc_raw")) HC_TRY(dealloc_raw(o));
      else if (!strcmp(op, "dealloc_root")) HC_TRY(dealloc_root(o));
      else if (!strcmp(op, "resize"))      HC_TRY(resize(o, (tt == Tuple && len(o) > 0) ? len(o) - 1 : 1));      /* a Tuple only shrinks, and strictly */
      else if (!strcmp(op, "assign"))      HC_TRY(assign(o, tt == String ? (var)$S("xy") : tt == Tuple ? (var)tuple($I(4)) : (var)$I(1)));
      else if (!strcmp(op, "assignin"))    HC_TRY(assign(o, tt == String ? (var)$S(c_str(o) + (c_str(o)[0] ? 1 : 0)) : (var)$I(1)));      /* the source lies inside the target's own characters */
      else if (!strcmp(op, "concatself"))  HC_TRY(concat(o, o));                       /* the object itself as the argument */
      else if (!strcmp(op, "concat"))      HC_TRY(concat(o, tt == String ? (var)$S("zz") : (var)tuple($I(4))));
      else if (!strcmp(op, "append"))      HC_TRY(append(o, $S("q")));
      else if (!strcmp(op, "printto"))     HC_TRY(print_to(o, 0, "%s-%i", $S("zz"), $I(7)));
      else if (!strcmp(op, "lookfrom"))    HC_TRY(look_from(o, $S("\"xyz\""), 0));
      else if (!strcmp(op, "lookempty"))   HC_TRY(look_from(o, $S("\"\""), 0));
      else if (!strcmp(op, "scanshow"))    HC_TRY(scan_from($S("\"pq\" 5"), 0, "%$ %i", o, $I(0)));
      else if (!strcmp(op, "push"))        HC_TRY(push(o, $I(4)));
      else if (!strcmp(op, "pop"))         HC_TRY(pop(o));
      else if (!strcmp(op, "popat"))       HC_TRY(pop_at(o, $I(0)));
      else if (!strcmp(op, "swapstack") || !strcmp(op, "swapheap")) {
        /* swap with an object of the same type from ANOTHER storage class: the values change places, the objects stay what they
           were (a heap object remains releasable, a stack object remains refused) */
        if (tt == Int || tt == Float || tt == Half || tt == Odd || tt == Tiny) {
          size_t sz = size(tt); char* buf = calloc(1, sizeof(struct Header) + sz + 8);
          var pcls = op[4] == 's' ? (var)AllocStack : (var)AllocHeap;
          var pt = header_init(buf, tt, (int)(intptr_t)pcls); memset(pt, 0x11, sz);
          var a0 = header(o)->alloc;
          HC_TRY(swap(o, pt));
          clsok = header(o)->alloc == a0 && header(pt)->alloc == pcls && header(o)->type == tt && header(pt)->type == tt;
          free(buf);
        } else hc_exc = "";
      }
      else { fprintf(stderr, "unknown dispose op %s\n", op); return 9; }
      int wasfreed = freed; watch = NULL;
      int same = 0;
      if (!wasfreed) {
        same = memcmp(before, o, n) == 0;
        if (tt == String && ((struct String*)o)->val) same = same && !strcmp(sbefore, c_str(o));
        if (tt == Tuple || tt == Array) same = same && lbefore == (long)len(o);
      }
      ev_begin("dispose"); ev_str("how", how); ev_str("what", op); ev_str("exc", hc_exc); ev_str("msg", hc_msg);
      ev_int("freed", wasfreed); ev_int("same", same); ev_int("clsok", clsok); ev_int("fin", led_retired_total + half_fin - fin0); ev_int("line", cur_line); ev_end();
      if (wasfreed) break;
    }
    keep1 = NULL; keep2 = NULL;
  }
  ev_begin("end"); ev_end(); ev_flush();
  return 0;
}
