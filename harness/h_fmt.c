/* h_fmt.c - print_to against the C library (C14) and show/look, print/scan round trips (C15).
 *   reset
 *   print <S|F> <start> [drop<k>] <seg>...
 *        seg: L<hex>  literal text (no '%')      P  "%%"
 *             C<spechex>,<I|F|S|P>,<value>        a conversion specification with its argument
 *             W<I|F|S>,<value>                     %$ with a scalar      WA,<ints>  %$ with an Array of Int  WL,..  List  WT,..  Table(Int,Int) k:v pairs
 *        drop<k>: pass only the first k arguments (too few -> FormatError)
 *   rt <S|F> <pos> <I|F|S> <value>                 show_to at pos, then look_from at pos into a fresh object
 *   ps <S|F> <pos> <spec> <I|F> <n> <values>       print_to each value with "<spec> ", then scan_from them back
 *   sio <modes> <I|F|S> <value> ...                one line per value through the stdout / stdin entry points: println("%$") (p: print("%$\n")),
 *                                                  read back by  l scanln("%$")   k look() + scanln("")   s scan("%$") + scanln("")
 * Expected renderings of the conversions come from snprintf with the same specification (the C library is the oracle).
 */
#include "hc.h"

/* a type WITHOUT a Show instance: %$ falls back to the generic "<'Type' At 0x...>" text */
struct Plain { int64_t v; };
static var Plain = Cello(Plain);

static char dir[600];
static void bytes_key(const char* k, const char* s, size_t n) { ev_key(k); ev_s("["); for (size_t i = 0; i < n; i++) { if (i) ev_s(","); ev_i((unsigned char)s[i]); } ev_s("]"); }
static void raw_int(const char* k, int64_t v) { ev_limbs(k, (uint64_t)v); }
static void raw_flt(const char* k, double d) { uint64_t u; memcpy(&u, &d, 8); ev_limbs(k, u); }

static size_t unhex(const char* h, char* out, size_t cap) { size_t n = hc_unhex(h, (unsigned char*)out, cap - 1); out[n] = 0; return n; }

/* sinks: a String pre-filled with digits, or a File with the same content */
static int stale_sink;           /* the File sink is write-only and has a failed (caught) read behind it: stdio's error flag is set */
static var sink_make(int isfile, const char* pre) {
  if (!isfile) return new_raw(String, $S((char*)pre));
  char p[700]; snprintf(p, sizeof p, "%s/sink", dir);
  var f = new_raw(File, $S(p), $S(stale_sink ? "wb" : "w+b"));
  swrite(f, (void*)pre, strlen(pre));
  if (stale_sink) { char c; try { sread(f, &c, 1); } catch (e) { } }
  return f;
}
static size_t sink_read(int isfile, var s, char* out, size_t cap) {
  if (!isfile) { size_t n = strlen(c_str(s)); if (n >= cap) n = cap - 1; memcpy(out, c_str(s), n); out[n] = 0; return n; }
  if (stale_sink) {               /* write-only: read the file through a stream of its own */
    sflush(s); char p[700]; snprintf(p, sizeof p, "%s/sink", dir);
    FILE* g = fopen(p, "rb"); size_t n = g ? fread(out, 1, cap - 1, g) : 0; if (g) fclose(g); out[n] = 0; return n;
  }
  sflush(s); long cur = (long)stell(s);
  sseek(s, 0, SEEK_SET);
  size_t n = fread(out, 1, cap - 1, ((struct File*)s)->file); out[n] = 0;
  sseek(s, cur, SEEK_SET);
  return n;
}

static char fmt[8192], outb[1 << 16], tmp[8192];

/* a number type of the program's own that can be read both ways (C_Int and C_Float instances): an integer conversion prints its
   integer value, a floating conversion its floating value - whichever was asked of it first */
struct Both { int64_t i; double d; };
static int64_t Both_C_Int(var self) { return ((struct Both*)self)->i; }
static double Both_C_Float(var self) { return ((struct Both*)self)->d; }
var Both = Cello(Both, Instance(C_Int, Both_C_Int), Instance(C_Float, Both_C_Float));
/* a type that implements Show AND a class of the program's own whose name merely starts with "Show" (listed first): %$ writes
   what its Show instance writes */
struct ShowHex { int (*showhex)(var, var, int); };
var ShowHex = Cello(ShowHex);
struct Colour { int64_t v; };
static int Colour_ShowHex(var self, var out, int pos) { return print_to(out, pos, "#%lx", $I(((struct Colour*)self)->v)); }
static int Colour_Show(var self, var out, int pos) { return print_to(out, pos, "rgb(%li)", $I(((struct Colour*)self)->v)); }
var Colour = Cello(Colour, Instance(ShowHex, Colour_ShowHex), Instance(Show, Colour_Show, NULL));
/* a type whose size (12 bytes) is not a multiple of the pointer size, with a Show instance of its own: containers round its slot */
struct Tri12 { int32_t a, b, c; };
static int Tri12_Show(var self, var out, int pos) { struct Tri12* t = self; return print_to(out, pos, "tri(%li/%li)", $I(t->a), $I(t->c)); }
var Tri12 = Cello(Tri12, Instance(Show, Tri12_Show, NULL));
/* a value type wider than an Int (24 bytes) with a Show instance: maps whose key and value sizes differ, shown */
struct Wide24 { int64_t v; int64_t pad[2]; };
static int Wide24_Show(var self, var out, int pos) { return print_to(out, pos, "w(%li)", $I(((struct Wide24*)self)->v)); }
var Wide24 = Cello(Wide24, Instance(Show, Wide24_Show, NULL));
static var mkarg(char kind, const char* v) {
  if (kind == 'B') { struct Both* b = alloc_raw(Both); b->i = strtoll(v, NULL, 10); b->d = (double)b->i + 0.25; return b; }
  if (kind == 'I') return new_raw(Int, $I(strtoll(v, NULL, 10)));
  if (kind == 'F') { uint64_t b = strtoull(v, NULL, 16); double d; memcpy(&d, &b, 8); return new_raw(Float, $F(d)); }
  if (kind == 'S') { static char b[4096]; unhex(v, b, sizeof b); return new_raw(String, $S(b)); }
  return new_raw(Int, $I(1));
}

int main(int argc, char** argv) {
  if (argc < 2) { fprintf(stderr, "usage: h_fmt script [out]\n"); return 9; }
  FILE* f = fopen(argv[1], "r"); if (!f) { perror(argv[1]); return 9; }
  if (argc > 2) { ev_fd = open(argv[2], O_WRONLY | O_CREAT | O_TRUNC, 0644); if (ev_fd < 0) { perror(argv[2]); return 9; } }
  hc_install(0);
  { /* scratch files live next to the event log (the check's private work directory), never directly in /tmp */
    const char* base = argc > 2 ? argv[2] : "."; const char* sl = strrchr(base, '/');
    snprintf(dir, sizeof dir, "%.*s/hfmt_XXXXXX", sl ? (int)(sl - base) : 1, sl ? base : ".");
    if (!mkdtemp(dir)) return 9; }
  while (hc_next(f)) {
    alarm(30);
    if (hc_is(0, "reset")) { if (cur_exec > 0) { ev_begin("end"); ev_end(); } cur_exec++; ev_begin("reset"); ev_end(); continue; }
    int isfile = hc_w[1][0] == 'F';
    if (hc_is(0, "print")) {
      int start = (int)hc_int(2);
      const char* pre = "0123456789";
      var args[64]; int na = 0, nconv = 0, drop = -1, showbad = 0;
      char* parts[128]; size_t plen[128]; int isconv[128]; int np = 0;
      fmt[0] = 0;
      for (int i = 3; i < hc_nw && np < 120; i++) {
        char* w = hc_w[i];
        if (!strncmp(w, "drop", 4)) { drop = atoi(w + 4); continue; }
        if (!strcmp(w, "stale")) { stale_sink = isfile; continue; }
        if (w[0] == 'L') { size_t n = unhex(w + 1, tmp, sizeof tmp); strcat(fmt, tmp); parts[np] = strdup(tmp); plen[np] = n; isconv[np] = 0; np++; }
        else if (w[0] == 'P') { strcat(fmt, "%%"); parts[np] = strdup("%"); plen[np] = 1; isconv[np] = 0; np++; }
        else if (w[0] == 'C') {
          char* c1 = strchr(w, ','); *c1 = 0; char kind = c1[1]; char* val = c1 + 3;
          char spec[256]; unhex(w + 1, spec, sizeof spec); strcat(fmt, spec);
          var a = mkarg(kind, val); args[na++] = a; nconv++;
          char r[16384]; int n = 0;
          int fconv = spec[0] && strchr("fFeEgGaA", spec[strlen(spec) - 1]) != NULL;
          if (kind == 'B') n = fconv ? (strchr(spec, 'L') ? snprintf(r, sizeof r, spec, (long double)((struct Both*)a)->d) : snprintf(r, sizeof r, spec, ((struct Both*)a)->d))
                                     : snprintf(r, sizeof r, spec, ((struct Both*)a)->i);
          else if (kind == 'I') n = snprintf(r, sizeof r, spec, c_int(a));            /* the value exactly as print_to hands it to the C library */
          else if (kind == 'F') n = strchr(spec, 'L') ? snprintf(r, sizeof r, spec, (long double)c_float(a)) : snprintf(r, sizeof r, spec, c_float(a));
          else if (kind == 'S') n = snprintf(r, sizeof r, spec, c_str(a));
          else n = snprintf(r, sizeof r, spec, a);
          if (n < 0) n = 0; if (n >= (int)sizeof r) n = sizeof r - 1;
          parts[np] = malloc((size_t)n + 1); memcpy(parts[np], r, (size_t)n + 1); plen[np] = (size_t)n; isconv[np] = 1; np++;
        } else if (w[0] == 'W') {
          strcat(fmt, "%$"); nconv++;
          var a = NULL;
          if (w[1] == 'A' || w[1] == 'L' || w[1] == 'T') {
            a = w[1] == 'A' ? (var)new_raw(Array, Int) : w[1] == 'L' ? (var)new_raw(List, Int) : (var)new_raw(Table, Int, Int);
            char* p = strchr(w, ','); int k = 0; int64_t key = 0;
            while (p && p[1]) { int64_t v = strtoll(p + 1, &p, 10); if (w[1] == 'T') { if (k % 2) set(a, $I(key), $I(v)); else key = v; k++; } else push(a, $I(v)); if (*p != ',') break; }
          } else if (w[1] == 'U' || w[1] == 'D') {      /* heap Tuple of Ints; D: the FIRST object appears again at the end */
            a = new_raw(Tuple);
            char* p = strchr(w, ','); var first = NULL;
            while (p && p[1]) { int64_t v = strtoll(p + 1, &p, 10); var e = new_raw(Int, $I(v)); if (!first) first = e; push(a, e); if (*p != ',') break; }
            if (w[1] == 'D' && first) push(a, first);
          } else if (w[1] == 'M' || w[1] == 'm') {      /* a Tree (M) / Table (m) of Int -> Wide24: key:value pairs, the value 24 bytes wide */
            a = w[1] == 'M' ? (var)new_raw(Tree, Int, Wide24) : (var)new_raw(Table, Int, Wide24);
            char* p = strchr(w, ','); int k = 0; int64_t key = 0;
            while (p && p[1]) { int64_t v = strtoll(p + 1, &p, 10); if (k % 2) set(a, $I(key), $(Wide24, v, {7, 7})); else key = v; k++; if (*p != ',') break; }
          } else if (w[1] == 'V' || w[1] == 'v') {      /* a Slice over a Table (V) / a Tree (v) of Int -> Int: shown as the list of the keys it yields */
            var tb = w[1] == 'V' ? (var)new(Table, Int, Int) : (var)new(Tree, Int, Int);
            char* p = strchr(w, ','); int k = 0; int64_t key = 0;
            while (p && p[1]) { int64_t v = strtoll(p + 1, &p, 10); if (k % 2) set(tb, $I(key), $I(v)); else key = v; k++; if (*p != ',') break; }
            a = new(Slice, tb);
          } else if (w[1] == 'R') {                     /* a Range start,stop,step: shown as the list of the values it yields (64-bit Ints) */
            char* p = strchr(w, ','); int64_t v[3] = {0, 0, 1}; int k = 0;
            while (p && p[1] && k < 3) { v[k++] = strtoll(p + 1, &p, 10); if (*p != ',') break; }
            a = new(Range, $I(v[0]), $I(v[1]), $I(v[2]));          /* (managed: a raw Range loses its helper objects to the collector - open finding F-C06-raw-view-helpers) */
          } else if (w[1] == 'C') {                     /* a Colour (see above) */
            a = alloc_raw(Colour); ((struct Colour*)a)->v = strtoll(w + 3, NULL, 10);
          } else if (w[1] == 'Z') {                     /* no object at all: shown as <NULL> */
            a = NULL;
          } else if (w[1] == 'Y') {                     /* a Type object (shown by its name) */
            var ts[] = { Int, Float, String, Array, List, Table, Tree, Tuple, Ref, Box, Type, File, Range, Function };
            a = Int; for (size_t q = 0; q < sizeof ts / sizeof ts[0]; q++) if (!strcmp(c_str(ts[q]), w + 3)) a = ts[q];
          } else if (w[1] == 'N') {                     /* an object whose type has no Show instance */
            a = alloc_raw(Plain); ((struct Plain*)a)->v = strtoll(w + 3, NULL, 10);
          } else if (w[1] == 'O' || w[1] == 'o') {      /* an Array (O) / a List (o) of Tri12 (see above) */
            a = w[1] == 'O' ? (var)new_raw(Array, Tri12) : (var)new_raw(List, Tri12);
            char* p = strchr(w, ',');
            while (p && p[1]) { int64_t v = strtoll(p + 1, &p, 10); struct Tri12* e = $(Tri12, (int32_t)v, (int32_t)(v * 3), (int32_t)(v * 7 + 1)); push(a, e); if (*p != ',') break; }
          } else if (w[1] == 'X') {                     /* an Array of such objects */
            a = new_raw(Array, Plain);
            char* p = strchr(w, ',');
            while (p && p[1]) { int64_t v = strtoll(p + 1, &p, 10); struct Plain* e = $(Plain, v); push(a, e); if (*p != ',') break; }
          } else a = mkarg(w[1], w + 3);
          args[na++] = a;
          var t = new_raw(String, $S("")); HC_TRY(show_to(a, t, 0)); if (hc_exc[0]) showbad++;      /* (a show that raises is a wrong show, not the end of the run) */
          if (w[1] == 'C') { char want[64]; snprintf(want, sizeof want, "rgb(%ld)", (long)((struct Colour*)a)->v); if (strcmp(want, c_str(t)) != 0) showbad++; }
          parts[np] = strdup(c_str(t)); plen[np] = strlen(c_str(t)); isconv[np] = 1; np++;
          /* a container's text is not taken on trust: it must contain its elements' own show texts, each once, in iteration
             order, joined the way that container kind joins them (built here from foreach + show of every element) */
          if (w[1] == 'A' || w[1] == 'L' || w[1] == 'T' || w[1] == 'U' || w[1] == 'X' || w[1] == 'O' || w[1] == 'o' || w[1] == 'R' || w[1] == 'V' || w[1] == 'v' || w[1] == 'M' || w[1] == 'm') {
            static char body[1 << 16]; size_t bl = 0; int first = 1; size_t cnt = 0, lim = len(a) + 2;
            int ismap = w[1] == 'T' || w[1] == 'M' || w[1] == 'm';
            const char* open_ = ismap ? "{" : w[1] == 'U' ? "(" : "[";  const char* close_ = ismap ? "}" : w[1] == 'U' ? ")" : "]";
            bl += (size_t)snprintf(body + bl, sizeof body - bl, "%s", open_);
            foreach (e in a) {                          /* every element shown on its own, at position 0 of a fresh String */
              if (cnt++ > lim) break;
              var es = new_raw(String, $S("")); show_to(e, es, 0);
              bl += (size_t)snprintf(body + bl, sizeof body - bl, "%s%s", first ? "" : ", ", c_str(es)); del_raw(es);
              first = 0;
              if (ismap) { var vs = new_raw(String, $S("")); show_to(get(a, e), vs, 0); bl += (size_t)snprintf(body + bl, sizeof body - bl, ":%s", c_str(vs)); del_raw(vs); }
              if (bl > sizeof body - 8192) break;
            }
            bl += (size_t)snprintf(body + bl, sizeof body - bl, "%s", close_);
            if (!strstr(c_str(t), body) || cnt != len(a)) showbad++;
          }
          if (w[1] == 'D') {        /* one object twice in the Tuple (iteration by foreach is the open finding F-C04-tuple-dup): item by item */
            static char body[1 << 15]; size_t bl = 0; var* items = ((struct Tuple*)a)->items;
            bl += (size_t)snprintf(body + bl, sizeof body - bl, "(");
            for (size_t q = 0; items && items[q] != Terminal && bl < sizeof body - 64; q++) {
              var es = new_raw(String, $S("")); show_to(items[q], es, 0);
              bl += (size_t)snprintf(body + bl, sizeof body - bl, "%s%s", q ? ", " : "", c_str(es)); del_raw(es);
            }
            bl += (size_t)snprintf(body + bl, sizeof body - bl, ")");
            if (!strstr(c_str(t), body)) showbad++;
          }
          del_raw(t);
        }
      }
      int pass = (drop >= 0 && drop < na) ? drop : na;
      args[pass] = Terminal;
      struct Tuple tup = { args };
      var targs = header_init(malloc(sizeof(struct Header) + sizeof(struct Tuple)), Tuple, AllocStack); memcpy(targs, &tup, sizeof tup);
      var s = sink_make(isfile, pre);
      volatile int ret = -1;
      HC_TRY(ret = print_to_with(s, start, fmt, targs));
      size_t on = sink_read(isfile, s, outb, sizeof outb);
      ev_begin("print"); ev_str("sink", isfile ? "F" : "S"); ev_int("start", start); bytes_key("pre", pre, strlen(pre));
      ev_key("parts"); ev_s("["); for (int i = 0; i < np; i++) { if (i) ev_s(","); ev_s("["); for (size_t k = 0; k < plen[i]; k++) { if (k) ev_s(","); ev_i((unsigned char)parts[i][k]); } ev_s("]"); } ev_s("]");
      { long long ic[128]; for (int i = 0; i < np; i++) ic[i] = isconv[i]; ev_ints("isconv", ic, (size_t)np); }
      ev_int("showbad", showbad); bytes_key("out", outb, on); ev_int("ret", ret); ev_str("exc", hc_exc); ev_str("msg", hc_msg); ev_int("nargs", pass); ev_int("nconv", nconv);
      bytes_key("fmt", fmt, strlen(fmt)); ev_int("line", cur_line); ev_end();
      HC_TRY(del_raw(s)); for (int i = 0; i < np; i++) free(parts[i]);
      stale_sink = 0;
      continue;
    }
    if (hc_is(0, "sio")) {
      const char* modes = hc_w[1]; int n = (hc_nw - 2) / 2; if (n > 40) n = 40;
      char path[700]; snprintf(path, sizeof path, "%s/stdio", dir);
      var vs[40]; int wrote[40]; const char* wexc = ""; char wm[160] = "";
      fflush(stdout); int saved = dup(1);
      if (!freopen(path, "w", stdout)) return 9;
      for (int i = 0; i < n; i++) {
        vs[i] = mkarg(hc_w[2 + 2 * i][0], hc_w[3 + 2 * i]); volatile int r = -1;
        if (modes[i % strlen(modes)] == 'p') HC_TRY(r = print("%$\n", vs[i])); else HC_TRY(r = println("%$", vs[i]));
        if (hc_exc[0] && !wexc[0]) { wexc = hc_exc; strcpy(wm, hc_msg); }
        wrote[i] = r;
      }
      fflush(stdout); dup2(saved, 1); close(saved);
      size_t on = 0; { FILE* g = fopen(path, "rb"); if (g) { on = fread(outb, 1, sizeof outb - 1, g); fclose(g); } outb[on] = 0; }
      if (!freopen(path, "r", stdin)) return 9;
      size_t off = 0;
      for (int i = 0; i < n; i++) {
        char kind = hc_w[2 + 2 * i][0], m = modes[i % strlen(modes)];
        var back = kind == 'I' ? (var)new_raw(Int, $I(-12345)) : kind == 'F' ? (var)new_raw(Float, $F(-1.25)) : (var)new_raw(String, $S("?"));
        long t0 = ftell(stdin); const char* e2 = ""; char m2[160] = "";
        if (!wexc[0]) {
          if (m == 'k') { HC_TRY(look(back)); if (!hc_exc[0]) HC_TRY(scanln("")); }
          else if (m == 's') { HC_TRY(scan("%$", back)); if (!hc_exc[0]) HC_TRY(scanln("")); }
          else HC_TRY(scanln("%$", back));
          e2 = hc_exc; strcpy(m2, hc_msg);
        }
        long t1 = ftell(stdin);
        char* txt = outb + (off < on ? off : on); size_t tl = wrote[i] > 0 && off + (size_t)wrote[i] <= on ? (size_t)wrote[i] : 0;
        ev_begin("round"); ev_str("via", "stdio"); ev_str("sink", "F"); ev_str("kind", kind == 'I' ? "I" : kind == 'F' ? "F" : "S");
        if (kind == 'I') { raw_int("v", c_int(vs[i])); raw_int("back", c_int(back)); raw_int("denoted", strtoll(txt, NULL, 10)); }
        else if (kind == 'F') { raw_flt("v", c_float(vs[i])); raw_flt("back", c_float(back)); raw_flt("denoted", strtod(txt, NULL)); }
        else { bytes_key("v", c_str(vs[i]), strlen(c_str(vs[i]))); bytes_key("back", c_str(back), strlen(c_str(back))); bytes_key("denoted", c_str(vs[i]), strlen(c_str(vs[i]))); }
        ev_int("wrote", wrote[i]); ev_int("consumed", (long long)(t1 - t0)); bytes_key("text", txt, tl);
        ev_str("exc", wexc[0] ? wexc : e2); ev_str("msg", wexc[0] ? wm : m2); ev_int("line", cur_line); ev_end();
        off += tl; del_raw(back);
      }
      for (int i = 0; i < n; i++) del_raw(vs[i]);
      if (!freopen("/dev/null", "r", stdin)) return 9;
      unlink(path);
      continue;
    }
    if (hc_is(0, "rt") || hc_is(0, "ps")) {
      int pos0 = (int)hc_int(2);
      char pre[64]; int pl = pos0 < 60 ? pos0 : 60; memset(pre, '#', (size_t)pl); pre[pl] = 0;
      var s = sink_make(isfile, pre);
      if (hc_is(0, "rt")) {
        char kind = hc_w[3][0]; var v = mkarg(kind, hc_w[4]);
        volatile int p1 = -1, p2 = -1;
        HC_TRY(p1 = show_to(v, s, pos0));
        const char* e1 = hc_exc; char m1[160]; strcpy(m1, hc_msg);
        size_t on = sink_read(isfile, s, outb, sizeof outb);
        /* the destination: a heap object, or (word 5 = elem) an element living inside an Array */
        int elem = hc_nw > 5 && hc_is(5, "elem"); var holder = NULL;
        var back = kind == 'I' ? (var)new_raw(Int, $I(-12345)) : kind == 'F' ? (var)new_raw(Float, $F(-1.25)) : (var)new_raw(String, $S("?"));
        if (elem) { holder = new_raw(Array, type_of(back), back, back); del_raw(back); back = get(holder, $I(1)); }
        if (isfile) sseek(s, pos0, SEEK_SET);
        const char* e2 = "";
        if (!e1[0]) { HC_TRY(p2 = look_from(back, s, pos0)); e2 = hc_exc; }
        ev_begin("round"); ev_str("via", "show"); ev_str("sink", isfile ? "F" : "S"); ev_str("kind", kind == 'I' ? "I" : kind == 'F' ? "F" : "S");
        if (kind == 'I') { raw_int("v", c_int(v)); raw_int("back", c_int(back)); raw_int("denoted", strtoll(outb + pos0, NULL, 10)); }
        else if (kind == 'F') { raw_flt("v", c_float(v)); raw_flt("back", c_float(back)); raw_flt("denoted", strtod(outb + pos0, NULL)); }
        else { bytes_key("v", c_str(v), strlen(c_str(v))); bytes_key("back", c_str(back), strlen(c_str(back))); bytes_key("denoted", c_str(v), strlen(c_str(v))); }
        ev_int("wrote", p1 - pos0); ev_int("consumed", p2 - pos0); bytes_key("text", outb + (on < (size_t)pos0 ? on : (size_t)pos0), on < (size_t)pos0 ? 0 : on - (size_t)pos0);
        ev_str("exc", e1[0] ? e1 : e2); ev_str("msg", e1[0] ? m1 : hc_msg); ev_int("line", cur_line); ev_end();
        del_raw(v); if (holder) del_raw(holder); else del_raw(back);
      } else {
        /* <spec> or <spec>|<sephex> : the conversion and the separator that follows every value (default: one blank) */
        char spec[96]; { char conv[40]; char sep[24] = " "; snprintf(conv, sizeof conv, "%s", hc_w[3]); char* bar = strchr(conv, '|');
          if (bar) { *bar = 0; unhex(bar + 1, sep, sizeof sep); }
          snprintf(spec, sizeof spec, "%%%s%s", conv, sep); }
        char convonly[40]; snprintf(convonly, sizeof convonly, "%s", hc_w[3]); { char* bar = strchr(convonly, '|'); if (bar) *bar = 0; }
        char kind = hc_w[4][0]; int n = (int)hc_int(5);
        var vs[64]; int pos = pos0; int posw[65]; const char* exc = ""; char m1[160] = "";
        for (int i = 0; i < n && i < 60; i++) { vs[i] = mkarg(kind, hc_w[6 + i]); posw[i] = pos; volatile int p = pos; HC_TRY(p = print_to(s, pos, spec, vs[i])); if (hc_exc[0] && !exc[0]) { exc = hc_exc; strcpy(m1, hc_msg); } pos = p; }
        posw[n] = pos;
        size_t on = sink_read(isfile, s, outb, sizeof outb);
        if (isfile) sseek(s, pos0, SEEK_SET);
        pos = pos0;
        for (int i = 0; i < n && i < 60; i++) {
          var back = kind == 'I' ? (var)new_raw(Int, $I(-12345)) : (var)new_raw(Float, $F(-1.25));
          volatile int p = pos; const char* e2 = "";
          if (!exc[0]) { HC_TRY(p = scan_from(s, pos, spec, back)); e2 = hc_exc; }
          ev_begin("round"); ev_str("via", "print"); ev_str("sink", isfile ? "F" : "S"); ev_str("kind", kind == 'I' ? "I" : "F");
          char* txt = outb + (posw[i] < (int)on ? posw[i] : (int)on);
          if (kind == 'I') { raw_int("v", c_int(vs[i])); raw_int("back", c_int(back)); raw_int("denoted", strcmp(convonly, "$") && strchr(convonly, 'u') ? (int64_t)strtoull(txt, NULL, 10) : strtoll(txt, NULL, 10)); }
          else { raw_flt("v", c_float(vs[i])); raw_flt("back", c_float(back));
                 /* without an l the conversion reads a C float: the value the text denotes in single precision */
                 raw_flt("denoted", (strcmp(convonly, "$") && !strchr(convonly, 'l') && !strchr(convonly, 'L')) ? (double)strtof(txt, NULL) : strtod(txt, NULL)); }
          ev_int("wrote", posw[i + 1] - posw[i]); ev_int("consumed", p - pos);
          bytes_key("text", txt, (size_t)(posw[i + 1] - posw[i] > 0 && posw[i + 1] <= (int)on ? posw[i + 1] - posw[i] : 0));
          ev_str("exc", exc[0] ? exc : e2); ev_str("msg", exc[0] ? m1 : hc_msg); ev_int("line", cur_line); ev_end();
          pos = p; del_raw(back);
        }
      }
      HC_TRY(del_raw(s));
      continue;
    }
    fprintf(stderr, "unknown op %s\n", hc_w[0]); return 9;
  }
  ev_begin("end"); ev_end(); ev_flush();
  char p[700]; snprintf(p, sizeof p, "%s/sink", dir); unlink(p); rmdir(dir);
  return 0;
}
