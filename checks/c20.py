#!/usr/bin/env python3
"""C20 - File streams round-trip data and refuse use when closed.

 1. TLC, exhaustive: FileModel - all orders (<= 6-7 calls) of open (4 modes, reopen without close), write, read (chunk
    sizes 0, 1, 3), seek (every origin, offsets within the file), tell, eof, flush, close (twice), over two paths:
    Balanced (streams opened = closed + open), ClosedRefuses (IOError, nothing changes), ReadsDisk, PosOK.
 2. Every transition of that graph and random histories (byte patterns with NULs, lengths 0 .. 3*BUFSIZ, random
    chunkings and seeks, with-blocks around explicit closes, del, printed integers read back by scan) run on real
    Files in a private directory, fopen/fclose interposed for accounting.
 3. TLC validates every call (FileTrace): bytes read = bytes on the specification's disk, return values, stell / seof
    against the C library's own ftell / feof after every call, IOError on every use of a File that is not open,
    fopen and fclose counts balancing at every step and at the end.
"""
import concurrent.futures, os, sys
sys.path.insert(0, os.path.join(os.path.dirname(os.path.abspath(__file__)), "..", "tools"))
import vlib, runner, edgecover

PID = "C20"


def model_exec(path):
    L = ["reset", "new 1"]
    mode = 0
    lastio = None
    for a in path:
        op = a["op"]
        if op == "open":
            L.append("open 1 %d %d" % (a["path"], a["mode"])); mode = a["mode"]; lastio = None
        elif op in ("write", "read"):
            if mode in (3, 4, 6) and lastio and lastio != op:
                L.append("seek 1 0 1")           # ISO C: reposition between reading and writing an update stream
            L.append("write 1 %d %d" % (a["seed"], a["n"]) if op == "write" else "read 1 %d" % a["n"])
            lastio = op
        elif op == "seek":
            L.append("seek 1 %d %d" % (a["off"], a["origin"])); lastio = None
        elif op in ("tell", "eof", "flush", "close"):
            L.append("%s 1" % op)
            if op == "close": mode = 0
    L.append("del 1")
    return L


def random_exec(rng, nops, big):
    L = ["reset"]
    objs = {}            # o -> dict(open, path, mode, pos, lastio)
    size = {1: 0, 2: 0}
    chunks = [0, 1, 3, 7, 64, 300] + ([8192, 9000, 25000] if big else [])
    for _ in range(nops):
        if not objs or (len(objs) < 2 and rng.random() < 0.1):
            o = 1 if 1 not in objs else 2
            if rng.random() < 0.5:
                L.append("new %d" % o); objs[o] = dict(open=False)
            else:
                busy = {v["path"] for v in objs.values() if v.get("open")}
                free = [p for p in (1, 2) if p not in busy]
                if not free:
                    continue
                p = rng.choice(free); m = rng.choice([1, 2, 3, 4, 5, 6])
                L.append("new %d %d %d" % (o, p, m)); objs[o] = dict(open=True, path=p, mode=m, pos=size[p] if m == 5 else 0, lastio=None)
                if m in (2, 4): size[p] = 0
            continue
        o = rng.choice(sorted(objs)); h = objs[o]
        r = rng.random()
        if rng.random() < 0.04:                                          # an open that fails (also over an open stream): the File is closed afterwards
            L.append("open %d 9 %d" % (o, rng.choice([1, 2, 3, 4, 5, 6]))); objs[o] = dict(open=False)
            continue
        if not h["open"]:
            if r < 0.5:
                busy = {v["path"] for v in objs.values() if v.get("open")}
                free = [p for p in (1, 2) if p not in busy]
                if free:
                    p = rng.choice(free); m = rng.choice([1, 2, 3, 4, 4, 5, 6])
                    L.append("open %d %d %d" % (o, p, m)); objs[o] = dict(open=True, path=p, mode=m, pos=size[p] if m == 5 else 0, lastio=None)
                    if m in (2, 4): size[p] = 0
            elif r < 0.6:
                busy = {v["path"] for v in objs.values() if v.get("open")}
                free = [p for p in (1, 2) if p not in busy]
                if free:                                                  # constructed again in place
                    p = rng.choice(free); m = rng.choice([1, 2, 3, 4, 5, 6])
                    L.append("construct %d %d %d" % (o, p, m)); objs[o] = dict(open=True, path=p, mode=m, pos=size[p] if m == 5 else 0, lastio=None)
                    if m in (2, 4): size[p] = 0
            elif r < 0.9:
                L.append(rng.choice(["read %d 3", "write %d 1 3", "tell %d", "eof %d", "flush %d", "close %d", "seek %d 0 0", "bigseek %d 4096 7", "withend %d", "print %d 5", "destruct %d"]) % o)
            else:
                L.append("del %d" % o); del objs[o]
            continue
        p, m = h["path"], h["mode"]
        if r < 0.30 and m != 1:
            n = rng.choice(chunks)
            if m in (3, 4, 6) and h["lastio"] == "read": L.append("seek %d 0 1" % o)
            if m in (5, 6) and n: h["pos"] = size[p]                    # append modes: every write lands at the end
            L.append("write %d %d %d" % (o, rng.randint(1, 5), n)); h["pos"] += n; size[p] = max(size[p], h["pos"]); h["lastio"] = "write"
        elif r < 0.55 and m not in (2, 5):
            n = rng.choice(chunks)
            if m in (3, 4, 6) and h["lastio"] == "write": L.append("seek %d 0 1" % o)
            L.append("read %d %d" % (o, n)); h["pos"] = min(size[p], h["pos"] + n); h["lastio"] = "read"
        elif r < 0.70:
            org = rng.choice([0, 1, 2]); base = [0, h["pos"], size[p]][org]
            tgt = rng.randint(0, size[p]); L.append("seek %d %d %d" % (o, tgt - base, org)); h["pos"] = tgt; h["lastio"] = None
        elif r < 0.72:
            L.append("bigseek %d %d %d" % (o, rng.choice([2047, 2048, 4095, 4096, 4097, 1 << 16]), rng.choice([0, 7, (1 << 20) - 1]))); h["lastio"] = None
        elif r < 0.78:
            L.append(rng.choice(["tell %d", "eof %d", "flush %d"]) % o)
            if L[-1].startswith("flush"): h["lastio"] = None
        elif r < 0.84 and m in (2, 4, 5, 6) and h["lastio"] != "read":
            v = rng.choice([0, 7, 42, 1000, 65535, 2147483647])
            if m in (5, 6): h["pos"] = size[p]
            L.append("print %d %d" % (o, v)); h["pos"] += len(str(v)) + 1; size[p] = max(size[p], h["pos"]); h["lastio"] = "write"
        elif r < 0.87:
            L.append("destruct %d" % o); h["open"] = False             # the object stays, closed
        elif r < 0.90:
            L.append("close %d" % o); h["open"] = False
        elif r < 0.94:
            L.append("withbegin %d" % o)
            if rng.random() < 0.3: L.append("close %d" % o)          # explicit close inside the block: leaving it then raises IOError
            L.append("withend %d" % o); h["open"] = False
        elif r < 0.97:
            busy = {v["path"] for k, v in objs.items() if v.get("open") and k != o}
            free = [q for q in (1, 2) if q not in busy]
            q = rng.choice(free); mm = rng.choice([1, 3, 4, 5, 6])
            L.append("%s %d %d %d" % (rng.choice(["open", "open", "construct"]), o, q, mm)); objs[o] = dict(open=True, path=q, mode=mm, pos=size[q] if mm == 5 else 0, lastio=None)     # reopen without close
            if mm == 4: size[q] = 0
        else:
            L.append("del %d" % o); del objs[o]
    return L


def printz_scan_exec(rng):
    """zero-padded numbers ("%05li ") written to a File and read back through the Int's own look ("%$ ")"""
    vals = [rng.choice([0, 8, 10, 42, 64, 100, 777, 4096, 99999, 123456]) for _ in range(rng.randint(2, 8))]
    return ["reset", "new 1 1 4"] + ["printz 1 %d" % v for v in vals] + ["seek 1 0 0"] + ["scanshow 1" for _ in vals] + ["del 1"]


def printp_scan_exec(rng):
    """numbers followed by a literal per cent sign ("%li%% ") written to a File and read back with the same format"""
    vals = [rng.choice([0, 7, 42, 100, 65535]) for _ in range(rng.randint(2, 6))]
    return ["reset", "new 1 1 4"] + ["printp 1 %d" % v for v in vals] + ["seek 1 0 0"] + ["scanp 1" for _ in vals] + ["tell 1", "del 1"]


def print_scan_exec(rng):
    vals = [rng.choice([0, 1, 9, 10, 255, 65536, 2147483647, 1000000007]) for _ in range(rng.randint(1, 8))]
    L = ["reset", "new 1 1 4"] + ["print 1 %d" % v for v in vals] + ["seek 1 0 0"] + ["scan 1" for _ in vals] + ["close 1", "open 1 1 1"] + ["scan 1" for _ in vals] + ["del 1"]
    return L


def main(tier, replay=None):
    chk = vlib.Check(PID, tier, "model_checking")
    rng, wd = chk.rng, chk.wd
    quick = tier == "quick"
    with concurrent.futures.ThreadPoolExecutor(max_workers=4) as ex:
        f_lib = ex.submit(vlib.build_lib, wd)
        f_exh = ex.submit(vlib.tlc, "FileModel", "File_quick.cfg" if quick else "File_thorough.cfg", wd, 8, "8g", (), None, 3000)
        f_edge = ex.submit(vlib.tlc, "FileModel", "File_edges.cfg", wd, 4, "4g")
        harness = vlib.build_harness(f_lib.result(), ["h_file.c"], os.path.join(wd, "h_file"), ldflags=["-Wl,--wrap=fopen,--wrap=fclose"])
        r_exh, r_edge = f_exh.result(), f_edge.result()
    chk.model(r_exh, "FileModel/exhaustive")
    chk.model(r_edge, "FileModel/File_edges.cfg")
    if not r_exh.ok:
        print("MODEL-DRIFT module=FileModel: %s" % r_exh.invariant, flush=True)
    edges = list(r_edge.lines("EDGE"))
    vlib.require_ops(edges, ("open", "write", "read", "seek", "tell", "eof", "flush", "close"), "FileModel")
    if not any(e["a"]["op"] != "open" and not e["f"][0]["open"] for e in edges):
        raise vlib.ToolError("vacuous: no operation on a closed File in the model graph")
    chk.lap("built + TLC")
    if replay:
        return runner.replay_file(chk, harness, replay, "FileTrace", "FileTrace.cfg", ())
    g = edgecover.Graph(edges)
    init = edges[0]["f"]
    for e in edges:
        if e["f"][2] == 0:
            init = e["f"]; break
    paths, covered, total = g.cover(init, mode="edges", maxlen=8, rng=rng, budget=15000 if quick else None)
    chk.cov["model_edges"], chk.cov["model_edges_replayed"] = total, covered
    camp = runner.Campaign(chk, harness, "FileTrace", "FileTrace.cfg")
    camp.run([], [model_exec(p) for p in paths], "model")
    n = 40 if quick else 600
    camp.run([], [random_exec(rng, rng.choice([30, 80]), False) for _ in range(n)], "random")
    camp.run([], [random_exec(rng, 25, True) for _ in range(6 if quick else 60)], "random/bufsiz")
    camp.run([], [print_scan_exec(rng) for _ in range(10 if quick else 100)] + [printz_scan_exec(rng) for _ in range(6 if quick else 60)] + [printp_scan_exec(rng) for _ in range(4 if quick else 40)], "print-scan")
    # a close that fails (buffered bytes refused by /dev/full): IOError, one fclose, nothing left to close at del
    camp.run([], [["reset", "fullclose"], ["reset", "new 1 1 2", "write 1 1 3", "fullclose", "close 1", "fullclose", "del 1"], ["reset", "procclose2"]], "failing-close", sample=False)
    chk.cov["rule"] = ("an execution = a history of stream calls on real Files (private temp dir); every event carries return value, "
                       "exception, bytes read (or length+sum for large chunks), the C library's ftell/feof of every open stream and the "
                       "fopen/fclose counters; judged by TLC against FileStream; distinct = different history")
    chk.assumptions += ["seek targets lie within the file; a reposition separates reads from writes on update streams (ISO C rule)",
                        "one handle per path at a time; binary modes rb, wb, r+b, w+b, ab, a+b (append: glibc's positions); printed integers are non-negative (signed text "
                        "round trips are C15's subject)"]
    camp.report()
    runner.run_pinned(chk, {})          # open findings of this property: listed, identified by the input each entry describes
    return chk.finish()
