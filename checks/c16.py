#!/usr/bin/env python3
"""C16 - String behaves as a C-string value.

 1. TLC, exhaustive: CStringModel (the byte buffer of src/String.c with its terminator and String_Rem's memmove
    arithmetic transcribed) = the abstract string for all histories over a two-letter alphabet with operands empty,
    equal, prefix, middle, suffix, overlapping and absent; the as-found tail length of String_Rem is refuted.
 2. Every transition of that graph, and random histories with strings up to 1000 bytes over the full byte range, run
    on real heap Strings (assign, concat, append, resize, rem, mem, formatted writes at positions, copy, cmp/eq).
 3. TLC validates every call (CStringTrace): bytes, len, strcmp sign, eq, substring test, first-occurrence removal,
    returned position of formatted writes, terminator inside malloc_usable_size, equal strings hash equally.
"""
import concurrent.futures, os, sys
sys.path.insert(0, os.path.join(os.path.dirname(os.path.abspath(__file__)), "..", "tools"))
import vlib, runner, edgecover

PID = "C16"
hx = lambda b: b.hex() if b else "-"


def model_exec(path, alpha):
    how = "ALTR--"[len(path) % 6]           # the String on its own, or living inside a container (element of an Array / List, value of a Table / Tree)
    L = ["reset", "new 1 -" if how == "-" else "newin 1 %s -" % how]
    tr = lambda t: hx(bytes(alpha[x] for x in t))
    for a in path:
        op = a["op"]
        if op in ("assign", "concat", "rem"):
            L.append("%s 1 %s" % (op, tr(a["t"])))
            if op == "rem":
                L.append("mem 1 %s" % tr(a["t"]))
        elif op == "resize":
            L.append("resize 1 %d" % a["n"])
        elif op == "printat":
            L.append("printat 1 %d %s" % (a["pos"], tr(a["t"])))
    L += ["copy 2 1", "cmp 1 2"]
    return L


def random_exec(rng, nops, maxlen, alphabet):
    def rs(n):
        return bytes(rng.choice(alphabet) for _ in range(rng.randint(0, n)))
    L = ["reset", ("new 1 %s" if rng.random() < 0.6 else "newin 1 " + rng.choice("ALTR") + " %s") % hx(rs(6))]
    cur = {1: b""}                       # contents tracked only to pick interesting operands (substrings, prefixes)
    import re
    for _ in range(nops):
        o = rng.choice(sorted(cur))
        s = cur[o]
        r = rng.random()
        def piece():
            if s and rng.random() < 0.7:
                i = rng.randrange(len(s)); j = rng.randint(i, min(len(s), i + 5))
                return s[i:j]
            return rs(3)
        if r < 0.15:
            t = rs(10); L.append("assign %d %s" % (o, hx(t))); cur[o] = t
        elif r < 0.35 and len(s) < maxlen:
            t = rs(rng.choice([0, 1, 8, 40])); L.append("%s %d %s" % (rng.choice(["concat", "append"]), o, hx(t))); cur[o] = s + t
        elif r < 0.50:
            t = piece(); L.append("rem %d %s" % (o, hx(t)))
            i = s.find(t)
            if i >= 0: cur[o] = s[:i] + s[i + len(t):]
        elif r < 0.60:
            L.append("mem %d %s" % (o, hx(piece())))
        elif r < 0.602:
            k = rng.randrange(3); L.append("cmptype %d %d" % (o, k))
            if rng.random() < 0.5: nm = [b"Int", b"Float", b"Table"][k]; L.append("assign %d %s" % (o, hx(nm))); cur[o] = nm; L.append("cmptype %d %d" % (o, k)); L.append("cmptype %d %d" % (o, (k + 1) % 3))
        elif r < 0.605:
            L.append("remint %d" % o)
        elif r < 0.61:
            L.append("resizehuge %d" % o)
        elif r < 0.70:
            n = rng.choice([0, len(s) // 2, max(len(s) - 1, 0), len(s), len(s) + 7]); L.append("resize %d %d" % (o, n)); cur[o] = s[:n]
        elif r < 0.80:
            pos = rng.randint(0, len(s)); t = rs(6)
            if rng.random() < 0.15 and 2 * len(s) < maxlen: L.append("printself %d %d" % (o, pos)); cur[o] = s[:pos] + s
            elif rng.random() < 0.2: L.append("printnull %d %d %s" % (o, pos, hx(t))); cur[o] = s[:pos] + t + b"<NULL>|" + t
            elif rng.random() < 0.3: L.append("printpct %d %d %s" % (o, pos, hx(t))); cur[o] = s[:pos] + t + b"%" + t + b"|"
            else: L.append("printat %d %d %s" % (o, pos, hx(t))); cur[o] = s[:pos] + t
        elif r < 0.88:
            p = rng.choice([1, 2, 3])
            if p not in cur: L.append("copy %d %d" % (p, o)); cur[p] = s
            elif p != o: L.append("cmp %d %d" % (o, p))
        elif r < 0.93:
            p = rng.choice(sorted(cur))             # another String object as argument - or the target itself
            if len(s) + len(cur[p]) < maxlen:
                q = rng.random()
                if q < 0.3: L.append("%s %d %d" % (rng.choice(["concato", "appendo"]), o, p)); cur[o] = s + cur[p]
                elif q < 0.5: L.append("assigno %d %d" % (o, p)); cur[o] = cur[p]
                elif q < 0.6: L.append("memo %d %d" % (o, p))
                elif q < 0.7:
                    L.append("remo %d %d" % (o, p)); t = cur[p]; i = s.find(t)
                    if i >= 0: cur[o] = s[:i] + s[i + len(t):]
                elif q < 0.85:                      # the argument points into the target's own characters
                    n = rng.choice([0, 0, 1, len(s) // 2, max(len(s) - 1, 0), len(s)]); L.append("concatin %d %d" % (o, n)); cur[o] = s + s[n:]
                else:
                    n = rng.choice([0, 1, len(s) // 2, max(len(s) - 1, 0), len(s)]); L.append("assignin %d %d" % (o, n)); cur[o] = s[n:]
        elif len(cur) > 1:
            L.append("del %d" % o); del cur[o]
    return L


def length_sweep(rng, quick):
    """every operand length across the sizes at which implementations switch strategy (small buffers, powers of two):
    formatted writes, concat, assign, resize and rem with operands of each length"""
    lens = list(range(0, 140)) + [254, 255, 256, 257, 511, 512, 513, 1023, 1024, 1025, 4095, 4096, 4097]
    if not quick:
        lens = list(range(0, 600)) + [1023, 1024, 1025, 2047, 2048, 2049, 4095, 4096, 4097, 8191, 8192, 8193]
    out = []
    for chunk in range(0, len(lens), 25):
        L = ["reset", ("new 1 %s" if chunk % 50 == 0 else "newin 1 " + rng.choice("ALTR") + " %s") % hx(b"seed")]
        for n in lens[chunk:chunk + 25]:
            t = bytes(rng.choice(b"abcdefghijklmnopqrstuvwxyz") for _ in range(n))
            L.append("printat 1 0 %s" % hx(t))
            L.append("printat 1 %d %s" % (min(3, n), hx(t)))
            L.append("concat 1 %s" % hx(b"+"))
            L.append("assign 1 %s" % hx(t)); L.append("concat 1 %s" % hx(t[: n // 2]))
            L.append("resize 1 %d" % n)
            if n:
                L.append("rem 1 %s" % hx(t[: max(1, n // 3)]))
        out.append(L)
    return out


def layout_execs(rng):
    """Heap layouts: a short target whose buffer is directly followed by the buffer of a LONGER argument String (so the argument's
    address lies within 'argument length' bytes behind the target's), and arguments that are views into the second half of the
    target's own characters when the target has to move to grow"""
    out = []
    rs = lambda n: bytes(rng.choice(b"abcdefghijklmnopqrstuvwxyz") for _ in range(n))
    for (a, b) in ((40, 300), (100, 1000), (24, 200), (3000, 3999), (8, 64), (1, 40), (0, 33)):
        for op in ("concato", "appendo"):
            out.append(["reset", "new 1 %s" % hx(rs(a)), "new 2 %s" % hx(rs(b)), "%s 1 2" % op, "cmp 1 2", "%s 2 1" % op, "%s 1 2" % op,
                        "assign 1 %s" % hx(b"Int"), "cmptype 1 0", "cmptype 1 1", "assign 1 %s" % hx(b"Floa"), "cmptype 1 1", "cmptype 1 2"])
    for L0 in (20, 64, 200, 1000):
        for frac in (0.5, 0.6, 0.75, 0.95):
            n = int(L0 * frac) + 1
            # (a second String behind the first: growing the first means moving it)
            out.append(["reset", "new 1 %s" % hx(rs(L0)), "new 2 %s" % hx(rs(50)), "concatin 1 %d" % n, "concatin 1 %d" % (n + 3), "assignin 1 %d" % (L0 // 2 + 2)])
    return out


def main(tier, replay=None):
    chk = vlib.Check(PID, tier, "model_checking")
    rng, wd = chk.rng, chk.wd
    quick = tier == "quick"
    with concurrent.futures.ThreadPoolExecutor(max_workers=4) as ex:
        f_lib = ex.submit(vlib.build_lib, wd)
        f_exh = ex.submit(vlib.tlc, "CStringModel", "CString_quick.cfg" if quick else "CString_thorough.cfg", wd, 6, "6g")
        f_bug = ex.submit(vlib.tlc, "CStringModel", "CString_bug.cfg", wd, 2, "2g")
        harness = vlib.build_harness(f_lib.result(), ["h_str.c"], os.path.join(wd, "h_str"))
        r_exh, r_bug = f_exh.result(), f_bug.result()
    chk.model(r_exh, "CStringModel")
    if not r_exh.ok:
        print("MODEL-DRIFT module=CStringModel: %s" % r_exh.invariant, flush=True)
    if r_bug.ok:
        raise vlib.ToolError("CStringModel does not refute the as-found String_Rem")
    edges = list(r_exh.lines("EDGE"))
    vlib.require_ops(edges, ("assign", "concat", "rem", "resize", "printat"), "CStringModel")
    chk.lap("built + TLC")
    if replay:
        return runner.replay_file(chk, harness, replay, "CStringTrace", "CStringTrace.cfg", ())
    g = edgecover.Graph(edges)
    paths, covered, total = g.cover([], mode="edges", maxlen=40, rng=rng, budget=20000 if quick else None)
    chk.cov["model_edges"], chk.cov["model_edges_replayed"] = total, covered
    camp = runner.Campaign(chk, harness, "CStringTrace", "CStringTrace.cfg")
    camp.run([], [model_exec(p, {1: 0x61, 2: 0x62}) for p in paths], "model/ab")
    camp.run([], [model_exec(p, {1: 0x80, 2: 0xff}) for p in paths[::4]], "model/highbytes")
    full = bytes(range(1, 256))
    n = 160 if quick else 1500
    camp.run([], [random_exec(rng, rng.choice([60, 150]), 1000 if not quick else 300, rng.choice([b"ab", b"ab", b"a\x80\xffz", full]))
                  for _ in range(n)], "random")
    camp.run([], length_sweep(rng, quick), "lengths", sample=False)
    camp.run([], layout_execs(rng), "layouts", sample=False)
    chk.cov["rule"] = ("an execution = a history of String calls on the real library; every event carries the bytes, len, hash and buffer "
                       "capacity of every live String, judged by TLC against the abstract byte sequence; distinct = different history")
    chk.cov["exhaustive"] = covered == total
    chk.assumptions += ["operands are distinct objects from the target (concat/assign of a String with itself is not generated)",
                        "formatted writes use positions within the string"]
    camp.report()
    runner.run_pinned(chk, {})          # open findings of this property: listed, identified by the input each entry describes
    return chk.finish()
