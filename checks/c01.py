#!/usr/bin/env python3
"""C01 - the collector never reclaims a reachable object.

 1. TLC, exhaustive: Heap.tla (mutator + collector of src/GC.c over 3-4 objects of every kind/mode, every root
    kind, Box ownership, every sweep order, conservative retention as nondeterminism): SafeCollect; the design with
    the TLS-marking defect is refuted (non-vacuity).
 2. The model's transitions and random mutator programs (cycles, sharing, self references, containers that grow and
    rehash while referenced, Box chains, forced and threshold collections) run on the real collector with real stack
    slots, new_root holders and TLS entries.
 3. TLC validates every recorded program (HeapTrace, Mode "reach"): whatever a sweep took from the registry was not
    reachable in the specification's heap graph.  Long chains run in a child process: every collection must return.
"""
import os, sys
sys.path.insert(0, os.path.dirname(os.path.abspath(__file__)))
from gccommon import *

PID = "C01"


def main(tier, replay=None):
    chk = vlib.Check(PID, tier, "model_checking")
    rng = chk.rng
    quick = tier == "quick"
    harness, edges = setup(chk, tier, ["tls", "noflush"])
    if replay:
        return runner.replay_file(chk, harness, replay, "HeapTrace", "HeapTrace_reach.cfg", ())
    camp = runner.Campaign(chk, harness, "HeapTrace", "HeapTrace_reach.cfg", per_process=True)
    camp.run([], model_programs(chk, edges, rng, 6000 if quick else 60000), "model")
    n = 60 if quick else 600
    camp.run([], [gcgen.random_program(rng, nobj=rng.choice([12, 30, 60]), nops=rng.choice([80, 200, 400])) for _ in range(n)], "random")
    camp.run([], [gcgen.random_program(rng, nobj=40, nops=300, kinds=[k]) for k in gcgen.PLAIN for _ in range(2 if quick else 10)], "random/onekind")
    # objects of a type with its own Alloc instance hold the references (placed by the type: known to the collector all the same)
    camp.run([], [gcgen.random_program(rng, nobj=rng.choice([12, 30]), nops=rng.choice([80, 200]), arena=arena_slots(rng, 60),
                                       kinds=["Node", "Node", "Node", "Ref", "Array", "Box"]) for _ in range(max(6, n // 6))], "random/own-allocator")
    camp.run([], [gcgen.chain_program(m, k) for k in ("Ref", "Node") for m in ((50, 400) if quick else (50, 400, 1500))], "chain")
    camp.run([], [["reset", "chain %d %s" % (m, k)] for k in ("Ref", "Node") for m in ((3000, 20000) if quick else (1000, 5000, 20000, 30000))],
             "longchain")
    # thousands of objects, a fraction kept through a rooted Array of Ref: the registry passes through many of its sizes
    camp.run([], [["reset", "bulk %d %d" % (m, k)] for (m, k) in (((700, 3), (3000, 7), (12000, 2)) if quick else ((300, 1), (700, 3), (3000, 7), (12000, 2), (40000, 5), (60000, 11)))],
             "bulk", sample=False)
    camp.run([], [["reset", "cycles %d" % m] for m in ((40, 300) if quick else (10, 40, 300, 3000))], "ownership-cycles", sample=False)
    camp.run([], [["reset", "tuplenull"]], "tuple-with-null-item", sample=False)
    # heap views (Zip, Slice, Map made with new) as the only reference to their inputs
    camp.run([], [["reset", "heapviews"]], "heap-views-hold-inputs", sample=False)
    # copy() of an object whose own Assign allocates managed objects: the half-built copy already protects what it holds
    camp.run([], [["reset", "deepcopy %d" % m] for m in (60, 300)], "allocating-assign", sample=False)
    # an Array doubled onto itself whose elements allocate when assigned: collections in the middle of the call
    camp.run([], [["reset", "selfcat %d" % m] for m in (40, 300, 1500)], "self-concat-allocating-elements", sample=False)
    # the only reference lives in a callee-saved register (the roots include the registers, not just the stack)
    camp.run([], [["reset", "reghold"]], "register-root", sample=False)
    # a heap Tuple filled (concat, constructor, assign) from a Map whose function allocates: collections in the middle of the fill
    camp.run([], [["reset", "tuplefill %d %d" % (n, how)] for n in (300, 3000) for how in (0, 1, 2)], "tuple-filled-while-collecting", sample=False)
    camp.run([], [["reset", "threadfunc"]], "thread-holds-its-function", sample=False)
    chk.cov["rule"] = ("an execution = one mutator program (allocations of every object kind and mode, pointer stores, container "
                       "insertions/removals, root drops, TLS entries, deletions, forced and threshold collections) run in its own "
                       "process; TLC recomputes reachability on the specification's graph at every step and rejects a sweep that took a "
                       "reachable object; distinct = different program")
    chk.assumptions += ["garbage retained by conservative scanning is allowed by the specification (never an alarm)",
                        "programs stay in contract: nothing is touched after it became unreachable, Box pointees are not aliased, "
                        "no allocation or deletion inside a stop window (open finding F-C06-stop-window)"]
    camp.report()
    runner.run_pinned(chk, {"h_gc": harness})
    return chk.finish()
