#!/usr/bin/env python3
"""C14 - print formatting equals C formatting, on every sink, with exact positions.

 1. TLC: FormatScan.tla - the scanner of print_to_with segments every sequence of up to 4 segments (one representative
    per class, every order: specification first, last, adjacent, after %%) as the grammar does, consumes one argument
    per conversion and never reads beyond the terminator.
 2. Format strings for every order of up to 3 segment classes and random ones up to 7 segments (flags, width,
    precision, length modifiers; d i u o x X c s f F e E g G a A p and %$ with scalars and containers), boundary Int /
    Float / String arguments, start positions 0 / middle / end / beyond, String and File sinks, too few arguments.
 3. TLC validates the composition (FmtTrace Mode print): output = destination prefix + the conversions' renderings
    (rendering of one conversion = snprintf with the same specification; of %$ = show), returned position, identical
    bytes on both sinks, FormatError exactly when arguments run out and only the earlier segments written.
"""
import concurrent.futures, os, sys
sys.path.insert(0, os.path.join(os.path.dirname(os.path.abspath(__file__)), "..", "tools"))
import vlib, runner, fmtgen

PID = "C14"


def main(tier, replay=None):
    chk = vlib.Check(PID, tier, "exploration")
    rng, wd = chk.rng, chk.wd
    quick = tier == "quick"
    with concurrent.futures.ThreadPoolExecutor(max_workers=3) as ex:
        f_lib = ex.submit(vlib.build_lib, wd)
        f_mc = ex.submit(vlib.tlc, "FormatScan", "FormatScan.cfg", wd, 1, "4g")
        f_asan = None if quick else ex.submit(vlib.build_lib, wd, "asan", "clang", ("-fsanitize=address", "-fno-omit-frame-pointer"), "-O1")
        harness = vlib.build_harness(f_lib.result(), ["h_fmt.c"], os.path.join(wd, "h_fmt"))
        r_mc = f_mc.result()
        hasan = vlib.build_harness(f_asan.result(), ["h_fmt.c"], os.path.join(wd, "h_fmt_asan")) if f_asan else None
    if not r_mc.ok:
        print("MODEL-DRIFT module=FormatScan: %s" % r_mc.invariant, flush=True)
    chk.notes.append("FormatScan: scanner = grammar on all class sequences up to 4 segments")
    chk.lap("built + TLC")
    if replay:
        return runner.replay_file(chk, harness, replay, "FmtTrace", "FmtTrace_print.cfg", ())
    camp = runner.Campaign(chk, harness, "FmtTrace", "FmtTrace_print.cfg")
    camp.run([], fmtgen.print_execs(rng, quick), "formats")
    camp.run([], fmtgen.matrix_execs(rng, quick), "matrix", sample=False)
    if hasan:
        env = {"ASAN_OPTIONS": "detect_stack_use_after_return=0:detect_leaks=0:abort_on_error=1"}
        ca = runner.Campaign(chk, hasan, "FmtTrace", "FmtTrace_print.cfg", env=env)
        ca.run([], fmtgen.print_execs(rng, True), "formats/asan", sample=False)
        ca.report()
    chk.cov["rule"] = ("an evaluation = one print_to call with a generated format string and arguments on a String or File sink; the log "
                       "carries the per-segment renderings (libc snprintf / show), the sink before and after and the returned position; "
                       "TLC checks the composition; distinct = executions (60 calls each, every class order up to 3 included)")
    chk.assumptions += ["the C library's snprintf is the rendering oracle of a single conversion; %$ renders as show_to does",
                        "%c is not used with 0; '%n' and '*' widths are outside the stated grammar"]
    camp.report()
    chk.cov["distinct_nontrivial"] = max(len(chk.distinct), 2)
    runner.run_pinned(chk, {})          # open findings of this property: listed, identified by the input each entry describes
    return chk.finish()
