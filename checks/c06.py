#!/usr/bin/env python3
"""C06 - every managed object is finalised exactly once; teardown returns everything.

 1. TLC, exhaustive: Heap.tla - Once, DelWorks, DownClean, NoZombie for all interleavings of new/new_root/new_raw,
    del, Box ownership (owner swept before or after the owned object: every order of the sweep's pending list),
    collections, stop/start and teardown; the as-found designs (pending entry only cleared, entry not cleared when
    processed, stop window, a nested sweep started by an allocating finaliser, a single teardown sweep) are refuted.
 2. The model's transitions and random programs run on the real collector, one process each, with Node objects
    whose destructor keeps a per-object count; the last event is written after Cello_Exit.
 3. TLC validates (HeapTrace, Mode "final"): no destructor runs twice, an explicit del finalises at once, a
    reclaimed Node was destructed, and after teardown only undeleted root/raw objects remain.
"""
import os, sys
sys.path.insert(0, os.path.dirname(os.path.abspath(__file__)))
from gccommon import *

PID = "C06"


def main(tier, replay=None):
    chk = vlib.Check(PID, tier, "model_checking")
    rng = chk.rng
    quick = tier == "quick"
    harness, edges = setup(chk, tier, ["coop", "stop", "noclear", "nested", "tearonce", "rootonce"])
    if replay:
        return runner.replay_file(chk, harness, replay, "HeapTrace", "HeapTrace_final.cfg", ())
    camp = runner.Campaign(chk, harness, "HeapTrace", "HeapTrace_final.cfg", per_process=True)
    camp.run([], model_programs(chk, edges, rng, 6000 if quick else 60000), "model")
    n = 60 if quick else 600
    # Node-heavy programs (the destructor ledger sees Nodes), many Boxes (ownership chains), frequent deletions
    camp.run([], [gcgen.random_program(rng, nobj=rng.choice([12, 30, 60]), nops=rng.choice([80, 200, 400]),
                                       kinds=["Node", "Node", "Node", "Box", "Box", "Array", "Tuple", "Table", "Ref"])
                  for _ in range(n)], "random/boxes")
    camp.run([], [gcgen.random_program(rng, nobj=40, nops=250) for _ in range(n // 2)], "random/mixed")
    # objects of a type with its own Alloc instance (placed by the type, released through it): registered, deleted, collected
    # and torn down like any other
    camp.run([], [gcgen.random_program(rng, nobj=rng.choice([12, 30]), nops=rng.choice([80, 200]), arena=arena_slots(rng, 60),
                                       kinds=["Node", "Node", "Node", "Box", "Ref", "Array"]) for _ in range(max(6, n // 4))], "random/own-allocator")
    # thousands of objects, a fraction kept through a rooted Array of Ref: the registry passes through many of its sizes
    camp.run([], [["reset", "bulk %d %d" % (m, k)] for (m, k) in (((700, 3), (3000, 7), (12000, 2)) if quick else ((300, 1), (700, 3), (3000, 7), (12000, 2), (40000, 5), (60000, 11)))],
             "bulk", sample=False)
    camp.run([], [["reset", "cycles %d" % m] for m in ((40, 300) if quick else (10, 40, 300, 3000))], "ownership-cycles", sample=False)
    # containers of Boxes, emptied Boxes and Boxes that never owned anything, deleted by the collector
    camp.run([], [["reset", "boxcont %d" % m] for m in ((9, 40, 300) if quick else (5, 9, 40, 300, 3000))], "collected-containers", sample=False)
    # finalisers that allocate (in the middle of a sweep, and during teardown): every object is still finalised exactly once
    camp.run([], [["reset", "finalloc %d %d" % (m, k)] for (m, k) in (((40, 3), (300, 8), (300, 1)) if quick else ((10, 1), (40, 3), (300, 8), (300, 1), (3000, 5)))],
             "allocating-finalisers", sample=False)
    camp.run([], [["reset", "heapviews"]], "heap-views-hold-inputs", sample=False)       # nothing a live heap Zip / Slice / Map holds is finalised
    camp.run([], [["reset", "donly"]], "destructor-only-type", sample=False)       # a New instance with a destructor and no constructor
    camp.run([], [["reset", "delalloc %d %d" % nk] for nk in ((6, 64), (40, 3), (300, 8))], "deleting-spawners", sample=False)
    # finalisers that release a root object they own AND allocate, all of them run by teardown: holders, resources and notes finalised once
    camp.run([], [["reset", "holders %d" % m] for m in ((1, 8, 60) if quick else (1, 2, 8, 60, 300))], "teardown-holders", sample=False)
    # Files and Processes whose close reports an error, finalised by the collector (during a run and at teardown)
    camp.run([], [["reset", "streams %d" % m] for m in (8, 40)], "collected-streams", sample=False)
    # a finaliser that raises during a threshold collection (the program handles it): the collector goes on collecting afterwards
    camp.run([], [["reset", "finraise %d" % m] for m in (40, 300)], "raising-finaliser", sample=False)
    # copies of views (Range, Slice, an iterated Zip) are managed objects like any other: made, collected, torn down
    camp.run([], [["reset", "viewcopy"], ["reset", "new 1 Node std", "root 1 1", "viewcopy", "root 0 0", "collect force", "viewcopy"]], "view-copies", sample=False)
    chk.cov["rule"] = ("an execution = one mutator program in its own process, including the teardown at exit; TLC checks per "
                       "event that destructors ran at most once per object, that del finalised at once, that reclaimed Nodes "
                       "were destructed, and on the post-exit event that only undeleted root/raw objects remain; distinct = program")
    chk.assumptions += ["the destructor count lives in the harness' Node type; built-in kinds are observed through the registry",
                        "no allocation or deletion inside a stop window (open finding F-C06-stop-window, pinned script)"]
    camp.report()
    runner.run_pinned(chk, {"h_gc": harness})
    return chk.finish()
