#!/usr/bin/env python3
"""C03 - Tree behaves as an ordered map and stays a valid red-black tree.

 1. TLC, exhaustive: RBTree (src/Tree.c transcribed) keeps MapOK, Ordered, RootBlack, NoRedRed, Balanced,
    ParentLinks, HeightBound, NoNullDeref for every set/rem/clear history over N ordered keys.
 2. Replay of every transition of that graph on real Trees (Int, String, Probe keys).
 3. Patterned (ascending, descending, alternating, drain-and-refill) and random histories, small universes with
    the full projection and large universes (thousands of keys) with a sampled projection.
 4. TLC validates every recorded call against the ordered-map specification; the white-box dump of the node
    structure (through the #include "Tree.c" seam) must be a valid red-black tree after every call.
"""
import concurrent.futures, os, sys
sys.path.insert(0, os.path.join(os.path.dirname(os.path.abspath(__file__)), "..", "tools"))
import vlib, runner, mapgen, edgecover
from c02 import model_keys, HDR_WORDS

PID = "C03"


def patterned(rng, n, kind):
    ks = list(range(1, n + 1))
    L = ["reset", "new 1 Tree"]
    if kind == "asc":
        order = ks
    elif kind == "desc":
        order = ks[::-1]
    elif kind == "alt":
        order = [ks[i // 2] if i % 2 == 0 else ks[-1 - i // 2] for i in range(n)]
    else:
        order = ks[:]
        rng.shuffle(order)
    for k in order:
        L.append("set 1 %d %d" % (k, 1 + k % 3))
    rem = order[:]
    if kind == "root":          # repeatedly remove whatever sits in the middle (roots / two-children nodes)
        rem = sorted(ks, key=lambda k: abs(k - n // 2))
    elif kind == "rand":
        rng.shuffle(rem)
    for k in rem:
        L.append("rem 1 %d" % k)
    for k in order[: n // 2]:    # refill after draining
        L.append("set 1 %d 2" % k)
    L.append("resize 1 0")
    for k in order[-3:]:
        L.append("set 1 %d 3" % k)
    return L


def main(tier, replay=None):
    chk = vlib.Check(PID, tier, "model_checking")
    rng, wd = chk.rng, chk.wd
    quick = tier == "quick"
    exh_cfg = "Tree_quick.cfg" if quick else "Tree_thorough.cfg"
    with concurrent.futures.ThreadPoolExecutor(max_workers=4) as ex:
        f_lib = ex.submit(lambda: vlib.build_harness_wb(vlib.build_lib(wd), ["h_map.c"], os.path.join(wd, "h_map"),
                                                        ("Tree.c",), chk.notes))
        f_exh = ex.submit(vlib.tlc, "RBTree", exh_cfg, wd, 8 if quick else 14, "6g" if quick else "24g")
        f_val = ex.submit(vlib.tlc, "RBTree", "Tree_vals.cfg", wd, 2, "2g")
        f_edge = ex.submit(vlib.tlc, "RBTree", "Tree_edges.cfg", wd, 4, "4g")
        harness = f_lib.result()
        r_exh, r_val, r_edge = f_exh.result(), f_val.result(), f_edge.result()
    chk.lap("built + TLC exhaustive")
    if replay:
        return runner.replay_file(chk, harness, replay, "MapTrace", "MapTrace_map.cfg", HDR_WORDS)

    for r, name in ((r_exh, exh_cfg), (r_val, "Tree_vals.cfg"), (r_edge, "Tree_edges.cfg")):
        chk.model(r, "RBTree/" + name)
        if not r.ok:
            print("MODEL-DRIFT module=RBTree cfg=%s: %s" % (name, r.invariant), flush=True)
            chk.notes.append("RBTree %s: %s violated on the model" % (name, r.invariant))
    edges = list(r_edge.lines("EDGE"))
    for op in ("set", "rem", "clear"):          # vacuity guard (TLC's -coverage runs out of memory on this module)
        if not any(e["a"].get("op") == op for e in edges):
            raise vlib.ToolError("vacuous model run: action %s never taken" % op)
    g = edgecover.Graph(edges)
    paths, covered, total = g.cover([], mode="edges", maxlen=80, rng=rng, budget=30000 if quick else None)
    chk.cov["model_edges"], chk.cov["model_edges_replayed"] = total, covered
    mkeys = model_keys("Tree_edges.cfg")
    ms = mapgen.ModelScripts("Tree", {k: k for k in mkeys}, {1: 1, 2: 2})
    execs = [ms.execution(p) for p in paths]
    chk.lap("edge cover: %d paths, %d/%d edges" % (len(paths), covered, total))

    camp = runner.Campaign(chk, harness, "MapTrace", "MapTrace_map.cfg")
    ints = [10 * k for k in mkeys]
    strs = sorted([b"", b"a", b"ab", b"abc", b"b", b"\x80", b"\xff\x01", b"zz", b"zza"][: len(mkeys)])
    for name, hdr in (("Int", mapgen.header("Int", "Int", ints, [100, 200])),
                      ("String", mapgen.header("String", "Int", strs, [100, 200])),
                      ("Probe", mapgen.header("Probe", "Probe", ints, [100, 200]))):
        camp.run(hdr, execs if (name == "Int" or not quick) else execs[::3], "replay/" + name, variant=name)

    # patterned histories, full projection, 24 keys
    n = 24
    pats = [patterned(rng, n, kd) for kd in ("asc", "desc", "alt", "root", "rand", "rand")]
    camp.run(mapgen.header("Int", "Int", [7 * i - 50 for i in range(n)], [1, 2, 3]), pats, "patterned/Int")
    sk = sorted({bytes(rng.choice(b"ab\x80\xfe") for _ in range(rng.randint(0, 4))) for _ in range(200)})[:n]
    camp.run(mapgen.header("String", "Int", sk, [1, 2, 3]), [patterned(rng, len(sk), kd) for kd in ("asc", "desc", "rand")],
             "patterned/String")
    # random histories (Trees and Tables mixed through assign/copy), full projection
    nexec = 24 if quick else 300
    camp.run(mapgen.header("Probe", "Probe", list(range(0, 16 * 55, 55)), [7, 8, 9]),
             [mapgen.random_history(rng, "Tree", 16, 3, rng.choice([60, 200]) if quick else rng.choice([200, 1000]))
              for _ in range(nexec // 2)], "random/Probe")
    camp.run(mapgen.header("Int", "Int", list(range(-40, 200, 10)), [7, 8, 9]),
             [mapgen.random_history(rng, "Tree", 24, 3, rng.choice([60, 200]) if quick else rng.choice([200, 1000]))
              for _ in range(nexec // 2)], "random/Int")
    # key magnitudes: differences that do not fit in 32 (or 64) bits, multiples of 2^32 apart, the ends of the int64 range
    BIG = sorted({-2**63, -2**63 + 1, -2**62, -3 * 10**9, -2**32 - 7, -2**32, -2**31 - 1, -2**31, -7, 0, 7, 2**31 - 1, 2**31, 2**32, 2**32 + 7,
                  3 * 10**9, 1700000000123, 1700000000123 + 2**33, 2**40, 2**62, 2**63 - 2, 2**63 - 1, 7 - 2**32, 7 + 2**33})
    camp.run(mapgen.header("Int", "Int", BIG, [7, 8, 9]),
             [mapgen.random_history(rng, "Tree", len(BIG), 3, rng.choice([60, 200]) if quick else rng.choice([200, 1000]))
              for _ in range(nexec // 2)] + [patterned(rng, len(BIG), kd) for kd in ("asc", "desc", "rand")], "random/Int-magnitudes")
    for kt, vt in (("Int", "Probe"), ("Probe", "Int"), ("Odd12", "Int"), ("Int", "Odd12")):            # key and value types of different sizes
        camp.run(mapgen.header(kt, vt, list(range(0, 16 * 55, 55)), [7, 8, 9]),
                 [mapgen.random_history(rng, "Tree", 16, 3, rng.choice([60, 200]) if quick else rng.choice([200, 1000]))
                  for _ in range(max(4, nexec // 4))], "random/%s-%s" % (kt, vt))
    # a plain key type WITHOUT a Cmp instance, wider than a word (ordered by the default byte-wise comparison): keys agreeing in their
    # first 8 bytes are different keys (0..63: hi = k >> 2, lo = k & 3 - byte order is numeric order in this range)
    camp.run(mapgen.header("Pair16", "Int", sorted(list(range(0, 64, 4)) + [1, 2, 3, 5, 6, 41, 42, 43]), [7, 8, 9]),
             [mapgen.random_history(rng, "Tree", 24, 3, rng.choice([60, 200]) if quick else rng.choice([200, 1000]))
              for _ in range(max(4, nexec // 4))], "random/Pair16-Int")
    # large universes, sampled projection: height bound and balance at scale
    big = 600 if quick else 4000
    L = ["reset", "new 1 Tree"]
    order = list(range(1, big + 1))
    if rng.random() < 0.5:
        rng.shuffle(order)
    for i, k in enumerate(order):
        L.append("set 1 %d %d" % (k, 1 + k % 3))
        if i % (big // 4) == 0:
            L.append("snap 1")
    rm = order[:]
    rng.shuffle(rm)
    for i, k in enumerate(rm[: big * 3 // 4]):
        L.append("rem 1 %d" % k)
        if i % (big // 4) == 0:
            L.append("snap 1")
    L.append("snap 1")
    camp.run(["light 6"] + mapgen.header("Int", "Int", list(range(1000, 1000 + 3 * big, 3)), [1, 2, 3]), [L], "large/Int", sample=False)

    camp.run(mapgen.header("Int", "Int", [1, 2], [1]), [["reset", "scale R %d 0" % n] for n in ((100000,) if quick else (100000, 3000000))], "scale", sample=False)
    chk.cov["rule"] = ("an execution = one history of public Tree calls on the real library; distinct = different operation "
                       "sequence or key type; every event carries len, iteration both ways, get+mem of every key of the "
                       "universe (sampled for the large universe) and the white-box node dump; judged by TLC (MapTrace)")
    chk.cov["exhaustive"] = (covered == total)
    chk.assumptions += ["TLC's exhaustive result covers the constants of %s" % exh_cfg,
                        "red-black validity is observed through the #include \"Tree.c\" seam; if the node layout is refactored the seam is dropped and only the API-level ordered-map behaviour is judged"]
    camp.report()
    return chk.finish()
