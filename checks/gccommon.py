#!/usr/bin/env python3
"""Shared by C01 (reach), C06 (final), C17 (reg): the collector harness, the Heap model runs and the programs."""
import concurrent.futures, os, sys
sys.path.insert(0, os.path.join(os.path.dirname(os.path.abspath(__file__)), "..", "tools"))
import vlib, runner, gcgen, edgecover

BUGS = {"tls": "SafeCollect", "coop": "DownClean", "stop": "DelWorks", "noclear": "Once", "nested": "DownClean", "tearonce": "DownClean",
        "noflush": "SafeCollect",
        "rootonce": "DownClean"}           # teardown counts the roots once, before its first pass (finalisers release roots and allocate)          # the mark phase does not spill the registers into the frame it scans


def setup(chk, tier, want_bugs):
    wd = chk.wd
    quick = tier == "quick"
    with concurrent.futures.ThreadPoolExecutor(max_workers=8) as ex:
        f_lib = ex.submit(vlib.build_lib, wd)
        f_exh = ex.submit(vlib.tlc, "Heap", "Heap_quick.cfg" if quick else "Heap_thorough.cfg", wd, 8 if quick else 14,
                          "6g" if quick else "24g", (), None, 3000)
        f_edge = ex.submit(vlib.tlc, "Heap", "Heap_edges.cfg", wd, 4, "4g")
        f_spawn = ex.submit(vlib.tlc, "Heap", "Heap_spawn.cfg", wd, 4, "4g")        # finalisers that allocate (during a sweep, during teardown)
        f_hold = ex.submit(vlib.tlc, "Heap", "Heap_holders.cfg", wd, 4, "4g")       # finalisers that release a root they own and allocate
        f_regs = ex.submit(vlib.tlc, "Heap", "Heap_regs.cfg", wd, 4, "4g")          # references the compiler keeps in callee-saved registers only
        f_bug = {b: ex.submit(vlib.tlc, "Heap", "Heap_bug_%s.cfg" % b, wd, 2, "2g") for b in want_bugs}
        lib = f_lib.result()
        harness = vlib.build_harness_wb(lib, ["h_gc.c"], os.path.join(wd, "h_gc"), ("GC.c",), chk.notes)
        r_exh, r_edge = f_exh.result(), f_edge.result()
        bugs = {b: f.result() for b, f in f_bug.items()}
    chk.model(r_exh, "Heap/exhaustive")
    chk.model(r_edge, "Heap/Heap_edges.cfg")
    r_spawn = f_spawn.result()
    chk.model(r_spawn, "Heap/Heap_spawn.cfg")
    r_hold = f_hold.result()
    chk.model(r_hold, "Heap/Heap_holders.cfg")
    if not r_hold.ok:
        print("MODEL-DRIFT module=Heap (holders): %s" % r_hold.invariant, flush=True)
    r_regs = f_regs.result()
    chk.model(r_regs, "Heap/Heap_regs.cfg")
    if not r_regs.ok:
        print("MODEL-DRIFT module=Heap (registers): %s" % r_regs.invariant, flush=True)
    if not r_spawn.ok:
        print("MODEL-DRIFT module=Heap (spawners): %s" % r_spawn.invariant, flush=True)
    if not r_exh.ok:
        print("MODEL-DRIFT module=Heap: %s" % r_exh.invariant, flush=True)
        chk.notes.append("Heap: %s violated on the model" % r_exh.invariant)
    for b, r in bugs.items():          # non-vacuity: the invariants refute the defective designs
        if r.ok or r.invariant != BUGS[b]:
            raise vlib.ToolError("Heap model does not refute defect '%s' through %s (got %s)" % (b, BUGS[b], r.invariant))
    chk.notes.append("Heap invariants refute the as-found designs: %s" % ", ".join(sorted(bugs)))
    edges = list(r_edge.lines("EDGE"))
    vlib.require_ops(edges, ("new", "newbox", "store", "drop", "settls", "del", "collect", "stop", "start", "teardown"), "Heap")
    chk.lap("built + TLC")
    return harness, edges


def model_programs(chk, edges, rng, budget):
    g = edgecover.Graph(edges)
    init = edges_init(edges)
    paths, covered, total = g.cover(init, mode="edges", maxlen=12, rng=rng, budget=budget)
    chk.cov["model_edges"], chk.cov["model_edges_replayed"] = total, covered
    progs = []
    for p in paths:
        L = gcgen.from_model_path(p, rng)
        if len(L) > 2:
            progs.append(L)
    return progs


def edges_init(edges):
    import json
    targets = {json.dumps(e["t"], sort_keys=True) for e in edges}
    for e in edges:
        if json.dumps(e["f"], sort_keys=True) not in targets:
            return e["f"]
    raise vlib.ToolError("no initial state in the Heap graph")


def arena_slots(rng, n):
    """arena indices whose addresses collide modulo the registry sizes 5, 11, 23 and 53 (address = base + 64*index,
    hash = address >> 3): multiples of 5*11*23*53, plus a few neighbours for wrap-around"""
    m = 5 * 11 * 23 * 53
    out = []
    for k in range(1, n + 1):
        out.append((k * m) % (1 << 21) if rng.random() < 0.7 else (k * 5 * 11 + rng.randrange(3)) % (1 << 21))
    return sorted(set(out), reverse=True)
