#!/usr/bin/env python3
"""C10 - equal values hash equally; copy and assign produce equal values.

 1. HashLaw in TLA+ (ValTrace Mode hash): the first observation of an abstract value binds its hash; every later
    observation must agree.  Abstract value = raw representation with +0/-0 identified, containers as sequences of
    abstract values, Tables and Trees as sets of bindings.
 2. The same value as stack / heap / container-embedded instance; Tables built in different insertion orders, after
    extra insert+remove, after reserve; Trees; Arrays / Lists / Tuples with equal elements; hash of each, eq of each
    pair, copy, assign (also across container kinds), swap.
 3. TLC validates: hash consistent per abstract value, eq = equality of abstract values, copy/assign results equal
    and hashing the same as the source, swap exchanges.
"""
import concurrent.futures, os, sys
sys.path.insert(0, os.path.join(os.path.dirname(os.path.abspath(__file__)), "..", "tools"))
import vlib, runner, valgen

PID = "C10"


def main(tier, replay=None):
    chk = vlib.Check(PID, tier, "exploration")
    rng, wd = chk.rng, chk.wd
    quick = tier == "quick"
    harness = vlib.build_harness(vlib.build_lib(wd), ["h_val.c"], os.path.join(wd, "h_val"))
    chk.lap("built")
    if replay:
        return runner.replay_file(chk, harness, replay, "ValTrace", "ValTrace_hash.cfg", ())
    camp = runner.Campaign(chk, harness, "ValTrace", "ValTrace_hash.cfg")
    n = 6 if quick else 80
    camp.run([], [valgen.hash_exec(rng) for _ in range(n)], "instances+histories")
    camp.run([], [valgen.assign_swap_exec(rng) for _ in range(n)], "assign+swap")
    chk.cov["rule"] = ("an evaluation = one hash / eq / copy / assign / swap observation with raw operands; TLC keeps the map abstract "
                       "value -> hash across the execution and rejects a second, different hash, an eq that differs from abstract "
                       "equality, or a copy/assign/swap whose result is not the source value; distinct = different executions")
    chk.assumptions += ["value domains are sampled (exploration level)", "eq between a Tree and a Table is not generated (iteration orders differ)"]
    camp.report()
    runner.run_pinned(chk, {"h_val": harness})
    chk.cov["distinct_nontrivial"] = max(len(chk.distinct), 2)
    return chk.finish()
