#!/usr/bin/env python3
"""C13 - threads are isolated from each other; join publishes; Mutex excludes.

 1. TLC, exhaustive: Threads.tla - all interleavings of the main thread and 2 children over alloc / collect / try /
    leave / TLS growth (publish, then install) / lock / unlock / write / finish / join: Isolation (an action of t leaves
    every other thread's collector, exception depth and TLS unchanged), JoinPublishes, MutexOK, NoTornRead; with
    ParentWalksChildTls = TRUE (the code as it is) TLC exhibits the parent's mark phase reading a child's TLS table in
    the middle of its growth (open finding).
 2. k in {2, 4, 8, 16} real Cello threads run seeded workloads (containers, allocation-heavy work that triggers their
    own collections, nested exceptions, thread-local values, critical sections under one Mutex through lock, trylock
    and with) with yields injected; every workload also runs alone in the main thread first.
 3. TLC validates (ThreadTrace): every thread's digest equals the solo digest, no object was finalised by a foreign
    thread, the tickets taken inside each critical section are consecutive and the unprotected counter is exact, join
    returned after the function ended and the joiner saw the final value.
"""
import concurrent.futures, os, sys
sys.path.insert(0, os.path.join(os.path.dirname(os.path.abspath(__file__)), "..", "tools"))
import vlib, runner

PID = "C13"


def main(tier, replay=None):
    chk = vlib.Check(PID, tier, "model_checking")
    rng, wd = chk.rng, chk.wd
    quick = tier == "quick"
    with concurrent.futures.ThreadPoolExecutor(max_workers=4) as ex:
        f_lib = ex.submit(vlib.build_lib, wd)
        f_exh = ex.submit(vlib.tlc, "Threads", "Threads_quick.cfg" if quick else "Threads_thorough.cfg", wd, 8 if quick else 14,
                          "6g" if quick else "24g", (), None, 3000)
        f_bug = ex.submit(vlib.tlc, "Threads", "Threads_bug.cfg", wd, 2, "2g")
        harness = vlib.build_harness(f_lib.result(), ["h_thr.c"], os.path.join(wd, "h_thr"))
        r_exh, r_bug = f_exh.result(), f_bug.result()
    chk.model(r_exh, "Threads")
    if not r_exh.ok:
        print("MODEL-DRIFT module=Threads: %s" % r_exh.invariant, flush=True)
    if r_bug.ok:
        raise vlib.ToolError("Threads model does not exhibit the shared TLS read with ParentWalksChildTls = TRUE")
    chk.lap("built + TLC")
    if replay:
        return runner.replay_file(chk, harness, replay, "ThreadTrace", "ThreadTrace.cfg", ())
    camp = runner.Campaign(chk, harness, "ThreadTrace", "ThreadTrace.cfg", per_process=True)
    camp.confirm_tries = 8          # schedule-dependent: one further rejection within 8 re-runs of the script confirms
    runs = []
    for k in (2, 4, 8, 16):
        for _ in range(5 if quick else 20):
            runs.append(["reset", "run %d %d %d" % (k, rng.randint(1, 10**6), rng.choice([2, 4]) if quick else rng.choice([3, 8, 20]))])
    camp.run([], runs, "threads")
    camp.run([], [["reset", "stopthread"]], "stop-a-thread", sample=False)
    chk.cov["rule"] = ("an execution = k Cello threads running seeded workloads concurrently (after each workload ran alone); TLC checks "
                       "digest equality with the solo run, no foreign finalisation, consecutive in-section tickets, the exact "
                       "unprotected counter, ticket(function end) < ticket(join return) and the value seen after join; distinct = (k, seed, rounds)")
    chk.assumptions += ["real schedules are sampled (yields injected); the model's interleavings are exhaustive",
                        "the parent does not collect while children run (open finding F-C13-parent-walks-child-tls, pinned observation)"]
    camp.report()
    runner.run_pinned(chk, {"h_thr": harness})
    return chk.finish()
