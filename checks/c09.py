#!/usr/bin/env python3
"""C09 - cmp is a consistent total order and the predicates derive from it.

 1. TLC: the reference relations of Values.tla (numeric order of int64 from limbs, IEEE order from the bit pattern with
    +0 = -0, unsigned byte-wise order, lexicographic lifting) are total orders on boundary grids (ValuesMC).
 2. cmp and eq, neq, lt, gt, le, ge on ALL pairs of 24-value boundary tables per type (Int incl. differences beyond 32
    and 64 bits, Float incl. signed zeros, denormals, infinities, String incl. prefixes and bytes >= 0x80, Type by name,
    plain structs byte-wise), on Array / List / Tuple values of different lengths and kinds and on Trees.
 3. TLC validates every evaluation (ValTrace Mode cmp): the sign equals the reference order of the raw operands and
    the six predicates are its predicates.  Antisymmetry, reflexivity and transitivity follow because every sampled
    sign equals a relation TLC has checked to be a total order.
"""
import concurrent.futures, os, sys
sys.path.insert(0, os.path.join(os.path.dirname(os.path.abspath(__file__)), "..", "tools"))
import vlib, runner, valgen

PID = "C09"


def main(tier, replay=None, mode="cmp"):
    chk = vlib.Check(PID, tier, "exploration")
    rng, wd = chk.rng, chk.wd
    quick = tier == "quick"
    with concurrent.futures.ThreadPoolExecutor(max_workers=3) as ex:
        f_lib = ex.submit(vlib.build_lib, wd)
        f_mc = ex.submit(vlib.tlc, "ValuesMC", "ValuesMC.cfg", wd, 1, "2g")
        harness = vlib.build_harness(f_lib.result(), ["h_val.c"], os.path.join(wd, "h_val"))
        r_mc = f_mc.result()
    if not r_mc.ok:
        raise vlib.ToolError("the reference order of Values.tla is not a total order on the grid: %s" % r_mc.invariant)
    chk.notes.append("ValuesMC: reference relations are total orders on the boundary grids")
    chk.lap("built + TLC")
    if replay:
        return runner.replay_file(chk, harness, replay, "ValTrace", "ValTrace_cmp.cfg", ())
    camp = runner.Campaign(chk, harness, "ValTrace", "ValTrace_cmp.cfg")
    reps = 2 if quick else 20
    for _ in range(reps):
        camp.run([], [valgen.scalar_cmp_exec(rng, k) for k in "IFSYX"], "pairs/scalar", sample=False)
        camp.run([], [valgen.seq_cmp_exec(rng) for _ in range(3)], "pairs/containers", sample=False)
    chk.sample({"cmp": ["V 1 I 0", "V 2 I 4294967296", "cmp 1 2", "cmp 2 1"]})
    chk.cov["rule"] = ("an evaluation = cmp plus its six predicates on one ordered pair of values, logged with the raw operands (limbs, "
                       "bytes, element lists); TLC compares the sign with the reference order; distinct = different executions "
                       "(each holds all pairs of a 24-value table, boundary values always included)")
    chk.cov["distinct_nontrivial"] = 0
    chk.assumptions += ["NaN is excluded", "value domains are sampled: boundary tables plus random values (exploration level)",
                        "Table ordering is not part of the property"]
    camp.report()
    runner.run_pinned(chk, {"h_val": harness})
    chk.cov["distinct_nontrivial"] = max(len(chk.distinct), 2)
    return chk.finish()
