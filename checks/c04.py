#!/usr/bin/env python3
"""C04 - Array, List and Tuple behave as sequences.

 1. TLC, exhaustive: SeqModel per kind (all histories over a small value set, every operation with every
    in-range and out-of-range index; for Array the backing-store policy of src/Array.c) - TypeOK,
    CapacityOK, SortOK (sorted permutation), RemOK (first equal element), FailStutter.
 2. Every transition of those graphs replayed on real Arrays / Lists / Tuples of Int, String and Probe.
 3. Random histories (lengths to 40 quick / 300 thorough) including sort on duplicates, cross-kind assign/concat.
 4. TLC validates every recorded call against Sequence (SeqTrace, Mode "seq"): len, get(+i), get(-i), mem,
    forward and backward iteration after every call.
"""
import concurrent.futures, os, sys
sys.path.insert(0, os.path.join(os.path.dirname(os.path.abspath(__file__)), "..", "tools"))
import vlib, runner, seqgen, edgecover

PID = "C04"
HDR_WORDS = ("types", "K")
INTS = [0, 5, 9]                       # tokens 1,2,3 <-> model values 0,1,2 (0 = the zero-filled List element)
STRS = [b"", b"a", b"a\x80"]


def build(chk):
    return vlib.build_harness(vlib.build_lib(chk.wd), ["h_seq.c"], os.path.join(chk.wd, "h_seq"))


def model_runs(chk, tier, ex):
    suffix = "quick" if tier == "quick" else "thorough"
    return {k: ex.submit(vlib.tlc, "SeqModel", "Seq_%s_%s.cfg" % (k, suffix), chk.wd, 4, "4g")
            for k in ("Array", "List", "Tuple")}


def model_execs(chk, kind, r, rng, budget):
    chk.model(r, "SeqModel/" + kind)
    if not r.ok:
        print("MODEL-DRIFT module=SeqModel kind=%s: %s" % (kind, r.invariant), flush=True)
        chk.notes.append("SeqModel %s: %s violated on the model" % (kind, r.invariant))
    edges = list(r.lines("EDGE"))
    vlib.require_ops(edges, ("push", "pop", "pushat", "popat", "set", "get", "rem", "concat", "resize", "sort", "copy"), kind)
    g = edgecover.Graph(edges)
    paths, covered, total = g.cover([[], 0], mode="edges", maxlen=60, rng=rng, budget=budget)
    chk.cov["model_edges"] = chk.cov.get("model_edges", 0) + total
    chk.cov["model_edges_replayed"] = chk.cov.get("model_edges_replayed", 0) + covered
    return paths


def main(tier, replay=None):
    chk = vlib.Check(PID, tier, "model_checking")
    rng, wd = chk.rng, chk.wd
    quick = tier == "quick"
    with concurrent.futures.ThreadPoolExecutor(max_workers=4) as ex:
        f_lib = ex.submit(build, chk)
        fm = model_runs(chk, tier, ex)
        f_limpl = ex.submit(vlib.tlc, "ListImpl", "List_impl_edges.cfg", chk.wd, 4, "4g")        # List.c transcribed: links, head, tail, List_At from either end
        f_lbug = ex.submit(vlib.tlc, "ListImpl", "List_bug_staleprev.cfg", chk.wd, 2, "2g")
        f_sort = ex.submit(vlib.tlc, "SortImpl", "Sort_impl.cfg", chk.wd, 2, "2g")               # the quicksort transcribed, every input <= 5 over 3 values x lt / le / gt / ge
        f_sbug = ex.submit(vlib.tlc, "SortImpl", "Sort_bug_visitpivot.cfg", chk.wd, 2, "2g")
        f_sab = ex.submit(vlib.tlc, "SortAbort", "SortAbort.cfg", chk.wd, 2, "2g")                # the same quicksort aborted by a raising comparison: still the same items
        f_sabbug = ex.submit(vlib.tlc, "SortAbort", "SortAbort_bug_holdaside.cfg", chk.wd, 2, "2g")
        harness = f_lib.result()
        models = {k: f.result() for k, f in fm.items()}
        r_limpl, r_lbug = f_limpl.result(), f_lbug.result()
        r_sort, r_sbug = f_sort.result(), f_sbug.result()
        r_sab, r_sabbug = f_sab.result(), f_sabbug.result()
    chk.lap("built + TLC exhaustive")
    if replay:
        return runner.replay_file(chk, harness, replay, "SeqTrace", "SeqTrace_seq.cfg", HDR_WORDS)

    chk.model(r_limpl, "ListImpl/List_impl_edges.cfg")
    if not r_limpl.ok:
        print("MODEL-DRIFT module=ListImpl: %s" % r_limpl.invariant, flush=True)
    if r_lbug.ok:
        raise vlib.ToolError("ListImpl does not refute a stale prev link of the head: invariants vacuous")
    camp = runner.Campaign(chk, harness, "SeqTrace", "SeqTrace_seq.cfg")
    vt = {0: 1, 1: 2, 2: 3}
    chk.model(r_sort, "SortImpl/Sort_impl.cfg")
    if not r_sort.ok:
        print("MODEL-DRIFT module=SortImpl: %s" % r_sort.invariant, flush=True)
    if r_sbug.ok:
        raise vlib.ToolError("SortImpl does not refute a partition scan that visits the pivot: invariant vacuous")
    chk.model(r_sab, "SortAbort/SortAbort.cfg")
    if not r_sab.ok:
        print("MODEL-DRIFT module=SortAbort: %s" % r_sab.invariant, flush=True)
    if r_sabbug.ok:
        raise vlib.ToolError("SortAbort does not refute a pivot held outside the container during the scan: PermAlways vacuous")
    # every case of the sort model on the real library: Arrays and Tuples, sort_by with lt / le / gt / ge
    import json as _json
    cases = list(r_sort.lines("CASE"))
    if len(cases) < 1000:
        raise vlib.ToolError("SortImpl printed %d cases" % len(cases))
    if quick:
        cases = [c for c in cases if len(c["inp"]) >= 3][::2] + [c for c in cases if len(c["inp"]) < 3]
    sx = []
    for kind in ("Array", "Tuple"):
        for i in range(0, len(cases), 40):
            L = ["reset"]
            for j, c in enumerate(cases[i:i + 40]):
                o = (1, 3, 4)[j % 3]
                if j >= 3: L.append("del %d" % o)
                L.append("new %d %s%s" % (o, kind, "".join(" %d" % vt[v] for v in c["inp"])))
                L.append("sortby %d %s" % (o, c["cmp"]))
            sx.append(L)
    camp.run(seqgen.header("Int", INTS), sx, "replay/SortImpl", variant="SortImpl")
    chk.cov["model_cases"] = len(cases) * 2
    # every transition of the linked-list implementation model (walks from the head and from the tail, the four link / unlink cases)
    ledges = list(r_limpl.lines("EDGE"))
    vlib.require_ops(ledges, ("push", "pop", "pushat", "popat", "set", "get", "rem", "resize"), "ListImpl")
    g = edgecover.Graph(ledges)
    lpaths, lcov, ltot = g.cover([[], 0], mode="edges", maxlen=60, rng=rng, budget=20000 if quick else None)
    chk.cov["model_edges"] = chk.cov.get("model_edges", 0) + ltot
    chk.cov["model_edges_replayed"] = chk.cov.get("model_edges_replayed", 0) + lcov
    lm = seqgen.ModelScripts("List", vt, True)
    camp.run(seqgen.header("Int", INTS), [lm.execution(p) for p in lpaths], "replay/ListImpl/Int", variant="ListImpl")
    camp.run(seqgen.header("Probe", INTS), [lm.execution(p) for p in lpaths[::2]], "replay/ListImpl/Probe", variant="ListImpl")
    for kind in ("Array", "List", "Tuple"):
        paths = model_execs(chk, kind, models[kind], rng, 20000 if quick else None)
        full = seqgen.ModelScripts(kind, vt, True)
        camp.run(seqgen.header("Int", INTS), [full.execution(p) for p in paths], "replay/%s/Int" % kind, variant=kind)
        sub = paths[::3] if quick else paths
        cut = [seqgen.cut_grow(kind, p) for p in sub]
        camp.run(seqgen.header("String", STRS), [full.execution(p) for p in cut], "replay/%s/String" % kind, variant=kind)
        if kind != "Tuple":
            camp.run(seqgen.header("Probe", INTS), [full.execution(p) for p in cut], "replay/%s/Probe" % kind, variant=kind)

    # a List assigned from a Tuple that holds one object at several positions: positions count (get(t, i)), not identities
    dups = [(1, 1, 2), (1, 2, 1, 3), (3, 2, 3, 3, 1), (1, 1), (2, 2, 2), (1, 2, 3, 1, 2, 3), (2, 1, 1, 1, 1, 3)]
    dx = []
    for i in range(0, len(dups), 3):
        L = ["reset", "new 1 List 3", "new 2 List"]
        for d in dups[i:i + 3]:
            for o in (1, 2):
                L.append("fromit %d assign duptuple%s" % (o, "".join(" %d" % t for t in d)))
                L += ["push %d 2" % o, "get %d 0" % o, "push %d 3" % o]
        dx.append(L)
    camp.run(seqgen.header("Int", INTS), dx, "dup-tuple-into-list/Int", variant="List")
    camp.run(seqgen.header("String", STRS), dx, "dup-tuple-into-list/String", variant="List")
    nexec = 10 if quick else 120
    big = (lambda: rng.choice([60, 150])) if quick else (lambda: rng.choice([200, 800, 2500]))
    ml = 40 if quick else 300
    for kind in ("Array", "List", "Tuple"):
        ints = sorted(set(rng.sample(range(-50, 50), 7) + [0]))
        z = ints.index(0) + 1
        camp.run(seqgen.header("Int", ints), [seqgen.random_history(rng, kind, len(ints), big(), zero_tok=z, maxlen=ml, fromit=True, sortmixed=True)
                                             for _ in range(nexec)], "random/%s/Int" % kind, variant=kind)
        strs = sorted({bytes(rng.choice(b"ab\x80\xff") for _ in range(rng.randint(0, 3))) for _ in range(40)})[:8]
        camp.run(seqgen.header("String", strs), [seqgen.random_history(rng, kind, len(strs), big(), maxlen=ml, fromit=True, sortmixed=True)
                                                for _ in range(nexec)], "random/%s/String" % kind, variant=kind)
        if kind != "Tuple":
            camp.run(seqgen.header("Probe", list(range(8))), [seqgen.random_history(rng, kind, 8, big(), maxlen=ml)
                                                              for _ in range(nexec)], "random/%s/Probe" % kind, variant=kind)
            # 12-byte records without Swap / Assign instances of their own: the library's byte-wise defaults move them
            camp.run(seqgen.header("Odd12", list(range(-3, 5))), [seqgen.random_history(rng, kind, 8, big(), maxlen=ml)
                                                                  for _ in range(max(4, nexec // 2))], "random/%s/Odd12" % kind, variant=kind)
        if kind != "Tuple":
            # records whose type has its own Swap instance: sort exchanges elements through it
            camp.run(seqgen.header("Swp", list(range(-3, 5))), [seqgen.random_history(rng, kind, 8, big(), maxlen=ml, xassign=False)
                                                                for _ in range(max(4, nexec // 2))], "random/%s/Swp" % kind, variant=kind)
        # 16-byte records with no instances at all (mem / rem / sort go through the default byte-wise comparison); different
        # values share their first 8 bytes
        camp.run(seqgen.header("Pair16", list(range(0, 8))), [seqgen.random_history(rng, kind, 8, big(), maxlen=ml, xassign=False)
                                                              for _ in range(max(4, nexec // 2))], "random/%s/Pair16" % kind, variant=kind)

    chk.cov["rule"] = ("an execution = one history of public calls on real Arrays/Lists/Tuples; distinct = different "
                       "operation sequence, kind or element type; every event carries len, get(i), get(-i), mem of every "
                       "value, forward and backward iteration of every live sequence, judged by TLC against Sequence")
    chk.cov["exhaustive"] = chk.cov.get("model_edges") == chk.cov.get("model_edges_replayed")
    chk.assumptions += ["exhaustive for the constants of spec/Seq_*_%s.cfg" % ("quick" if quick else "thorough"),
                        "in-contract generation: no Tuple holding the same object twice (open finding F-C04-tuple-dup), "
                        "List resize growth only for Int elements (zero-filled elements)"]
    camp.report()
    runner.run_pinned(chk, {"h_seq": harness})
    return chk.finish()
