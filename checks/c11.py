#!/usr/bin/env python3
"""C11 - iteration agrees with len and get, forwards and backwards, for views too.

 1. TLC, exhaustive: Cursors.tla - the cursor machines of src/Iter.c (Range init/next/last/prev, len, get; Slice
    argument clamping and the Slice iteration driven by the Range cursor) equal the definitions of Views.tla on the
    complete grid (start, stop, step in -8..8 and `_`, underlying lengths 0..6) and never address a position outside
    the underlying iterable; the as-found Range_Len / Range_Iter_Last are refuted.
 2. The same grids, and random compositions to depth 3 of Array, List, Tuple, Table, Tree, Range, Slice (also
    reverse), Zip (0-3 inputs), enumerate, Filter and Map, are iterated on the real library.
 3. TLC validates every view (ViewTrace): forward = Elems(view) ending after exactly that many items, backward = its
    reverse, len and get(i), get(-i) where the view defines them.  Thorough runs an ASan build as well.
"""
import concurrent.futures, os, sys
sys.path.insert(0, os.path.join(os.path.dirname(os.path.abspath(__file__)), "..", "tools"))
import vlib, runner, viewgen

PID = "C11"


def pack(views, per=40):
    return [["reset"] + ["view " + v for v in views[i:i + per]] for i in range(0, len(views), per)]


def main(tier, replay=None):
    chk = vlib.Check(PID, tier, "model_checking")
    rng, wd = chk.rng, chk.wd
    quick = tier == "quick"
    with concurrent.futures.ThreadPoolExecutor(max_workers=4) as ex:
        f_lib = ex.submit(vlib.build_lib, wd)
        f_exh = ex.submit(vlib.tlc, "Cursors", "Cursors_quick.cfg", wd, 1, "4g")
        f_bug = ex.submit(vlib.tlc, "Cursors", "Cursors_bug.cfg", wd, 1, "2g")
        f_asan = None if quick else ex.submit(vlib.build_lib, wd, "asan", "clang", ("-fsanitize=address", "-fno-omit-frame-pointer"), "-O1")
        harness = vlib.build_harness(f_lib.result(), ["h_view.c"], os.path.join(wd, "h_view"))
        r_exh, r_bug = f_exh.result(), f_bug.result()
        hasan = vlib.build_harness(f_asan.result(), ["h_view.c"], os.path.join(wd, "h_view_asan")) if f_asan else None
    chk.model(r_exh, "Cursors")
    chk.cov["states"] = max(chk.cov.get("states", 0), 1)
    chk.cov["grid_points"] = 17 ** 3 + 7 * 18 ** 3
    if not r_exh.ok:
        print("MODEL-DRIFT module=Cursors: %s" % r_exh.invariant, flush=True)
    if r_bug.ok:
        raise vlib.ToolError("Cursors does not refute the as-found Range_Len / Range_Iter_Last")
    chk.lap("built + TLC")
    if replay:
        return runner.replay_file(chk, harness, replay, "ViewTrace", "ViewTrace.cfg", ())
    camp = runner.Campaign(chk, harness, "ViewTrace", "ViewTrace.cfg")
    args = ["u", "-8", "-3", "-1", "0", "1", "2", "3", "5", "8"] if quick else ["u"] + [str(i) for i in range(-8, 9)]
    lengths = [0, 1, 2, 5, 6] if quick else list(range(0, 7))
    camp.run([], pack(viewgen.slice_grid(lengths, args, "AL" if quick else "ALU"), 100), "grid/slice", sample=False)
    camp.run([], pack(viewgen.range_grid(range(-8, 9) if not quick else [-8, -5, -3, -2, -1, 0, 1, 2, 3, 4, 7, 8]), 100), "grid/range", sample=False)
    chk.sample({"grid": ["S 3 A 5 10 11 12 13 14 u 2 -1", "G 3 -3 8 3"]})
    n = 6000 if quick else 40000
    camp.run([], pack([viewgen.top(rng, rng.choice([1, 2, 2, 3])) for _ in range(n)], 50), "random")
    # magnitudes: values beyond 32 bits (unit-scaled: the specification sees value / unit) and slice arguments beyond 32 bits
    camp.run([], pack(viewgen.unit_views(rng, 600 if quick else 6000), 50), "magnitude/values", sample=False)
    camp.run([], pack(viewgen.bigpos_views(rng, 400 if quick else 4000), 50), "magnitude/positions", sample=False)
    camp.run([], [["reset"] + ["zipnull %d" % n for n in (0, 1, 2, 5, 8)]], "null-items", sample=False)
    # views over iterables longer than 2^31 items (a long Range costs nothing to build; a Slice seeks from the nearer end)
    camp.run([], [["reset"] + ["longview %d %d %s" % (a, b, k) for (a, b) in ((4768, 371200), (2048, 0), (2047, 1048575), (4096, 5), (1 << 16, 7))
                               for k in ("tail4", "neg3", "clamp", "step2", "rev")]], "magnitude/length", sample=False)
    if hasan:
        env = {"ASAN_OPTIONS": "detect_stack_use_after_return=0:detect_leaks=0:abort_on_error=1"}
        ca = runner.Campaign(chk, hasan, "ViewTrace", "ViewTrace.cfg", env=env)
        ca.run([], pack([viewgen.top(rng, rng.choice([1, 2, 3])) for _ in range(4000)], 50), "asan/random", sample=False)
        ca.run([], pack(viewgen.slice_grid([0, 1, 5], ["u", "-8", "-1", "0", "1", "3", "8"], "ALU"), 100), "asan/grid", sample=False)
        ca.report()
    chk.cov["rule"] = ("an evaluation = one view expression built and iterated on the real library (forward, backward, len, get(i), "
                       "get(-i)); TLC recomputes Elems(view) from the expression and compares; distinct = different expression text")
    chk.assumptions += ["values beyond 32 bits are checked through unit scaling (view(unit * values) = unit * view(values)); positions "
                        "beyond 2^30 are logged saturated (every such magnitude selects the same items of a container of < 2^30 items)",
                        "items are Ints (Zip items: tuples of Ints); predicates and map functions are five resp. three fixed ones",
                        "positional get is not checked for views over Table / Tree (their get takes keys)",
                        "heap constructors (new(Range/Slice/Zip/Filter/Map)) share the *_stack code paths of the macros"]
    camp.report()
    runner.run_pinned(chk, {"h_view": harness})
    return chk.finish()
