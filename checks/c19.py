#!/usr/bin/env python3
"""C19 - objects keep their true type and class; non-heap objects are never freed.

 1. TLC, exhaustive: ObjLife.tla - the outcome table Expect(class, registered, operation) over the whole class x
    operation matrix with sequences of up to 3 disposals: OnlyHeapReleased, AtMostOnce, RefusedIntact.
 2. The matrix on real objects: every way of obtaining an object (new, new_raw, new_root, alloc, $ / tuple() stack
    objects, copy, static type objects, elements / keys / values of Array, List, Table, Tree, Tuple items, iterator
    results of containers and of Range, Slice, Zip, Map, instances of run-time types) x every deallocating or
    reallocating operation (del, del_raw, del_root, dealloc, dealloc_raw, in-place resize / assign / concat / push /
    pop / pop_at on Strings and Tuples), free() interposed.
 3. TLC validates (ObjTrace): type_of and the header's allocation class are what the origin implies, size(type)
    bytes are writable and readable, heap objects are released exactly once, non-heap objects are refused with
    ResourceError or ValueError, keep their bytes and are never passed to free().
"""
import concurrent.futures, os, sys
sys.path.insert(0, os.path.join(os.path.dirname(os.path.abspath(__file__)), "..", "tools"))
import vlib, runner

PID = "C19"
HOWS_ANY = ["new", "new_raw", "new_root", "alloc", "alloc_raw", "alloc_root", "stack"]
TYPES = ["Int", "Float", "String", "Tuple", "Array", "Probe"]
ELEM_HOWS = ["aelem", "f_aelem", "lelem", "tkey", "tval", "rkey", "rval", "it_array", "it_list", "it_table", "it_tree",
             "c_tkey", "c_tval", "c_rkey", "c_rval", "a_tkey", "a_tval", "a_rkey", "a_rval"]      # copies / assignees, key and value sizes far apart
OTHER = [("staticobj", "String"), ("it_hrange", "Int"), ("copyplain", "Odd"), ("copy", "Int"), ("copy", "String"), ("copy", "Float"), ("static", "Int"), ("static", "String"), ("uitem", "Int"),
         ("it_range", "Int"), ("it_slice", "Int"), ("it_zip", "Int"), ("it_map", "Int"), ("rtinst", "Int")]
RELEASE = ["del_raw", "dealloc", "dealloc_raw", "dealloc_root"]
MANAGED = ["del", "del_root"]
INPLACE_S = ["resize", "assign", "assignin", "concat", "concatself", "append", "printto", "lookfrom", "lookempty", "scanshow"]
INPLACE_T = ["push", "pop", "popat", "resize", "concat", "concatself", "assign"]
KNOWN_SILENT = "F-C19-del-nonheap"


def cases(rng, quick):
    out = []
    def ops_for(how, ty, cls, reg):
        inplace = INPLACE_S if ty == "String" else INPLACE_T if ty == "Tuple" else []
        if how == "static":
            inplace = []                                   # the object is the type object itself
        if how in ("alloc", "alloc_raw", "alloc_root") and ty == "Tuple":
            inplace = ["push", "concat", "assign"]         # freshly allocated: empty
        heap = cls == "heap"
        seqs = []
        if heap:
            rel = MANAGED if reg else RELEASE          # in contract: an object is released through the family that made it
            for r in rel:
                seqs.append([r])
                if inplace:
                    seqs.append([rng.choice(inplace), r])
                    seqs.append([rng.choice(inplace), rng.choice(inplace), r])
            if not reg and how == "new_raw":
                seqs.append(["del", "del_raw"])               # del of an object the registry does not know: ignored, then released
        else:
            # withheld: del / del_root of a non-heap object is silently ignored (open finding, pinned script)
            bad = RELEASE + (inplace if cls in ("stack", "static") and ty in ("String", "Tuple") else [])
            for b in bad:
                seqs.append([b])
            for _ in range(2):
                k = rng.choice([2, 3])
                seqs.append([rng.choice(bad) for _ in range(k)])
        if ty in ("Int", "Float", "Half", "Odd", "Tiny"):       # swapped with a same-typed object of another storage class first
            seqs += [[rng.choice(["swapstack", "swapheap"])] + q for q in seqs[:3]] + [["swapstack", "swapheap"] + seqs[0]]
        return seqs
    for how in HOWS_ANY:
        for ty in TYPES + ["Half"]:            # Half: a type that brings its own allocator (like the library's Type)
            if how == "stack" and ty in ("Array", "Probe", "Half"):
                continue
            cls = "stack" if how == "stack" else "heap"
            reg = how in ("new", "new_root", "alloc", "alloc_root")
            for ops in ops_for(how, ty, cls, reg):
                out.append(["reset", "case %s %s %s" % (how, ty, " ".join(ops))])
    for how in ELEM_HOWS:
        for ty in ("Int", "Float", "String", "Probe", "Odd", "Tiny", "Half"):
            for ops in ops_for(how, ty, "data", False):
                out.append(["reset", "case %s %s %s" % (how, ty, " ".join(ops))])
    for ops in ops_for("stack", "Half", "stack", False):           # a stack object of the type with half an Alloc instance
        out.append(["reset", "case stack Half %s" % " ".join(ops)])
    for how, ty in OTHER:
        cls = {"copy": "heap", "static": "static", "staticobj": "static", "it_hrange": "heap", "copyplain": "heap", "uitem": "heap", "it_range": "stack", "it_zip": "stack", "rtinst": "heap"}.get(how, "data")
        reg = how in ("copy", "uitem", "rtinst", "it_hrange", "copyplain")
        t2 = "Tuple" if how == "it_zip" else ty
        if how == "it_hrange":                 # (the cursor belongs to the Range: obtained and looked at, not disposed of)
            out.append(["reset", "case %s %s swapstack" % (how, ty)]); out.append(["reset", "case %s %s swapheap" % (how, ty)])
            continue
        for ops in ops_for(how, t2, cls, reg):
            out.append(["reset", "case %s %s %s" % (how, ty, " ".join(ops))])
    return out


def main(tier, replay=None):
    chk = vlib.Check(PID, tier, "model_checking")
    rng, wd = chk.rng, chk.wd
    quick = tier == "quick"
    with concurrent.futures.ThreadPoolExecutor(max_workers=4) as ex:
        f_lib = ex.submit(vlib.build_lib, wd)
        f_exh = ex.submit(vlib.tlc, "ObjLifeMC", "ObjLife.cfg", wd, 2, "2g")
        harness = vlib.build_harness(f_lib.result(), ["h_obj.c"], os.path.join(wd, "h_obj"), ldflags=["-Wl,--wrap=free"])
        r_exh = f_exh.result()
    chk.model(r_exh, "ObjLife")
    if not r_exh.ok:
        print("MODEL-DRIFT module=ObjLife: %s" % r_exh.invariant, flush=True)
    chk.lap("built + TLC")
    if replay:
        return runner.replay_file(chk, harness, replay, "ObjTrace", "ObjTrace.cfg", ())
    camp = runner.Campaign(chk, harness, "ObjTrace", "ObjTrace.cfg")
    cs = cases(rng, quick)
    reps = 1 if quick else 4
    for _ in range(reps):
        camp.run([], cs, "matrix")
        cs = cases(rng, quick)
    # heap objects whose deletion is issued by an owning Box's destructor during a sweep (both orders of owner / owned
    # on the pending list occur among a few hundred pairs)
    owned = [["reset", "owned %d %d %s" % (rng.choice([50, 200, 400]), ch, how)] for ch in (0, 1, 2) for how in ("force", "churn") for _ in range(2 if quick else 8)]
    camp.run([], owned, "owned")
    chk.cov["rule"] = ("an execution = one object obtained in one of 23 ways (x value type) followed by a sequence of disposing "
                       "operations; TLC checks type, allocation class, usable size, release exactly once for heap objects, refusal "
                       "with ResourceError/ValueError and intact bytes for everything else; distinct = (how, type, operation sequence)")
    chk.cov["exhaustive"] = True
    chk.assumptions += ["double deletion of heap objects is out of contract and not generated",
                        "open finding F-C19-del-nonheap: del()/del_root() of a stack, static or embedded object is silently ignored "
                        "instead of raising (withheld from the matrix, reported by its pinned script)"]
    camp.report()
    runner.run_pinned(chk, {"h_obj": harness})
    return chk.finish()
