#!/usr/bin/env python3
"""C07 - try / catch / throw follow block structure.

 1. TLC, exhaustive: ExcMachine.tla (depth / active / obj driven by exception_try, _try_fail, _try_end, _catch, _throw
    as the macros compose them) executes every program lazily (2-3 kinds, every filter set, nesting <= 3, 9-10
    statements) and takes the same decisions as the block-structured reference; the as-found exception_catch
    (active never cleared) is refuted in 5 steps.
 2. Every transition of the model graph is turned back into a program tree and run with the real macros: once by a
    recursive interpreter (dynamic nesting through calls) and once as generated C source with lexically nested
    blocks; plus random larger trees (depth <= 6, up to 120 statements, calls, throws from handlers, sequences).
    Every program runs in a forked child: an uncaught exception must end it with a failure status and a diagnostic.
 3. TLC validates the recorded control flow (ExcTrace): handler iff in flight, nearest enclosing matching body,
    thrown object bound, nothing fires twice, depth restored after every construct.
"""
import concurrent.futures, os, sys
sys.path.insert(0, os.path.join(os.path.dirname(os.path.abspath(__file__)), "..", "tools"))
import vlib, runner, excgen, edgecover

PID = "C07"


def main(tier, replay=None):
    chk = vlib.Check(PID, tier, "model_checking")
    rng, wd = chk.rng, chk.wd
    quick = tier == "quick"
    with concurrent.futures.ThreadPoolExecutor(max_workers=6) as ex:
        f_lib = ex.submit(vlib.build_lib, wd)
        f_exh = ex.submit(vlib.tlc, "ExcMachine", "Exc_quick.cfg" if quick else "Exc_thorough.cfg", wd, 8 if quick else 14,
                          "6g" if quick else "24g", (), None, 3000)
        f_edge = ex.submit(vlib.tlc, "ExcMachine", "Exc_edges.cfg", wd, 4, "4g")
        f_bug = ex.submit(vlib.tlc, "ExcMachine", "Exc_bug.cfg", wd, 2, "2g")
        f_bug2 = ex.submit(vlib.tlc, "ExcMachine", "Exc_bug_msgobj.cfg", wd, 2, "2g")
        f_bug3 = ex.submit(vlib.tlc, "ExcMachine", "Exc_bug_catchobj.cfg", wd, 2, "2g")
        f_find = ex.submit(vlib.tlc, "ExcMachine", "Exc_finding_filtertry.cfg", wd, 2, "2g")      # model side of the open finding F-C07-filter-expression-runs-try
        f_kept = ex.submit(vlib.tlc, "ExcMachine", "Exc_filtertry_kept.cfg", wd, 4, "4g")         # ... and of a design that keeps the pending exception
        lib = f_lib.result()
        harness = vlib.build_harness(lib, ["h_exc.c"], os.path.join(wd, "h_exc"))
        r_exh, r_edge, r_bug = f_exh.result(), f_edge.result(), f_bug.result()
    chk.model(r_exh, "ExcMachine/exhaustive")
    chk.model(r_edge, "ExcMachine/Exc_edges.cfg")
    if not r_exh.ok:
        print("MODEL-DRIFT module=ExcMachine: %s" % r_exh.invariant, flush=True)
        chk.notes.append("ExcMachine: %s violated on the model" % r_exh.invariant)
    if r_bug.ok:
        raise vlib.ToolError("ExcMachine does not refute the as-found exception_catch: invariant vacuous")
    if f_bug3.result().ok:
        raise vlib.ToolError("ExcMachine does not refute the as-found exception_catch (record re-read after a filter comparison)")
    if f_bug2.result().ok:
        raise vlib.ToolError("ExcMachine does not refute the as-found exception_throw (object stored before the message is formatted)")
    chk.notes.append("ExcMachine/Exc_finding_filtertry.cfg (a filter expression that runs a try block, exception_try as found): block structure %s; "
                     "Exc_filtertry_kept.cfg (pending exception kept across the inner try): %s"
                     % ("holds - the model no longer shows the open finding" if f_find.result().ok else "refuted (open finding F-C07-filter-expression-runs-try)",
                        "holds" if f_kept.result().ok else "refuted"))
    edges = list(r_edge.lines("EDGE"))
    vlib.require_ops(edges, ("try", "throw", "thrownested", "mark", "endbody", "endhandler"), "ExcMachine")
    chk.lap("built + TLC")
    if replay:
        return runner.replay_file(chk, harness, replay, "ExcTrace", "ExcTrace.cfg", ())

    g = edgecover.Graph(edges)
    init = [[], 0, False, "none", 0, False, 0]
    paths, covered, total = g.cover(init, mode="edges", maxlen=12, rng=rng, budget=12000 if quick else None)
    chk.cov["model_edges"], chk.cov["model_edges_replayed"] = total, covered
    progs, seen = [], set()
    for p in paths:
        t = excgen.from_model_path(p)
        k = " ".join(excgen.tokens(t))
        if t and k not in seen:
            seen.add(k)
            progs.append(t)
    chk.lap("%d distinct programs from %d model paths" % (len(progs), len(paths)))

    camp = runner.Campaign(chk, harness, "ExcTrace", "ExcTrace.cfg")
    camp.run([], [excgen.execution(p) for p in progs], "model/dynamic")
    rnd = [excgen.random_prog(rng) for _ in range(300 if quick else 5000)]
    rnd = [p for p in rnd if p]
    camp.run([], [excgen.execution(p) for p in rnd], "random/dynamic")
    # many blocks open at the same time (the runtime keeps 2048 jump buffers)
    deep = [excgen.deep_prog(rng, d) for d in ((26, 40, 100, 300, 1000, 2000) if quick else (26, 27, 40, 64, 100, 129, 300, 513, 1000, 1500, 2000, 2040)) for _ in range(2 if quick else 6)]
    deep += [excgen.deep_prog(rng, d, wrap=False) for d in (2046, 2047, 2048, 2048)]       # up to exactly the 2048 blocks the runtime supports
    camp.run([], [excgen.execution(p) for p in deep], "deep/dynamic", sample=False)
    camp.run([], [["reset", "pairs"]], "kinds", sample=False)      # every (filter, thrown) pair of the 16 built-in kinds and 2 user kinds

    # the same programs with LEXICALLY nested try blocks: generated C, compiled against the working tree
    lexp = progs[:: max(1, len(progs) // (250 if quick else 1500))] + rnd[: (150 if quick else 1500)]
    src = os.path.join(wd, "lex_progs.c")
    with open(src, "w") as f:
        f.write(excgen.c_source(lexp))
    hlex = vlib.build_harness(lib, [src], os.path.join(wd, "h_exc_lex"))
    camp.run([], [["reset", "lex %d" % i] for i in range(len(lexp))], "lexical", harness=hlex, sample=False)
    chk.sample({"lexical_program": " ".join(excgen.tokens(lexp[len(lexp) // 2]))[:300]})

    chk.cov["rule"] = ("an execution = one try/throw/catch program tree run with the real macros in a forked child; the logged "
                       "control flow (try, throw, handler with bound kind, body/handler ends, depth after each construct, exit status "
                       "and diagnostic) is judged by TLC against block structure; distinct = different program text and nesting style")
    chk.assumptions += ["three exception kinds (TypeError, ValueError, KeyError objects) stand for 'several exception kinds'",
                        "nesting depth stays below the runtime's fixed limit of 2048 try blocks"]
    camp.report()
    runner.run_pinned(chk, {"h_exc": harness})
    return chk.finish()
