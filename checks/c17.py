#!/usr/bin/env python3
"""C17 - the collector's registry is exactly the set of live managed objects.

 1. TLC, exhaustive: Registry.tla (the open-addressed pointer table of src/GC.c: GC_Set_Ptr, GC_Mem_Ptr, GC_Rem_Ptr,
    the in-place compaction of GC_Sweep with wrap-around, rehash up and down) refines "a set of addresses with root
    flags" for all add/remove/sweep histories over colliding and wrapping addresses; Heap.tla's RegExact.
 2. Programs whose Node objects are placed (through the type's own Alloc instance) at arena addresses that collide
    modulo every registry size, plus ordinary malloc'd objects; forced and threshold collections.
 3. TLC validates every event (HeapTrace, Mode "reg"): the white-box dump of the registry (ids, root flags, count,
    no mark left, no duplicate, nothing unknown) and mem(gc, p) for every live object equal the specification's set;
    mem() is false for every reclaimed arena address.
"""
import os, sys
sys.path.insert(0, os.path.dirname(os.path.abspath(__file__)))
from gccommon import *

PID = "C17"


def main(tier, replay=None):
    chk = vlib.Check(PID, tier, "model_checking")
    rng = chk.rng
    quick = tier == "quick"
    import concurrent.futures
    with concurrent.futures.ThreadPoolExecutor(max_workers=2) as ex:
        f_reg = ex.submit(vlib.tlc, "Registry", "Registry_quick.cfg" if quick else "Registry_thorough.cfg", chk.wd, 6, "6g")
        f_bug = ex.submit(vlib.tlc, "Registry", "Registry_bug.cfg", chk.wd, 2, "2g")
        harness, edges = setup(chk, tier, [])
        r_reg, r_bug = f_reg.result(), f_bug.result()
    chk.model(r_reg, "Registry")
    if not r_reg.ok:
        print("MODEL-DRIFT module=Registry: %s" % r_reg.invariant, flush=True)
        chk.notes.append("Registry: %s violated on the model" % r_reg.invariant)
    if r_bug.ok:
        raise vlib.ToolError("Registry model does not refute the seeded sweep defect: invariants vacuous")
    if replay:
        return runner.replay_file(chk, harness, replay, "HeapTrace", "HeapTrace_reg.cfg", ())
    camp = runner.Campaign(chk, harness, "HeapTrace", "HeapTrace_reg.cfg", per_process=True)
    camp.run([], model_programs(chk, edges, rng, 5000 if quick else 60000), "model")
    n = 50 if quick else 500
    camp.run([], [gcgen.random_program(rng, nobj=rng.choice([20, 50, 90]), nops=rng.choice([120, 300, 500]),
                                       arena=arena_slots(rng, 100), kinds=["Node", "Node", "Node", "Ref", "Array", "Box"],
                                       p_collect=0.15) for _ in range(n)], "arena")
    camp.run([], [gcgen.random_program(rng, nobj=60, nops=300) for _ in range(n // 2)], "random/mixed")
    # thousands of objects, a fraction kept through a rooted Array of Ref: the registry passes through many of its sizes
    camp.run([], [["reset", "bulk %d %d" % (m, k)] for (m, k) in (((700, 3), (3000, 7), (12000, 2)) if quick else ((300, 1), (700, 3), (3000, 7), (12000, 2), (40000, 5), (60000, 11)))],
             "bulk", sample=False)
    camp.run([], [["reset", "copyplain"]], "copies-of-plain-objects", sample=False)
    # explicit deletes whose finalisers allocate: the registry changes under the removal that is in progress
    camp.run([], [["reset", "delalloc %d %d" % nk] for nk in ((6, 64), (40, 3), (300, 8), (5, 2))], "deleting-spawners", sample=False)
    # many root objects at once; the thorough tier passes the last entry of the collector's table of sizes (8 800 019 slots)
    camp.run([], [["reset", "regscale %d" % m] for m in ((200000,) if quick else (200000, 8900000))], "scale", sample=False)
    chk.cov["rule"] = ("an execution = one mutator program; after every operation the registry dump (ids, root flags, item count, "
                       "marks, duplicates, unknown entries) and mem(gc,p) of every live object must equal the specification's set of "
                       "live managed objects; distinct = program; arena programs place objects at addresses colliding modulo 5, 11, 23, 53")
    chk.assumptions += ["registry contents observed through the #include \"GC.c\" seam (falls back to mem() only if the struct is refactored)"]
    camp.report()
    runner.run_pinned(chk, {})          # open findings of this property: listed, identified by the input each entry describes
    return chk.finish()
