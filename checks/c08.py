#!/usr/bin/env python3
"""C08 - type-class dispatch returns exactly what the type declares.

 1. TLC, exhaustive: Dispatch.tla (18 lazily filled cache slots per type, memoised class pointers, lookups split into
    read-cache / scan / write-cache steps, 2 threads interleaved at that granularity, types with duplicated, missing
    and no classes): every answer ever given, and every value ever cached or memoised, equals the declaration; a
    seeded wrong memo write is refuted.
 2. On the real library, in a fresh process per execution (cold caches): the full matrix of built-in types x classes x
    members through every lookup entry point in random orders (cold, then warm), run-time types with 0..256 instances
    in arbitrary order (duplicates, empty members; the 257th instance refused), casts, and 4-16 threads doing first
    lookups concurrently.
 3. TLC validates every answer (DispatchTrace) against the declaration logged by an independent by-name scan of the
    raw type record.
"""
import concurrent.futures, os, sys
sys.path.insert(0, os.path.join(os.path.dirname(os.path.abspath(__file__)), "..", "tools"))
import vlib, runner

PID = "C08"
CLS_SIZE, CLS_ALLOC, CLS_NEW = 3, 4, 5          # positions of Size, Alloc, New in the harness class table
NB, NC = 29, 42          # 30 built-in classes + 12 decoy classes of the harness whose names extend / shorten / re-case built-in names
MEMBERS = [6, 1, 1, 1, 2, 2, 1, 1, 1, 1, 1, 1, 5, 4, 2, 6, 1, 1, 1, 1, 1, 8, 2, 1, 2, 2, 1, 4, 3, 1] + [1] * 12
HOWS = ["inst", "impl", "tinst", "timpl", "meth", "tmeth", "implm", "timplm", "simpl", "sinst"]


def matrix_exec(rng, types, passes=2, frac=1.0):
    L = ["reset"] + ["decl %d" % t for t in sorted(set(types) | {0})]          # type 0 = Type: what type objects themselves answer from
    cells = [(t, c) for t in types for c in range(NC)]
    for _ in range(passes):                     # first pass cold, later passes warm
        rng.shuffle(cells)
        for (t, c) in cells:
            if rng.random() > frac:
                continue
            how = rng.choice(HOWS)
            L.append("look %s %d %d %d" % (how, t, c, rng.randrange(MEMBERS[c])))
    # members of one (type, class) pair looked up back to back inside a single try block, in several orders (present after empty,
    # empty after present, repeats): no other lookup happens in between
    for (t, c) in rng.sample(cells, min(len(cells), 60)):
        if MEMBERS[c] >= 2:
            ms = [rng.randrange(MEMBERS[c]) for _ in range(rng.choice([2, 3, 5]))] + list(range(MEMBERS[c]))
            rng.shuffle(ms)
            L.append("lookseq %s %d %d %s" % (rng.choice(["meth", "tmeth"]), t, c, " ".join(map(str, ms[:12]))))
    return L


def runtime_exec(rng, big=False):
    L = ["reset", "decl 0"]
    ts = []
    for k in range(rng.choice([1, 2, 3])):
        t = 100 + k
        n = rng.choice([0, 1, 3, 8, 30]) if not big else rng.choice([255, 256])
        classes = [rng.randrange(NC) for _ in range(n)]
        L.append("rt %d %s" % (t, " ".join(map(str, classes))))
        L.append("decl %d" % t)
        ts.append(t)
    if big:
        L.append("rt 110 %s" % " ".join(str(rng.randrange(NC)) for _ in range(257)))      # refused: OutOfMemoryError
    cells = [(t, c) for t in ts for c in range(NC)] * 2
    rng.shuffle(cells)
    for (t, c) in cells:
        L.append("look %s %d %d %d" % (rng.choice(HOWS), t, c, rng.randrange(MEMBERS[c])))
    # the same Type object constructed again in place with another instance list: every cached answer must be forgotten
    if not big:
        for t in ts:
            n = rng.choice([0, 2, 6, 20])
            L.append("rert %d %s" % (t, " ".join(str(rng.randrange(NC)) for _ in range(n))))
            L.append("decl %d" % t)
        cells = [(t, c) for t in ts for c in range(NC)]
        rng.shuffle(cells)
        for (t, c) in cells:
            L.append("look %s %d %d %d" % (rng.choice(HOWS), t, c, rng.randrange(MEMBERS[c])))
        # ... also when the LAST question before and the FIRST question after the reconstruction are the same (type, class) pair and the
        # answer has changed (an answer remembered by address is then the wrong one)
        for t in ts:
            for how in ("timpl", "impl", "tinst", "timplm"):
                c = rng.randrange(NC); m = rng.randrange(MEMBERS[c])
                for has in (True, False, True):
                    others = [x for x in (rng.randrange(NC) for _ in range(rng.choice([0, 2, 5]))) if x != c]
                    cl = others + ([c] if has else [])
                    rng.shuffle(cl)
                    L.append("rert %d %s" % (t, " ".join(map(str, cl))))
                    L.append("decl %d" % t)
                    L.append("look %s %d %d %d" % (how, t, c, m))
    # two Type objects handed to swap after warm lookups (refused), then the same lookups again
    for (a, b) in ((ts[0], ts[-1] if len(ts) > 1 else rng.randrange(NB)), (rng.randrange(NB), rng.randrange(NB))):
        if a == b: continue
        L += ["decl %d" % a, "decl %d" % b]
        for t in (a, b):
            for c in (CLS_NEW, CLS_SIZE, CLS_ALLOC):
                if c is not None: L.append("look tinst %d %d 0" % (t, c))
        L.append("swaptypes %d %d" % (a, b))
        for t in (a, b):
            for c in (CLS_NEW, CLS_SIZE, CLS_ALLOC):
                if c is not None: L.append("look tinst %d %d 0" % (t, c))
    L.append("wrappers"); L.append("wrappers")           # (cold, then warm)
    for k in range(8): L.append("coldimpl %d" % ((k + len(L)) % 8))      # object-level questions about static type objects, each one's first while it is cold
    L.append("halfptr")                                   # Pointer instances with one member only, stored in Refs
    for _ in range(6):
        a, b = rng.randrange(NB), rng.randrange(NB)
        L.append("cast %d %d" % (a, b if rng.random() < 0.7 else a))
    for a in (27, 28):                                   # types with a Cast instance of their own, as object and as target
        for b in (27, 28, 4, rng.randrange(NB)):
            L.append("cast %d %d" % (a, b)); L.append("cast %d %d" % (b, a))
    return L


def thread_exec(rng, n):
    ts = rng.sample(range(NB), 6)
    L = ["reset", "decl 0", "rt 100 %s" % " ".join(str(rng.randrange(NC)) for _ in range(12))]
    ts.append(100)
    L += ["decl %d" % t for t in ts]
    L.append("threads %d 2 %s" % (n, " ".join(map(str, ts))))
    return L


def main(tier, replay=None):
    chk = vlib.Check(PID, tier, "model_checking")
    rng, wd = chk.rng, chk.wd
    quick = tier == "quick"
    with concurrent.futures.ThreadPoolExecutor(max_workers=4) as ex:
        f_lib = ex.submit(vlib.build_lib, wd)
        f_exh = ex.submit(vlib.tlc, "DispatchMC", "Dispatch_quick.cfg" if quick else "Dispatch_thorough.cfg", wd, 8 if quick else 14,
                          "6g" if quick else "24g", (), None, 3000)
        f_bug = ex.submit(vlib.tlc, "DispatchMC", "Dispatch_bug.cfg", wd, 2, "2g")
        harness = vlib.build_harness(f_lib.result(), ["h_type.c"], os.path.join(wd, "h_type"))
        r_exh, r_bug = f_exh.result(), f_bug.result()
    chk.model(r_exh, "Dispatch")
    if not r_exh.ok:
        print("MODEL-DRIFT module=Dispatch: %s" % r_exh.invariant, flush=True)
        chk.notes.append("Dispatch: %s violated on the model" % r_exh.invariant)
    if r_bug.ok:
        raise vlib.ToolError("Dispatch model does not refute the seeded memo defect")
    chk.lap("built + TLC")
    if replay:
        return runner.replay_file(chk, harness, replay, "DispatchTrace", "DispatchTrace.cfg", ())
    camp = runner.Campaign(chk, harness, "DispatchTrace", "DispatchTrace.cfg", per_process=True)
    allt = list(range(NB))
    camp.run([], [matrix_exec(rng, allt, passes=3)] + [matrix_exec(rng, rng.sample(allt, 6), passes=2) for _ in range(8 if quick else 80)]
             + [matrix_exec(rng, allt, passes=1, frac=0.3) for _ in range(6 if quick else 60)], "matrix")
    camp.run([], [runtime_exec(rng) for _ in range(20 if quick else 300)] + [runtime_exec(rng, big=True) for _ in range(2 if quick else 10)],
             "runtime-types")
    camp.run([], [thread_exec(rng, n) for n in (2, 4, 8, 16) for _ in range(3 if quick else 40)], "threads", sample=False)
    camp.run([], [["reset", "decl 0", "nulltype"]], "null-type", sample=False)
    chk.cov["rule"] = ("an execution = a sequence of lookups (8 entry points) / casts / run-time type constructions in a fresh process "
                       "(cold caches), or n threads doing first lookups concurrently; every answer is judged by TLC against the "
                       "declaration found by an independent by-name scan of the raw type record; distinct = different sequence")
    chk.assumptions += ["the oracle reads the public struct Type layout (cache words, __Name, __Size, then entries)",
                        "27 built-in types x 30 classes; class structs are arrays of function pointers (member = index)"]
    camp.report()
    runner.run_pinned(chk, {})          # open findings of this property: listed, identified by the input each entry describes
    return chk.finish()
