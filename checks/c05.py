#!/usr/bin/env python3
"""C05 - containers own their elements: each instance is finalised exactly once.

 1. TLC, exhaustive: Ownership.tla (what container operations do to element instances) keeps
    LiveIsHeld, Disjoint, OnceOnly, NeverWhileHeld, AllGone, RetireMonotone; the switches that
    reproduce the two defects found (leak on refused insert, orphan on replace) are refuted.
 2. The real containers (Array, List, Table, Tree, Array/List of Box) hold Probe elements whose
    constructor / assignment / destructor keep a ledger of instances; after every public call the
    log carries the serials inside every live container and the set of live instances.
 3. TLC validates every recorded call (MapTrace / SeqTrace, Mode "own"): no instance twice, nothing
    finalised while contained, nothing leaked, nothing finalised twice, copies deep, all gone at the end.
"""
import concurrent.futures, os, sys
sys.path.insert(0, os.path.join(os.path.dirname(os.path.abspath(__file__)), "..", "tools"))
import vlib, runner, mapgen, seqgen, edgecover
from c02 import model_keys

PID = "C05"


def box_history(rng, kind, nvals, nops, maxlen=24):
    """Arrays / Lists whose elements are Boxes owning managed Probes: insertions and removals only
    (assigning a Box does not free the old pointee: aliasing Boxes is out of contract)."""
    L = ["reset"]
    n = rng.choice([0, 2, 5])
    L.append("new 1 %s%s" % (kind, "".join(" %d" % rng.randint(1, nvals) for _ in range(n))))
    for _ in range(nops):
        r = rng.random()
        v = rng.randint(1, nvals)
        if r < 0.35 and n < maxlen:
            L.append("push 1 %d" % v); n += 1
        elif r < 0.5 and n < maxlen:
            hi = n + 1 if kind == "Array" else max(n, 1)
            L.append("pushat 1 %d %d" % (v, rng.randrange(0, hi))); n += 1
        elif r < 0.7:
            if n: L.append("pop 1"); n -= 1
        elif r < 0.85:
            if n: L.append("popat 1 %d" % rng.randrange(0, n)); n -= 1
        elif r < 0.95:
            m = rng.choice([0, n // 2, max(n - 1, 0)] + ([n + 1, n + 2] if kind == "Array" else []))      # (an Array may also trim spare room: len < m < capacity)
            L.append("resize 1 %d" % m); n = min(n, m) if m else 0
        else:
            L.append("del 1")
            n = rng.choice([0, 3])
            L.append("new 1 %s%s" % (kind, "".join(" %d" % rng.randint(1, nvals) for _ in range(n))))
    return L


def main(tier, replay=None):
    chk = vlib.Check(PID, tier, "model_checking")
    rng, wd = chk.rng, chk.wd
    quick = tier == "quick"
    with concurrent.futures.ThreadPoolExecutor(max_workers=6) as ex:
        f_lib = ex.submit(vlib.build_lib, wd)
        f_own = {v: ex.submit(vlib.tlc, "Ownership", "Own_%s.cfg" % v, wd, 4, "2g") for v in ("ok", "leak", "orphan")}
        f_tab = ex.submit(vlib.tlc, "TableImpl", "Table_edges.cfg", wd, 4, "4g")
        f_seq = {k: ex.submit(vlib.tlc, "SeqModel", "Seq_%s_quick.cfg" % k, wd, 2, "2g") for k in ("Array", "List")}
        lib = f_lib.result()
        hmap = vlib.build_harness_wb(lib, ["h_map.c"], os.path.join(wd, "h_map"), ("Tree.c",), chk.notes)
        hseq = vlib.build_harness(lib, ["h_seq.c"], os.path.join(wd, "h_seq"))
        hgc = vlib.build_harness_wb(lib, ["h_gc.c"], os.path.join(wd, "h_gc"), ("GC.c",), chk.notes)
        own = {v: f.result() for v, f in f_own.items()}
        r_tab = f_tab.result()
        r_seq = {k: f.result() for k, f in f_seq.items()}
    chk.lap("built + TLC")
    if replay:
        first = open(replay).readline().split()
        if len(first) == 3:
            return runner.replay_file(chk, hmap, replay, "MapTrace", "MapTrace_own.cfg", ("types", "K", "W", "hashmul"))
        return runner.replay_file(chk, hseq, replay, "SeqTrace", "SeqTrace_own.cfg", ("types", "K"))

    chk.model(own["ok"], "Ownership/Own_ok.cfg")
    if not own["ok"].ok:
        raise vlib.ToolError("Ownership model: %s violated in the repaired configuration" % own["ok"].invariant)
    for v in ("leak", "orphan"):       # non-vacuity: the invariants refute the defective designs
        if own[v].ok:
            raise vlib.ToolError("Ownership model does not refute the '%s' defect: invariants are vacuous" % v)
    chk.notes.append("Ownership invariants refute LeakOnRefusedInsert and OrphanOnReplace (non-vacuity)")

    cm = runner.Campaign(chk, hmap, "MapTrace", "MapTrace_own.cfg")
    cs = runner.Campaign(chk, hseq, "SeqTrace", "SeqTrace_own.cfg")

    # model-derived paths (every transition of the Table model; of the Array/List models) with Probe elements
    mkeys = model_keys("Table_edges.cfg")
    g = edgecover.Graph(list(r_tab.lines("EDGE")))
    paths, cov, tot = g.cover([1, [-1]], mode="edges", maxlen=60, rng=rng, budget=12000 if quick else None)
    ms = mapgen.ModelScripts("Table", {k: i + 1 for i, k in enumerate(mkeys)}, {1: 1, 2: 2})
    cm.run(mapgen.header("Probe", "Probe", mkeys, [100, 200]), [ms.execution(p) for p in paths], "model/Table")
    chk.cov["model_edges"] = tot
    chk.cov["model_edges_replayed"] = cov
    for kind in ("Array", "List"):
        g = edgecover.Graph(list(r_seq[kind].lines("EDGE")))
        paths, cov, tot = g.cover([[], 0], mode="edges", maxlen=60, rng=rng, budget=8000 if quick else None)
        chk.cov["model_edges"] += tot
        chk.cov["model_edges_replayed"] += cov
        sm = seqgen.ModelScripts(kind, {0: 1, 1: 2, 2: 3}, False)
        cs.run(seqgen.header("Probe", [0, 5, 9]), [sm.execution(seqgen.cut_grow(kind, p)) for p in paths], "model/" + kind)

    # random histories: Tables and Trees mixed (assign / copy across kinds), Arrays and Lists mixed
    nexec = 16 if quick else 200
    nops = (lambda: rng.choice([80, 250])) if quick else (lambda: rng.choice([300, 1500]))
    for kind in ("Table", "Tree"):
        # collision classes: homes 0 and 4 modulo 5 and 11, plus keys whose home is the FIRST slot (multiples of 5*11*23*53) and
        # the LAST slot (one less) of every small table size: clusters that wrap around the end of the slot array
        M = 5 * 11 * 23 * 53
        keys = sorted({c + 55 * rng.randrange(0, 40) for c in (0, 4) for _ in range(4)} |
                      {M * rng.randrange(0, 30) for _ in range(5)} | {M - 1 + M * rng.randrange(0, 30) for _ in range(7)})[:16]
        cm.run(mapgen.header("Probe", "Probe", keys, [7, 8, 9]),
               [mapgen.random_history(rng, kind, len(keys), 3, nops(), init_pairs=rng.choice([0, 3])) for _ in range(nexec)],
               "random/" + kind)
        # key and value types of different sizes (slot / node layouts must give each its own size(type) bytes)
        for kt, vt in (("Int", "Probe"), ("Probe", "Int"), ("String", "Probe"), ("Int", "Odd12"), ("Odd12", "Probe")):
            ks = [b"k%02d" % i for i in range(16)] if kt == "String" else keys
            cm.run(mapgen.header(kt, vt, ks, [7, 8, 9]),
                   [mapgen.random_history(rng, kind, len(ks), 3, nops(), init_pairs=rng.choice([0, 3])) for _ in range(max(4, nexec // 4))],
                   "random/%s/%s-%s" % (kind, kt, vt))
    for kind in ("Array", "List"):
        cs.run(seqgen.header("Probe", list(range(8))),
               [seqgen.random_history(rng, kind, 8, nops(), maxlen=40 if quick else 200) for _ in range(nexec)], "random/" + kind)
        # elements with a wide body (160 bytes) that own a block at either end: whatever moves elements moves all of each one
        cs.run(seqgen.header("WProbe", list(range(8))),
               [seqgen.random_history(rng, kind, 8, nops(), maxlen=40 if quick else 200) for _ in range(max(4, nexec // 2))], "random/%s/wide" % kind)
        cs.run(seqgen.header("Box", list(range(8))), [box_history(rng, kind, 8, nops()) for _ in range(nexec // 2)], "box/" + kind)

    # containers of Boxes deleted by the COLLECTOR (dropped, or still alive at exit) rather than by hand: what the Boxes own is
    # finalised exactly once although the same sweep has it on its own list (judged by HeapTrace, one process per program)
    cg = runner.Campaign(chk, hgc, "HeapTrace", "HeapTrace_final.cfg", per_process=True)
    cg.run([], [["reset", "boxcont %d" % m] for m in ((9, 40, 300) if quick else (5, 9, 40, 300, 3000))], "collected-containers", sample=False)
    # ... and containers of Boxes that stay reachable while collections run (hashed / scattered keys): nothing they own is finalised
    cg.run([], [["reset", "boxheld %d" % m] for m in ((12, 60, 400) if quick else (6, 12, 60, 400, 3000))], "held-containers", sample=False)
    cg.report()

    chk.cov["rule"] = ("an execution = one history of container calls with Probe (or Box-of-Probe) elements on the real "
                       "library; after every call TLC checks: serials inside all containers pairwise distinct and equal to "
                       "the ledger's live set, no ledger error (double/unknown finalisation, broken canary), empty ledger "
                       "after everything was deleted; distinct = different operation sequence or container kind")
    chk.assumptions += ["the Probe element type (harness/hc.h) stands for 'an element type with its own constructor, "
                        "assignment and destructor that owns heap memory'",
                        "Boxes are never aliased (assigning or copying a Box does not transfer ownership: documented contract)"]
    runner.run_pinned(chk, {"h_map": hmap, "h_seq": hseq})
    nm = cm.report()
    ns = cs.report()
    return chk.finish()
