#!/usr/bin/env python3
"""C18 - build configurations agree on every in-contract program.

 The abstract specifications contain no configuration variable and are deterministic in their observable outputs
 (checked here on the TLC state graphs of the container / string / file models: a state and a labelled operation have
 exactly one successor).  The same seeded in-contract workloads (sequences, maps, strings, iteration views, sorting,
 copying, formatting, value comparison and hashing, exceptions) are executed by the same harnesses built against the
 library in every configuration {default, CELLO_NDEBUG, CELLO_CACHE=0, CELLO_NGC} x {-O0, -O2 (, -O3)}:
   * the reference traces (default, -O0) are validated by TLC against the specifications (so the workload is meaningful
     and stays in contract),
   * every other configuration's trace must be byte-identical to the reference after removing address-derived fields.
"""
import concurrent.futures, json, os, re, sys
sys.path.insert(0, os.path.join(os.path.dirname(os.path.abspath(__file__)), "..", "tools"))
import vlib, runner, viewgen, excgen, fmtgen, valgen

PID = "C18"
CONFIGS = {"default": (), "ndebug": ("-DCELLO_NDEBUG",), "nocache": ("-DCELLO_CACHE=0",), "ngc": ("-DCELLO_NGC",)}
HARNESSES = {"h_seq": (["h_seq.c"], ()), "h_map": (["h_map.c"], ("Tree.c",)), "h_str": (["h_str.c"], ()), "h_view": (["h_view.c"], ()),
             "h_exc": (["h_exc.c"], ()), "h_fmt": (["h_fmt.c"], ()), "h_val": (["h_val.c"], ()), "h_type": (["h_type.c"], ())}
TRACE_SPEC = {"h_seq": ("SeqTrace", "SeqTrace_seq.cfg"), "h_map": ("MapTrace", "MapTrace_map.cfg"), "h_str": ("CStringTrace", "CStringTrace.cfg"),
              "h_view": ("ViewTrace", "ViewTrace.cfg"), "h_exc": ("ExcTrace", "ExcTrace.cfg"), "h_fmt": ("FmtTrace", "FmtTrace_print.cfg"),
              "h_val": ("ValTrace", "ValTrace_cmp.cfg"), "h_type": ("DispatchTrace", "DispatchTrace.cfg")}
hx = lambda b: b.hex() if b else "-"


def strict_seq(rng, kind, nvals, nops):
    """only operations that succeed: indices in range, pops of non-empty sequences, removal of present values"""
    L = ["reset", "new 1 %s" % kind]
    q = []
    for _ in range(nops):
        r = rng.random(); n = len(q); v = rng.randint(1, nvals)
        if r < 0.3 or n == 0:
            L.append("push 1 %d" % v); q.append(v)
        elif r < 0.4:
            # valid positions per kind (as in seqgen.pushat_pos), written with a negative index half of the time
            if kind == "Array":
                p = rng.randrange(0, n + 1); i = p if rng.random() < 0.5 else p - (n + 1)
            elif n == 0:
                if kind != "List": continue
                p = i = 0
            else:
                p = rng.randrange(0, n); i = p if rng.random() < 0.5 else p - n
            L.append("pushat 1 %d %d" % (v, i)); q.insert(p, v)
        elif r < 0.5:
            L.append("pop 1"); q.pop()
        elif r < 0.6:
            i = rng.randrange(0, n); L.append("popat 1 %d" % (i if rng.random() < 0.5 else i - n)); del q[i]
        elif r < 0.7:
            i = rng.randrange(0, n); L.append("set 1 %d %d" % (i if rng.random() < 0.5 else i - n, v)); q[i] = v
        elif r < 0.75:
            L.append("get 1 %d" % rng.randrange(-n, n))
        elif r < 0.82:
            x = rng.choice(q); L.append("rem 1 %d" % x); q.remove(x)
        elif r < 0.88 and kind != "List":
            L.append("sort 1"); q.sort()
        elif r < 0.93:
            vs = [rng.randint(1, nvals) for _ in range(rng.randint(0, 3))]
            L.append("concatv 1%s" % "".join(" %d" % x for x in vs)); q += vs
        elif kind != "Tuple" or n > 1:
            m = rng.randrange(0, n) if kind == "Tuple" else rng.choice([0, n // 2, n, n + 4] if kind == "Array" else [0, n // 2, n])
            L.append("resize 1 %d" % m); del q[m:]
        if rng.random() < 0.05:
            L.append("copy 2 1"); L.append("del 2")
    return L


def strict_map(rng, kind, nkeys, nops):
    L = ["reset", "new 1 %s" % kind]
    present = set()
    for _ in range(nops):
        r = rng.random(); k = rng.randint(1, nkeys)
        if r < 0.5 or not present:
            L.append("set 1 %d %d" % (k, rng.randint(1, 3))); present.add(k)
        elif r < 0.75:
            k = rng.choice(sorted(present)); L.append("rem 1 %d" % k); present.discard(k)
        elif r < 0.85:
            L.append("get 1 %d" % rng.choice(sorted(present)))
        elif r < 0.9:
            L.append("mem 1 %d" % k)
        elif r < 0.95 and kind == "Table":
            L.append("resize 1 %d" % (len(present) + rng.choice([0, 3, 40])))
        else:
            L.append("copy 2 1"); L.append("assign 2 1"); L.append("del 2")
    return L


def strict_str(rng, nops):
    s = b"seed"
    L = ["reset", ("new 1 %s" if rng.random() < 0.5 else "newin 1 " + rng.choice("ALTR") + " %s") % hx(s)]      # on its own, or inside a container
    for _ in range(nops):
        r = rng.random()
        t = bytes(rng.choice(b"abc\x80") for _ in range(rng.randint(0, 4)))
        if r < 0.25: L.append("concat 1 %s" % hx(t)); s += t
        elif r < 0.4: L.append("assign 1 %s" % hx(t)); s = t
        elif r < 0.55 and s:
            i = rng.randrange(len(s)); j = rng.randint(i, min(len(s), i + 3)); sub = s[i:j]
            L.append("rem 1 %s" % hx(sub)); k = s.find(sub); s = s[:k] + s[k + len(sub):]
        elif r < 0.7: L.append("mem 1 %s" % hx(t))
        elif r < 0.8: n = rng.randint(0, len(s) + 3); L.append("resize 1 %d" % n); s = s[:n]
        elif r < 0.9: p = rng.randint(0, len(s)); L.append("printat 1 %d %s" % (p, hx(t))); s = s[:p] + t
        else: L.append("copy 2 1"); L.append("cmp 1 2")
    return L


def workloads(rng, quick):
    n = 6 if quick else 40
    W = {}
    W["h_seq"] = []
    for et, vals in (("Int", [0, 3, 7, 11]), ("String", [b"", b"x", b"xy", b"\xfe"]), ("Probe", [0, 1, 2, 3])):
        hdr = ["types %s" % et] + ["K %d %s" % (i + 1, hx(v) if isinstance(v, bytes) else v) for i, v in enumerate(vals)]
        for kind in ("Array", "List", "Tuple"):
            if kind == "Tuple" and et == "Probe": continue
            W["h_seq"].append((hdr, [strict_seq(rng, kind, 4, 80) for _ in range(n)]))
    W["h_map"] = []
    for kt, keys in (("Int", list(range(0, 12 * 55, 55))), ("String", sorted(b"k%d" % i for i in range(12))), ("Probe", list(range(0, 12 * 55, 55)))):
        vt = "Probe" if kt == "Probe" else "Int"
        hdr = ["types %s %s" % (kt, vt), "hashmul 1"] + ["K %d %s" % (i + 1, hx(k) if isinstance(k, bytes) else k) for i, k in enumerate(keys)] + ["W 1 7", "W 2 8", "W 3 9"]
        for kind in ("Table", "Tree"):
            W["h_map"].append((hdr, [strict_map(rng, kind, 12, 80) for _ in range(n)]))
    W["h_str"] = [([], [strict_str(rng, 60) for _ in range(n * 2)])]
    # len() of a Map / Zip / Slice over a Filter is a ClassError (an error path): a Filter only at the top
    views = [v for v in (viewgen.top(rng, rng.choice([1, 2, 3])) for _ in range(70 * n)) if "F" not in v.split()[1:] or v.split()[0] == "F"]
    W["h_view"] = [(["nofail"], [["reset"] + ["view " + v for v in views[i:i + 60]] for i in range(0, len(views), 60)])]
    progs = [p for p in (excgen.random_prog(rng) for _ in range(40 * n)) if p]
    W["h_exc"] = [([], [excgen.execution(p) for p in progs])]
    # formatting: no %p and no containers shown with their address (addresses differ between builds by nature)
    ex = fmtgen.print_execs(rng, True)
    W["h_fmt"] = [([], [[l for l in e if ",P," not in l and "WA" not in l and "WL" not in l and "WT" not in l and "WN" not in l and "WX" not in l and "WR" not in l and "WV" not in l and "Wv" not in l and "WM" not in l and "Wm" not in l and "WO" not in l and "Wo" not in l] for e in ex[: max(2, n)]])]
    W["h_val"] = [([], [valgen.scalar_cmp_exec(rng, k) for k in "IFSX"] + [valgen.seq_cmp_exec(rng, strict=True)] + [["reset", "pool 5", "pool 8", "pool 1", "cycle 3000", "cycle 200", "cycle 6000"]])]
    # dispatch without error paths: which instance / whether implemented, on built-in and run-time types, with the same Type
    # object constructed again in place (cached answers must be forgotten whether or not there is a cache)
    def type_exec():
        NBt, NCt = 29, 42
        hows = ["inst", "impl", "tinst", "timpl", "implm", "timplm"]
        L = ["reset"]
        ts = []
        for k in range(2):
            t = 100 + k
            L.append("rt %d %s" % (t, " ".join(str(rng.randrange(NCt)) for _ in range(rng.choice([1, 5, 12])))))
            L.append("decl %d" % t); ts.append(t)
        bt = rng.sample([t for t in range(NBt) if t != 23], 3)        # 23 = GC: absent under CELLO_NGC
        L += ["decl %d" % t for t in bt]
        for rnd in range(2):
            cells = [(t, c) for t in ts + bt for c in range(NCt)]
            rng.shuffle(cells)
            for (t, c) in cells:
                L.append("look %s %d %d 0" % (rng.choice(hows), t, c))
            if rnd == 0:
                for t in ts:
                    L.append("rert %d %s" % (t, " ".join(str(rng.randrange(NCt)) for _ in range(rng.choice([0, 3, 9])))))
                    L.append("decl %d" % t)
        return L
    W["h_type"] = [([], [type_exec() for _ in range(max(2, n // 2))])]
    return W


ADDR = re.compile(r'"ah":\[[^\]]*\],?|"msg":"[^"]*",?')


def norm(ev):
    return ADDR.sub("", ev)


def deterministic(edges, what):
    seen = {}
    for e in edges:
        k = (json.dumps(e["f"], sort_keys=True), json.dumps(e["a"], sort_keys=True))
        t = json.dumps(e["t"], sort_keys=True)
        if seen.setdefault(k, t) != t:
            raise vlib.ToolError("specification %s is not deterministic: %s" % (what, k))
    return len(seen)


def main(tier, replay=None):
    chk = vlib.Check(PID, tier, "exploration")
    rng, wd = chk.rng, chk.wd
    quick = tier == "quick"
    opts = ["-O0", "-O2"] if quick else ["-O0", "-O2", "-O3"]
    combos = [(c, o) for c in CONFIGS for o in opts]
    W = workloads(rng, quick)

    def build(co):
        c, o = co
        lib = vlib.build_lib(wd, "%s%s" % (c, o), "gcc", CONFIGS[c], o)
        hs = {}
        for h, (srcs, wb) in HARNESSES.items():
            hs[h] = vlib.build_harness_wb(lib, srcs, os.path.join(lib["dir"], h), wb, None) if wb else \
                vlib.build_harness(lib, srcs, os.path.join(lib["dir"], h))
        return co, (hs, lib)
    with concurrent.futures.ThreadPoolExecutor(max_workers=4) as ex:
        f_models = [ex.submit(vlib.tlc, m, cfg, wd, 2, "3g") for m, cfg in (("SeqModel", "Seq_Array_quick.cfg"), ("TableImpl", "Table_edges.cfg"),
                                                                            ("CStringModel", "CString_quick.cfg"), ("RBTree", "Tree_edges.cfg"))]
        both = dict(ex.map(build, combos))
        built = {co: v[0] for co, v in both.items()}
        built_libs = {co: v[1] for co, v in both.items()}
        ndet = 0
        for f, name in zip(f_models, ("SeqModel", "TableImpl", "CStringModel", "RBTree")):
            r = f.result()
            chk.model(r, name)
            ndet += deterministic(list(r.lines("EDGE")), name)
    chk.cov["deterministic_state_action_pairs"] = ndet
    chk.lap("built %d configurations x %d harnesses; specifications deterministic on %d (state, operation) pairs" % (len(combos), len(HARNESSES), ndet))
    ref_co = ("default", "-O0")
    if replay:
        txt = open(replay).read().splitlines()
        m = re.match(r"# harness (\S+) configuration (\S+) (\S+)", txt[0])
        if not m:
            raise vlib.ToolError("replay file does not name harness and configuration")
        h, co = m.group(1), (m.group(2), m.group(3))
        if co not in both:
            both.update([build(co)])
        body = [l for l in txt[1:] if l.strip()]
        k = next(i for i, l in enumerate(body) if l.split()[0] == "reset")
        hdr, ex1 = body[:k], body[k:]
        if h == "h_cfg":
            outs = []
            for c in (ref_co, co):
                hb = vlib.build_harness(both[c][1], ["h_cfg.c"], os.path.join(both[c][1]["dir"], "h_cfg"))
                outs += [x for (_l, e) in runner.execute(chk, hb, [], [ex1], tag="rp_%s" % c[0]) for x in e]
            tp = os.path.join(wd, "replay.ndjson"); open(tp, "w").write("\n".join(outs) + "\n")
            bad = not vlib.validate_trace("CfgTrace", "CfgTrace.cfg", tp, wd)[0]
        else:
            a = [norm(x) for (_l, e) in runner.execute(chk, both[ref_co][0][h], hdr, [ex1], tag="rp_ref") for x in e]
            b = [norm(x) for (_l, e) in runner.execute(chk, both[co][0][h], hdr, [ex1], tag="rp_cfg") for x in e]
            bad = a != b
        if bad:
            print("replay: %s under %s %s still disagrees with the reference" % (h, co[0], co[1]))
            print("VIOLATION property=%s replay=%s" % (PID, replay))
            return 1
        print("replay: configurations agree")
        return 0
    nexec = ndiff = nev = 0
    for h, groups in W.items():
        module, cfg = TRACE_SPEC[h]
        camp = runner.Campaign(chk, built[ref_co][h], module, cfg)
        for gi, (hdr, execs) in enumerate(groups):
            ref = runner.execute(chk, built[ref_co][h], hdr, execs, tag="ref_%s%d" % (h, gi))
            camp.pending += [(l, e, (hdr, "reference/%s" % h, built[ref_co][h])) for (l, e) in ref]
            strip_line = lambda x: re.sub(r',?"line":\d+', "", x)
            refl = [(l, [norm(x) for x in e]) for (l, e) in ref]
            nexec += len(ref); nev += sum(len(e) for (_l, e) in ref)
            for co in combos:
                if co == ref_co:
                    continue
                got = runner.execute(chk, built[co][h], hdr, execs, tag="%s_%s%s%d" % (h, co[0], co[1].replace("-", ""), gi))
                if [l for (l, _e) in got] != [l for (l, _e) in refl]:
                    # a crash made the runner restart or give up: executions are missing or shifted under this configuration
                    k = next((i for i, ((l1, _e1), (l2, _a2)) in enumerate(zip(got, refl)) if l1 != l2), min(len(got), len(refl)))
                    bad = refl[k][0] if k < len(refl) else []
                    last = got[k - 1][1][-1] if k > 0 and got[k - 1][1] else ""
                    ndiff += 1
                    chk.violation("%s under %s %s did not complete the executions the reference completed (stopped near execution %d: %s)" %
                                  (h, co[0], co[1], k, last[:200]), "# harness %s configuration %s %s\n%s" % (h, co[0], co[1], "\n".join(hdr + (got[k - 1][0] if k > 0 else bad))))
                    continue
                for (l, e), (_l, a) in zip(got, refl):
                    b = [norm(x) for x in e]
                    nev += len(e)
                    if a != b:
                        ndiff += 1
                        if ndiff <= 3:
                            i = next((k for k in range(min(len(a), len(b))) if a[k] != b[k]), min(len(a), len(b)))
                            chk.violation("%s under %s %s differs from the reference at event %d: %s | reference: %s" %
                                          (h, co[0], co[1], i, (b[i] if i < len(b) else "<end>")[:300], (a[i] if i < len(a) else "<end>")[:300]),
                                          "# harness %s configuration %s %s\n%s" % (h, co[0], co[1], "\n".join(hdr + l)))
        camp.flush()
        chk.cov["traces_validated_against_impl"] = chk.cov.get("traces_validated_against_impl", 0) + camp.accepted
        for hdr, rej, origin in camp.rejections[:2]:
            ev = rej.failing_event()
            chk.violation("%s: reference trace rejected by %s at event %d op=%s" % (origin, module, rej.event_index, ev.get("op")), "\n".join(hdr + rej.lines))
        chk.lap("%s: compared across %d configurations" % (h, len(combos)))
    # the allocation-heavy mixed program: all configurations in one log, TLC (CfgTrace) demands one digest per (seed, round)
    hcfg = {co: vlib.build_harness(built_libs[co], ["h_cfg.c"], os.path.join(built_libs[co]["dir"], "h_cfg")) for co in combos}
    progs = [["reset", "mix %d %d" % (rng.randint(1, 10**6), 5 if quick else 25)] for _ in range(4 if quick else 12)]

    def cfg_trace(tag):
        order, lines = [], []
        for co in [ref_co] + [c for c in combos if c != ref_co]:
            for (l, e) in runner.execute(chk, hcfg[co], [], progs, tag="%s_%s%s" % (tag, co[0], co[1].replace("-", ""))):
                for x in e:
                    order.append((co, l)); lines.append(x)
        tp = os.path.join(wd, "%s.ndjson" % tag)
        open(tp, "w").write("\n".join(lines) + "\n")
        ok, matched, total, _r = vlib.validate_trace("CfgTrace", "CfgTrace.cfg", tp, wd)
        return ok, matched, total, order, lines
    ok, matched, total, order, lines = cfg_trace("cfgmix")
    nev += total
    if not ok:
        ok2, matched2, _t, order2, lines2 = cfg_trace("cfgmix_confirm")
        if ok2 or order2[matched2][0] != order[matched][0]:
            raise vlib.ToolError("rejection of the mixed program under %s %s did not reproduce" % order[matched][0])
        co, l = order[matched]
        chk.violation("mixed program under %s %s: event %s is not what the first configuration computed for the same (seed, round), "
                      "or a live object lost its value / an exception escaped" % (co[0], co[1], lines[matched][:300]),
                      "# harness h_cfg configuration %s %s\n%s" % (co[0], co[1], "\n".join(l)))
    else:
        chk.cov["traces_validated_against_impl"] = chk.cov.get("traces_validated_against_impl", 0) + len(progs) * len(combos)
    chk.lap("h_cfg: %d programs x %d configurations validated by CfgTrace" % (len(progs), len(combos)))
    chk.cov["evaluations"] = nev
    chk.cov["executions_compared"] = nexec * (len(combos) - 1)
    chk.cov["distinct_nontrivial"] = max(nexec, 2)
    chk.cov["configurations"] = ["%s %s" % co for co in combos]
    chk.cov["rule"] = ("an evaluation = one recorded event; each in-contract execution (no error path) is run under every configuration and "
                       "compared event by event with the default -O0 run (address-derived fields removed); the reference runs are also "
                       "validated by TLC against the specifications; distinct = executions")
    chk.sample({"h_seq": W["h_seq"][0][1][0][:12]})
    chk.assumptions += ["workloads take no error path (NDEBUG removes the checks); explicit deletes everywhere (NGC has no collector)",
                        "differences that need undefined behaviour the workload does not execute are out of reach"]
    return chk.finish()
