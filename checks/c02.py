#!/usr/bin/env python3
"""C02 - Table behaves as a finite map whatever the hashing does.

 1. TLC, exhaustive: TableImpl (src/Table.c transcribed) refines FiniteMap for every
    history over colliding / wrapping keys (MapOK, RobinOK, AbstractStep).
 2. Replay: a tour through every transition of that state graph is executed on real
    Tables (Int keys, String keys with run-time computed colliding hashes, Probe keys).
 3. Random long histories over collision classes for larger sizes.
 4. Every recorded execution is validated by TLC against the abstract map (MapTrace, Mode "map").
"""
import concurrent.futures, os, sys
sys.path.insert(0, os.path.join(os.path.dirname(os.path.abspath(__file__)), "..", "tools"))
import vlib, runner, mapgen, edgecover

PID = "C02"


def model_keys(cfg):
    import re
    txt = open(os.path.join(vlib.SPEC, cfg)).read()
    return sorted(int(x) for x in re.search(r"Keys = \{([^}]*)\}", txt).group(1).split(","))


def main(tier, replay=None):
    chk = vlib.Check(PID, tier, "model_checking")
    rng = chk.rng
    wd = chk.wd
    quick = tier == "quick"
    edge_cfg = "Table_edges.cfg"
    exh_cfg = "Table_quick.cfg" if quick else "Table_thorough.cfg"

    with concurrent.futures.ThreadPoolExecutor(max_workers=4) as ex:
        f_lib = ex.submit(lambda: vlib.build_harness_wb(vlib.build_lib(wd), ["h_map.c"], os.path.join(wd, "h_map"),
                                                        ("Tree.c",), chk.notes))
        f_exh = ex.submit(vlib.tlc, "TableImpl", exh_cfg, wd, 8 if quick else 12, "6g" if quick else "16g")
        f_edge = ex.submit(vlib.tlc, "TableImpl", edge_cfg, wd, 4, "4g")
        harness = f_lib.result()
        r_exh = f_exh.result()
        r_edge = f_edge.result()

    chk.lap('built + TLC exhaustive')
    if replay:
        return do_replay(chk, harness, replay)

    # ---- 1. the design-level verdict (implementation-shaped model) ----
    for r, name in ((r_exh, exh_cfg), (r_edge, edge_cfg)):
        chk.model(r, "TableImpl/" + name)
        if not r.ok:
            # counterexample on the model: must be confirmed on the real library (rule 2.4); the replay below
            # drives the same histories, so only report drift here.
            print("MODEL-DRIFT module=TableImpl cfg=%s: %s" % (name, r.invariant), flush=True)
            chk.notes.append("TableImpl %s: %s violated on the model" % (name, r.invariant))

    # ---- 2. replay of the model's transition graph on the real Table ----
    edges = list(r_edge.lines("EDGE"))
    vlib.require_ops(edges, ("set", "rem", "resize", "copy"), "TableImpl")
    g = edgecover.Graph(edges)
    paths, covered, total = g.cover([1, [-1]], mode="edges", maxlen=60, rng=rng,
                                    budget=30000 if quick else None)
    chk.cov["model_edges"] = total
    chk.cov["model_edges_replayed"] = covered
    mkeys = model_keys(edge_cfg)
    keytok = {k: i + 1 for i, k in enumerate(mkeys)}
    valtok = {1: 1, 2: 2}
    ms = mapgen.ModelScripts("Table", keytok, valtok)
    execs = [ms.execution(p) for p in paths]
    chk.sample({"replayed_model_path": execs[len(execs) // 2][:12]})

    chk.lap('edge cover: %d paths' % len(paths))
    camp = runner.Campaign(chk, harness, "MapTrace", "MapTrace_map.cfg")
    variants = [("Int", mapgen.header("Int", "Int", mkeys, [100, 200]))]
    skeys = mapgen.colliding_strings(harness, wd, mkeys, 5 * 11 * 23, rng)
    variants.append(("String", mapgen.header("String", "Int", skeys, [100, 200])))
    variants.append(("Probe", mapgen.header("Probe", "Probe", mkeys, [100, 200])))
    for name, hdr in variants:
        sub = execs if (name == "Int" or not quick) else execs[::3]
        camp.run(hdr, sub, "replay/" + name, variant=name)

    # ---- 3. random histories over collision classes, larger sizes ----
    nexec = 48 if quick else 400
    BIG = sorted({-2**63, -2**63 + 1, -2**62, -3 * 10**9, -2**32 - 7, -2**32, -2**31 - 1, -2**31, -7, 0, 7, 2**31 - 1, 2**31, 2**32, 2**32 + 7,
                  3 * 10**9, 1700000000123, 1700000000123 + 2**33, 2**40, 2**62, 2**63 - 2, 2**63 - 1, 7 - 2**32, 7 + 2**33})
    camp.run(mapgen.header("Int", "Int", BIG, [7, 8, 9]),             # key magnitudes beyond 32 bits, multiples of 2^32 apart
             [mapgen.random_history(rng, "Table", len(BIG), 3, rng.choice([40, 120, 300]) if quick else rng.choice([100, 400, 1500]),
                                    init_pairs=rng.choice([0, 0, 3])) for _ in range(nexec // 3)], "random/Int-magnitudes", variant="IntBig")
    for name, vtype in (("Int", "Int"), ("String", "Int"), ("Probe", "Probe"), ("Int", "Probe"), ("Int", "Odd12"), ("Odd12", "Int"), ("Pair16", "Int")):
        # (the last three: key and value types of different sizes - slot layout, copy and assign must use each one's own size)
        nk = rng.choice([12, 16, 24])
        mod = rng.choice([55, 1265, 1265 * 53])
        classes = [rng.randrange(mod) for _ in range(3)]
        ints = sorted({c + mod * rng.randrange(1, 2000) for c in classes for _ in range(nk)})[:nk]
        if name != "String":
            # plus keys whose home is the last / the first slot of every small table size: clusters that wrap around the end
            M = 5 * 11 * 23 * 53
            ints = sorted(set(ints[: nk - 6]) | {M - 1 + M * rng.randrange(0, 30) for _ in range(4)} | {M * rng.randrange(1, 30) for _ in range(2)})
        if name == "String":
            keys = sorted(mapgen.colliding_strings(harness, wd, ints, mod if mod < 70000 else 1265, rng))  # token order = byte order
        elif name == "Pair16":
            # a plain type without Cmp / Hash instances, two words wide (default byte-wise comparison and hash): values below 1024
            # keep byte order = numeric order (the histories also put these keys into Trees); many agree in their first word
            keys = sorted({4 * b + j for b in rng.sample(range(256), nk // 3 + 1) for j in rng.sample(range(4), 3)})[:nk]
        else:
            keys = ints
        same_kind = name == vtype and name in ("Int", "Probe")
        hdr = mapgen.header(name, vtype, keys, [keys[0], keys[1], 9] if same_kind else [7, 8, 9])      # (some values are keys as well)
        ex = [mapgen.random_history(rng, "Table", len(keys), 3,
                                    rng.choice([40, 120, 300]) if quick else rng.choice([100, 400, 1500]),
                                    init_pairs=rng.choice([0, 0, 3]), getalias=same_kind) for _ in range(nexec // (3 if name == vtype or name == "String" else 6))]
        camp.run(hdr, ex, "random/%s-%s" % (name, vtype), variant=name + vtype)

    # ---- 4. large tables: growth and shrinkage across many rehash sizes (5, 11, 23, 53, 101, 197, 389, 683, ...), sampled projection
    big = 700 if quick else 3900              # (the harness value table holds 4095 tokens)
    ks = sorted({rng.choice([0, 3, 54]) + 55 * rng.randrange(0, 40 * big) for _ in range(big)})       # three residue classes mod 5 and 11
    L = ["reset", "new 1 Table"]
    order = list(range(1, len(ks) + 1))
    rng.shuffle(order)
    step = max(1, len(order) // 6)
    for i, k in enumerate(order):
        L.append("set 1 %d %d" % (k, 1 + k % 3))
        if i % step == 0:
            L.append("snap 1")
    L.append("copy 2 1"); L.append("snap 2")
    rm = order[:]
    rng.shuffle(rm)
    for i, k in enumerate(rm[: len(rm) * 5 // 6]):
        L.append("rem 1 %d" % k)
        if i % step == 0:
            L.append("snap 1")
    L += ["snap 1", "resize 1 %d" % (2 * big), "snap 1", "resize 1 0", "snap 1", "set 1 %d 2" % order[0], "snap 1", "snap 2"]
    camp.run(["light 6"] + mapgen.header("Int", "Int", ks, [1, 2, 3]), [L], "large/Int", sample=False)

    # sizes: maps built at once, room reserved first or grown step by step; the thorough tier goes beyond the last entry of the library's
    # table of sizes (8 800 019 slots: about 7.9 million bindings), where the slot count is computed instead of looked up
    sizes = [(20000, 0), (300000, 1)] if quick else [(20000, 0), (300000, 1), (8000000, 1), (8800020, 1), (9000000, 0)]
    camp.run(mapgen.header("Int", "Int", [1, 2], [1]), [["reset", "scale T %d %d" % nr] for nr in sizes], "scale", sample=False)

    chk.cov["rule"] = ("an execution = one history of public Table calls replayed on the real library; distinct = "
                       "different operation sequence or key type; every event carries the full projection "
                       "(len, iteration both ways, get+mem of every key of the universe) and is judged by TLC against FiniteMap")
    chk.cov["exhaustive"] = (covered == total)
    chk.assumptions += ["TLC's exhaustive result covers the constants of %s only" % exh_cfg,
                        "conformance covers the executions driven (all %d model transitions replayed: %s)" % (total, covered == total)]
    camp.report()
    return chk.finish()


HDR_WORDS = ("types", "K", "W", "hashmul")


def do_replay(chk, harness, path):
    return runner.replay_file(chk, harness, path, "MapTrace", "MapTrace_map.cfg", HDR_WORDS)
