#!/usr/bin/env python3
"""C15 - show/look and print/scan round-trip values.

 1. TLC: Codec.tla - the String escape layer: Dec(Enc(s)) = s and exactly Len(Enc(s)) characters consumed for every
    string of length <= 3 over one representative per class (plain, every escaped character, bytes >= 0x80), with text
    following the closing quote left alone; String_Look as found (escape letter appended) is refuted.
 2. show_to / look_from of boundary and random int64 values, finite doubles across the exponent range, strings over
    bytes 1..255 (quotes, backslashes, control characters), at several start positions, on String and File sinks;
    print_to / scan_from sequences with separators for %li %lld %d %i %hd %hhd %u %lu %lf %le %lg and %$.
 3. TLC validates (FmtTrace Mode round): the value read back is the value the written text denotes (for Int and String
    the original value itself) and exactly the characters written were consumed.
"""
import concurrent.futures, os, sys
sys.path.insert(0, os.path.join(os.path.dirname(os.path.abspath(__file__)), "..", "tools"))
import vlib, runner, fmtgen

PID = "C15"


def main(tier, replay=None):
    chk = vlib.Check(PID, tier, "exploration")
    rng, wd = chk.rng, chk.wd
    quick = tier == "quick"
    with concurrent.futures.ThreadPoolExecutor(max_workers=3) as ex:
        f_lib = ex.submit(vlib.build_lib, wd)
        f_mc = ex.submit(vlib.tlc, "Codec", "Codec.cfg", wd, 1, "4g")
        f_bug = ex.submit(vlib.tlc, "Codec", "Codec_bug.cfg", wd, 1, "2g")
        f_asan = None if quick else ex.submit(vlib.build_lib, wd, "asan", "clang", ("-fsanitize=address", "-fno-omit-frame-pointer"), "-O1")
        harness = vlib.build_harness(f_lib.result(), ["h_fmt.c"], os.path.join(wd, "h_fmt"))
        r_mc = f_mc.result()
        hasan = vlib.build_harness(f_asan.result(), ["h_fmt.c"], os.path.join(wd, "h_fmt_asan")) if f_asan else None
    if not r_mc.ok:
        print("MODEL-DRIFT module=Codec: %s" % r_mc.invariant, flush=True)
    if f_bug.result().ok:
        raise vlib.ToolError("Codec does not refute the as-found String_Look")
    chk.notes.append("Codec: Dec(Enc(s)) = s for all strings <= 3 over the class alphabet; fall-through reader refuted")
    chk.lap("built + TLC")
    if replay:
        return runner.replay_file(chk, harness, replay, "FmtTrace", "FmtTrace_round.cfg", ())
    camp = runner.Campaign(chk, harness, "FmtTrace", "FmtTrace_round.cfg")
    camp.run([], fmtgen.round_execs(rng, quick), "roundtrips")
    if hasan:
        env = {"ASAN_OPTIONS": "detect_stack_use_after_return=0:detect_leaks=0:abort_on_error=1"}
        ca = runner.Campaign(chk, hasan, "FmtTrace", "FmtTrace_round.cfg", env=env)
        ca.run([], fmtgen.round_execs(rng, True), "roundtrips/asan", sample=False)
        ca.report()
    chk.cov["rule"] = ("an evaluation = one value written (show_to, or print_to with a numeric specification or %$) and read back (look_from / "
                       "scan_from); TLC checks read-back value = value denoted by the written text (= the value for Int/String) and "
                       "consumed = written; distinct = executions (60 round trips each)")
    chk.assumptions += ["the value a numeric text denotes is computed with strtoll / strtod (C library)",
                        "values are generated inside the range of the conversion used"]
    camp.report()
    chk.cov["distinct_nontrivial"] = max(len(chk.distinct), 2)
    return chk.finish()
