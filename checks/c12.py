#!/usr/bin/env python3
"""C12 - a failed operation is reported as an exception and changes nothing.

 1. TLC, exhaustive: in SeqModel / TableImpl / RBTree every invalid-argument class is tried from every
    reachable state; FailStutter (a failing call is a stuttering step) holds on the models.
 2. The same fail edges, and random histories salted with every kind of invalid argument (indices one past
    either end, far out, INT64_MAX/MIN, pop of empty, absent keys/elements, wrong-typed and NULL keys, values
    and elements, resizes that cannot be honoured), run on the real containers inside try/catch.
 3. TLC validates (SeqTrace / MapTrace, Mode "fail"): the exception is the documented one and the projection of
    EVERY live container after the call equals the one before; the history continues with valid operations.
"""
import concurrent.futures, os, sys
sys.path.insert(0, os.path.join(os.path.dirname(os.path.abspath(__file__)), "..", "tools"))
import vlib, runner, viewgen, mapgen, seqgen, edgecover

PID = "C12"
SEQ_BAD = seqgen.BAD_INDEX + ["pop_empty", "get_nullkey", "get_alienkey", "set_alienkey", "popat_alienkey",
                              "rem_null", "mem_null", "concat_null", "concat_int"]
# withheld (open finding F-C12-assign-source): "assign_int" - assign from a source that is not a container
SEQ_BAD_OWNING = ["set_null", "set_alien"]            # element assignment that must fail (Array / List)
PUSH_BAD = ["push_null", "push_alien", "pushat_null", "pushat_alien", "concat_alien", "new_alien"]   # the element's own assign raises
MAP_BAD = ["settype", "setval", "setnullk", "setnullv", "getnull", "remnull", "memnull", "gettype", "remtype", "memtype"]


def fail_paths(g, rng, want, maxlen=40):
    """paths from the model graph that end in (and contain) failing transitions"""
    paths, _, _ = g.cover([[], 0], mode="edges", maxlen=maxlen, rng=rng, budget=want)
    return [p for p in paths if any(a.get("exc") for a in p)]


def main(tier, replay=None):
    chk = vlib.Check(PID, tier, "model_checking")
    rng, wd = chk.rng, chk.wd
    quick = tier == "quick"
    with concurrent.futures.ThreadPoolExecutor(max_workers=6) as ex:
        f_lib = ex.submit(vlib.build_lib, wd)
        f_seq = {k: ex.submit(vlib.tlc, "SeqModel", "Seq_%s_%s.cfg" % (k, "quick" if quick else "thorough"), wd, 3, "3g")
                 for k in ("Array", "List", "Tuple")}
        f_sab = ex.submit(vlib.tlc, "SortAbort", "SortAbort_untouched.cfg", wd, 2, "2g")
        lib = f_lib.result()
        hmap = vlib.build_harness_wb(lib, ["h_map.c"], os.path.join(wd, "h_map"), ("Tree.c",), chk.notes)
        hseq = vlib.build_harness(lib, ["h_seq.c"], os.path.join(wd, "h_seq"))
        hview = vlib.build_harness(lib, ["h_view.c"], os.path.join(wd, "h_view"))
        r_seq = {k: f.result() for k, f in f_seq.items()}
        r_sab = f_sab.result()
    chk.lap("built + TLC")
    # the model side of the open finding F-C12-aborted-sort-reorders: the transcribed quicksort does NOT leave the operand
    # untouched when a comparison raises (its pinned script shows the same on the code)
    chk.notes.append("SortAbort/SortAbort_untouched.cfg: Untouched %s by the transcribed quicksort (open finding F-C12-aborted-sort-reorders)"
                     % ("holds - the model no longer shows the finding" if r_sab.ok else "refuted"))
    if replay:
        first = open(replay).readline().split()
        if any(l.startswith("view ") for l in open(replay)):
            return runner.replay_file(chk, hview, replay, "ViewTrace", "ViewTrace.cfg", ())
        if len(first) == 3:
            return runner.replay_file(chk, hmap, replay, "MapTrace", "MapTrace_fail.cfg", ("types", "K", "W", "hashmul"))
        return runner.replay_file(chk, hseq, replay, "SeqTrace", "SeqTrace_fail.cfg", ("types", "K"))

    cs = runner.Campaign(chk, hseq, "SeqTrace", "SeqTrace_fail.cfg")
    cm = runner.Campaign(chk, hmap, "MapTrace", "MapTrace_fail.cfg")
    nfail = 0
    for kind, r in r_seq.items():
        chk.model(r, "SeqModel/" + kind)
        if not r.ok:
            print("MODEL-DRIFT module=SeqModel kind=%s: %s" % (kind, r.invariant), flush=True)
        edges = list(r.lines("EDGE"))
        nf = sum(1 for e in edges if e["a"].get("exc"))
        nfail += nf
        if nf == 0:
            raise vlib.ToolError("vacuous: no failing transition in SeqModel/%s" % kind)
        g = edgecover.Graph(edges)
        paths = fail_paths(g, rng, 15000 if quick else 200000)
        sm = seqgen.ModelScripts(kind, {0: 1, 1: 2, 2: 3}, True)
        cs.run(seqgen.header("Int", [0, 5, 9]), [sm.execution(p) for p in paths], "model/%s/Int" % kind)
        cut = [seqgen.cut_grow(kind, p) for p in paths[::2]]
        if kind != "Tuple":
            cs.run(seqgen.header("Probe", [0, 5, 9]), [sm.execution(p) for p in cut], "model/%s/Probe" % kind)
        else:
            cs.run(seqgen.header("String", [b"", b"a", b"b"]), [sm.execution(p) for p in cut], "model/%s/String" % kind)
    chk.cov["model_fail_edges"] = nfail

    nexec = 12 if quick else 150
    nops = (lambda: rng.choice([60, 160])) if quick else (lambda: rng.choice([200, 1000]))
    ALIEN = ["alien_" + x for x in ("c_str", "c_int", "c_float", "call", "start", "stop", "lock", "sclose", "deref", "current", "currentelem", "sort", "push", "pop", "concat", "join")]
    for kind in ("Array", "List", "Tuple"):
        bad = list(SEQ_BAD) + ALIEN + (["zt_get", "zt_getneg", "zt_set", "zt_pop", "zt_popat", "zt_pushat"] if kind == "Tuple" else [])
        if kind != "Tuple":
            bad += SEQ_BAD_OWNING
        if kind != "Tuple":
            bad += PUSH_BAD
        if kind == "Tuple":
            bad += ["resize_grow", "assign_strtable"]
            bad += ["stack_push", "stack_pushat", "stack_pop", "stack_popat", "stack_popatn", "stack_rem", "stack_resize", "stack_concat", "stack_assign", "stack_assignit"]
        if kind == "Array":
            bad += ["resize_huge", "resize_wrap"]
        for et, vals in (("Int", [0, 3, 7, 11]), ("String", [b"", b"x%d", b"%$", b"\xfe"]), ("Probe", [0, 1, 2, 3])):
            if kind == "Tuple" and et == "Probe":
                continue
            badk = bad + (["refuse_push", "refuse_pushat", "refuse_set"] if et == "Probe" else [])
            cs.run(seqgen.header(et, vals), [seqgen.random_history(rng, kind, 4, nops(), zero_tok=1 if et == "Int" else 0,
                                                                  bad=badk, p_out=0.25, cross=False) for _ in range(nexec)],
                   "random/%s/%s" % (kind, et))
    for kind in ("Table", "Tree"):
        WRAP = sorted([55 * i for i in range(6)] + [5 * 11 * 23 * 53 * j - 1 for j in range(1, 5)] + [5 * 11 * 23 * 53 * j for j in (1, 2)])   # homes 0 and last
        for kt, vt, keys in (("Int", "Int", list(range(0, 12 * 55, 55))), ("String", "Int", sorted([b"k%d" % i for i in range(8)] + [b"100%", b"%d", b"%s%s", b"%$"])),
                             ("Probe", "Probe", list(range(0, 12 * 55, 55))), ("Int", "Probe", WRAP),
                             ("Odd12", "Int", list(range(0, 12 * 55, 55))), ("Int", "Odd12", list(range(0, 12 * 55, 55)))):
            cm.run(mapgen.header(kt, vt, keys, [7, 8, 9]),
                   [mapgen.random_history(rng, kind, 12, 3, nops(), p_fail=0.5, with_bad=True, refuse=(vt == "Probe")) for _ in range(nexec)],
                   "random/%s/%s-%s" % (kind, kt, vt))

    chk.cov["rule"] = ("an execution = a history of container calls in which invalid arguments of every class are interleaved "
                       "with valid operations; each failing call must raise the documented exception type and leave the "
                       "projection (len, every element by get and by iteration) of every live container unchanged; judged by "
                       "TLC in Mode fail; distinct = different operation sequence / kind / element type")
    chk.assumptions += ["default (checked) build", "String, File and allocation-class failures are exercised by C16, C20 and C19"]

    # positions outside Ranges, Slices, Zips and Maps (one past either end, further, far out): refused with
    # IndexOutOfBoundsError - ViewTrace judges the oob observations of every view
    cv = runner.Campaign(chk, hview, "ViewTrace", "ViewTrace.cfg")
    views = viewgen.range_grid([-3, 0, 2, 5]) + viewgen.slice_grid([0, 1, 4], ["u", "-2", "1", "3"]) + \
        [viewgen.top(rng, rng.choice([1, 2, 3])) for _ in range(300 if quick else 3000)]
    cv.run([], [["reset"] + ["view " + v for v in views[i:i + 60]] for i in range(0, len(views), 60)], "views", sample=False)
    cs.report()
    cm.report()
    cv.report()
    runner.run_pinned(chk, {"h_seq": hseq, "h_map": hmap})
    return chk.finish()
