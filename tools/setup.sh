#!/bin/sh
# Offline setup: nothing is downloaded or pre-built against /repo (every check rebuilds from the
# working tree). Parse every specification and byte-compile the tools so that a broken file shows here.
cd "$(dirname "$0")/.." || exit 1
rc=0
cd spec || exit 1
for f in *.tla; do
  out=$(tla-sany "$f" 2>&1)
  if echo "$out" | grep -q "rror"; then echo "SANY failed: $f"; echo "$out" | grep -v "^Parsing\|^Semantic\|^Linting" | tail -20; rc=1; fi
done
cd .. && python3 -m py_compile tools/*.py checks/*.py bin/check || rc=1
mkdir -p evidence replays
echo "setup done rc=$rc"
exit $rc
