#!/usr/bin/env python3
"""Script generation for the collector harness (h_gc).

AbsHeap mirrors the mutator-visible heap only to keep the generated programs *in contract*:
never touch an object that a collection may already have reclaimed, never delete an object
that is still referenced, never alias a Box's pointee.  Verdicts come from TLC (HeapTrace)."""

PLAIN = ["Node", "Ref", "Array", "List", "Tuple", "Table", "TableK", "Tree", "TreeK"]
MODES = ["std", "root", "raw"]


class AbsHeap:
    def __init__(self):
        self.kind, self.mode = {}, {}
        self.edges = {}          # src -> {label: dst}
        self.stk = {}            # slot -> id
        self.tls = {}            # key -> id
        self.boxof = {}          # pointee -> box
        self.ghost = {}          # edges of objects that became unreachable (they may linger, retained conservatively)
        self.alive = set()       # believed alive (never seen unreachable at a possible collection point)
        self.lines = []
        self.running = True

    # ---- reachability as the collector is entitled to see it
    def reachable(self):
        roots = set(v for v in self.stk.values() if v and v in self.alive) | set(v for v in self.tls.values() if v in self.alive) | \
            {o for o in self.alive if self.mode[o] == "root"}
        seen, todo = set(roots), list(roots)
        while todo:
            o = todo.pop()
            if self.mode.get(o) == "raw":
                continue                      # raw objects are not traced
            for d in self.edges.get(o, {}).values():
                if d not in seen and d in self.alive:
                    seen.add(d)
                    todo.append(d)
        return seen

    def collection_point(self):
        # to a fixpoint: an object that dies with its owner (a Box that became unreachable) may have been the only path to
        # others, which a later collection - possibly within the same allocating call - takes as well
        while True:
            r = self.reachable()
            gone = [o for o in list(self.alive) if self.mode[o] != "raw" and o not in r]
            if not gone:
                break
            for o in gone:
                self._forget(o)

    def _forget(self, o):
        self.alive.discard(o)
        for p, b in list(self.boxof.items()):
            if b == o:
                self._forget(p)
        if o in self.edges:                   # (a second visit, e.g. through an owner forgotten later, must not wipe the record)
            self.ghost[o] = dict(self.edges.pop(o))

    def usable(self, o):
        return o in self.alive

    def incoming(self, o):
        """objects holding a pointer to o - including unreachable ones that may not have been reclaimed yet:
        deleting o under them would leave a dangling pointer for the next mark phase (out of contract)"""
        return [s for s in self.alive for d in self.edges.get(s, {}).values() if d == o] + \
               [s for s, e in self.ghost.items() for d in e.values() if d == o and s != o]

    # ---- operations (each returns False if refused as out of contract)
    def new(self, o, kind, mode, pointee=0):
        if o in self.kind:
            return False
        if not self.running and mode != "raw":
            return False                      # withheld: open finding (stop window)
        if kind == "Box":
            if not self.usable(pointee) or self.mode[pointee] != "std" or pointee in self.boxof or self.incoming(pointee) \
                    or self.kind[pointee] in ("Box", "Ref"):      # a Box built from a pointer type takes over its target instead
                return False
        self.collection_point_pre_new()
        self.kind[o], self.mode[o] = kind, mode
        self.edges[o] = {}
        self.alive.add(o)
        if kind == "Box":
            self.boxof[pointee] = o
            self.edges[o][0] = pointee
            for s in [k for k, v in self.stk.items() if v == pointee]:
                pass                          # the mutator may keep its own pointer; ownership stays with the Box
        self.stk[0] = o
        self.lines.append("new %d %s %s%s" % (o, kind, mode, " %d" % pointee if kind == "Box" else ""))
        return True

    def adopt(self, k, j, mode, slot):
        """a Ref built outside the collector, pointing at j, then registered: j is referred to by the holder only afterwards"""
        if k in self.kind or not self.running or not self.usable(j) or self.mode[j] != "std" or j in self.boxof:
            return False
        self.kind[k], self.mode[k] = "Ref", mode
        self.edges[k] = {0: j}
        self.alive.add(k)
        for s_ in [s_ for s_, v in self.stk.items() if v == j]:
            self.stk[s_] = 0
        self.stk[slot] = k
        self.lines.append("adopt %d %d %s %d" % (k, j, mode, slot))
        self.collection_point()               # the registration call may run a threshold collection - with the holder counted in
        return True

    def collection_point_pre_new(self):
        if self.running:
            self.collection_point()           # an allocation may trigger a threshold collection

    def root(self, slot, o):
        if o and not self.usable(o):
            return False
        self.stk[slot] = o
        self.lines.append("root %d %d" % (slot, o))
        return True

    def store(self, o, p, rng=None):
        if not (self.usable(o) and self.usable(p)) or p in self.boxof or self.kind[o] == "Box":
            return False
        if self.mode[o] == "raw" and self.mode[p] != "root":
            return False      # a raw object is invisible to the collector: what it points to must be kept alive by other
                              # means (here: root-registered objects only), and raw-only cycles carry no mark bits
        k = self.kind[o]
        if k not in ("Node", "ANode", "Ref") and self.running:
            # a container operation may allocate (an inline Tuple element is built through a temporary Tuple): a collection
            # point, with both operands held by the call itself
            self.stk[-1], self.stk[-2] = o, p
            self.collection_point()
            del self.stk[-1], self.stk[-2]
            if not (self.usable(o) and self.usable(p)) or o not in self.edges:
                return False                  # (went with its owner at that collection point)
        e = self.edges[o]
        if k in ("Node", "ANode"):
            slot = 0 if 0 not in e else (1 if 1 not in e else (rng.randrange(2) if rng else 0))
            e[slot] = p
            self.lines.append("link %d %d %d" % (o, slot, p))
        elif k == "Ref":
            e[0] = p
            self.lines.append("link %d 0 %d" % (o, p))
        elif k in ("Array", "List", "Tuple"):
            if k == "Tuple" and p in e.values():
                return False                  # same object twice in a Tuple: open finding F-C04-tuple-dup
            e[(max(e) + 1) if e else 0] = p
            self.lines.append("cpush %d %d" % (o, p))
        elif k in ("Table", "Tree"):
            e[p] = p
            self.lines.append("cset %d %d %d" % (o, p, p))
        else:
            e[p] = p
            self.lines.append("kset %d %d" % (o, p))
        return True

    def unstore(self, o, rng):
        if not self.usable(o) or self.kind[o] == "Box" or not self.edges[o]:
            return False
        k = self.kind[o]
        e = self.edges[o]
        if k in ("Node", "ANode"):
            slot = rng.choice(sorted(e))
            del e[slot]
            self.lines.append("link %d %d 0" % (o, slot))
        elif k == "Ref":
            e.clear()
            self.lines.append("link %d 0 0" % o)
        elif k in ("Array", "List", "Tuple"):
            del e[max(e)]
            self.lines.append("cpop %d" % o)
        elif k in ("Table", "Tree"):
            key = rng.choice(sorted(e))
            del e[key]
            self.lines.append("crem %d %d" % (o, key))
        else:
            key = rng.choice(sorted(e))
            if not self.usable(key):
                return False
            del e[key]
            self.lines.append("krem %d %d" % (o, key))
        return True

    def settls(self, key, o):
        if not self.usable(o):
            return False
        self.tls[key] = o
        self.lines.append("tls %d %d" % (key, o))
        return True

    def untls(self, key):
        if key not in self.tls:
            return False
        del self.tls[key]
        self.lines.append("untls %d" % key)
        return True

    def delete(self, o):
        if not self.usable(o) or o in self.boxof or self.incoming(o):
            return False
        if not self.running and self.mode[o] != "raw":
            return False                      # withheld: del while stopped is ignored (open finding)
        owned = []
        x = o
        while True:
            ps = [p for p, b in self.boxof.items() if b == x]
            if not ps:
                break
            owned.append(ps[0])
            x = ps[0]
        for s in [k for k, v in self.stk.items() if v == o or v in owned]:
            self.stk[s] = 0
        for k in [k for k, v in self.tls.items() if v == o or v in owned]:
            self.lines.append("untls %d" % k)
            del self.tls[k]
        self.lines.append("del %d%s" % (o, "".join(" %d" % p for p in owned)))
        self._forget(o)
        return True

    def collect(self, churn=False):
        if not self.running:
            return False
        self.stk[0] = 0
        self.lines.append("root 0 0")
        self.lines.append("collect %s" % ("churn" if churn else "force"))
        self.collection_point()
        return True

    def stop(self):
        if not self.running:
            return False
        self.running = False
        self.lines.append("stop")
        return True

    def start(self):
        if self.running:
            return False
        self.running = True
        self.lines.append("start")
        return True


def from_model_path(path, rng):
    """Heap.tla action labels -> h_gc script. Model object o gets stack slot o+1."""
    h = AbsHeap()
    h.lines.append("reset")
    kinds = {}
    for a in path:
        op = a["op"]
        ok = True
        if op == "new":
            kinds[a["o"]] = rng.choice(PLAIN)
            ok = h.new(a["o"], kinds[a["o"]], a["md"]) and h.root(a["o"] + 1, a["o"]) and h.root(0, 0)
        elif op == "newbox":
            ok = h.new(a["o"], "Box", a["md"], a["p"]) and h.root(a["o"] + 1, a["o"]) and h.root(0, 0)
        elif op == "store":
            ok = h.store(a["o"], a["p"], rng)
        elif op == "drop":
            ok = h.root(a["o"] + 1, 0)
        elif op == "settls":
            ok = h.settls(a["o"], a["o"])
        elif op == "del":
            ok = h.delete(a["o"])
        elif op == "collect":
            ok = h.collect(rng.random() < 0.2)
        elif op == "stop":
            ok = h.stop()
        elif op == "start":
            ok = h.start()
        elif op in ("teardown", "init"):
            break
        if not ok:
            break                             # the rest of the path would leave the contract on the real heap
    return h.lines


def random_program(rng, nobj=30, nops=150, arena=None, kinds=None, p_collect=0.12, keyw=None):
    """arena: list of arena slot indices for ANode objects (C17: colliding addresses).
    keyw: width of the key type of the Int -> Ref containers (8 Int, 4 / 12 plain structs: values at odd offsets)."""
    h = AbsHeap()
    h.lines.append("reset")
    keyw = keyw if keyw is not None else rng.choice([8, 8, 4, 12])
    if keyw != 8:
        h.lines.append("keyw %d" % keyw)
    if rng.random() < 0.25:
        h.lines.append("elemt 1")         # Arrays / Lists / Tables / Trees hold the pointers in inline 1-Tuples instead of Refs
    nxt = 1
    kinds = kinds or (PLAIN + ["Node", "Node", "Box"])
    for _ in range(nops):
        r = rng.random()
        live = sorted(h.alive)
        if (r < 0.30 or not live) and nxt <= nobj:
            k = rng.choice(kinds)
            md = rng.choice(["std", "std", "std", "root", "raw"])
            if k == "Box":
                cands = [o for o in live if h.mode[o] == "std" and o not in h.boxof and not h.incoming(o) and h.kind[o] not in ("Box", "Ref")]
                if not cands:
                    continue
                if not h.new(nxt, "Box", "std", rng.choice(cands)):
                    continue
            else:
                if arena and k == "Node" and rng.random() < 0.7 and arena:
                    h.lines.append("at %d" % arena.pop())
                    k = "ANode"
                if not h.new(nxt, k, md):
                    if h.lines[-1].startswith("at "):
                        h.lines.pop()
                    continue
            if rng.random() < 0.12 and nxt + 1 <= nobj and h.kind[nxt] != "Box" and h.mode[nxt] == "std" and h.usable(nxt):
                # hand it to a holder that is built outside the collector and registered afterwards
                if h.adopt(nxt + 1, nxt, rng.choice(["std", "root"]), rng.randrange(2, 12)):
                    nxt += 2
                    continue
            # keep it (stack slot / another object / tls) or let it become garbage
            rr = rng.random()
            if rr < 0.45:
                h.root(rng.randrange(1, 12), nxt)
            elif rr < 0.75 and live:
                h.store(rng.choice(live), nxt, rng)
            elif rr < 0.85:
                h.settls(rng.randrange(1, 6), nxt)
            nxt += 1
        elif r < 0.50 and len(live) >= 2:
            h.store(rng.choice(live), rng.choice(live), rng)       # cycles, sharing, self references
        elif r < 0.58 and live:
            h.unstore(rng.choice(live), rng)
        elif r < 0.68:
            s = rng.randrange(1, 12)
            h.root(s, rng.choice(live) if (live and rng.random() < 0.4) else 0)
        elif r < 0.72 and live:
            h.settls(rng.randrange(1, 6), rng.choice(live))
        elif r < 0.75:
            h.untls(rng.randrange(1, 6))
        elif r < 0.82 and live:
            h.delete(rng.choice(live))
        elif r < 0.82 + p_collect:
            h.collect(rng.random() < 0.25)
        elif r < 0.97:
            pass
        else:
            (h.stop if h.running else h.start)()
    if not h.running:
        h.start()
    # explicit deletion of some root/raw objects before exit (the rest is reported under "never")
    for o in sorted(h.alive):
        if h.mode[o] != "std" and rng.random() < 0.5:
            h.delete(o)
    return h.lines


def chain_program(n, kind="Ref"):
    """a chain of n objects hanging from one stack slot, collected, then dropped and collected"""
    L = ["reset", "new 1 %s std" % kind, "root 1 1"]
    for i in range(2, n + 1):
        L.append("new %d %s std" % (i, kind))
        L.append("link %d 0 %d" % (i - 1, i))
    L += ["root 0 0", "collect force", "root 1 0", "collect force"]
    return L
