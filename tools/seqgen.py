#!/usr/bin/env python3
"""Script generation for the Array / List / Tuple harness (h_seq)."""
from mapgen import hexs


def header(etype, vals):
    h = ["types %s" % etype]
    for i, v in enumerate(vals):
        h.append("K %d %s" % (i + 1, hexs(v) if isinstance(v, bytes) else str(v)))
    return h


class ModelScripts:
    """SeqModel action labels -> h_seq executions. valtok: model value -> token."""

    def __init__(self, kind, valtok, allow_grow):
        self.kind, self.valtok, self.allow_grow = kind, valtok, allow_grow

    def execution(self, path):
        k = self.kind
        L = ["reset", "new 1 %s" % k]
        cur = 1
        ids = [1, 3, 4]
        n = 0          # current length (tracked to recognise growing resizes)
        for a in path:
            op = a["op"]
            if op == "push":
                L.append("push %d %d" % (cur, self.valtok[a["v"]]))
            elif op == "pop":
                L.append("pop %d" % cur)
            elif op == "pushat":
                L.append("pushat %d %d %d" % (cur, self.valtok[a["v"]], a["i"]))
            elif op == "popat":
                L.append("popat %d %d" % (cur, a["i"]))
            elif op == "set":
                L.append("set %d %d %d" % (cur, a["i"], self.valtok[a["v"]]))
            elif op == "get":
                L.append("get %d %d" % (cur, a["i"]))
            elif op == "rem":
                L.append("rem %d %d" % (cur, self.valtok[a["v"]]))
            elif op == "concat":
                L.append("concatv %d %d %d" % (cur, self.valtok[2], self.valtok[1]))
            elif op == "resize":
                L.append("resize %d %d" % (cur, a["n"]))
            elif op == "sort":
                L.append("sort %d" % cur)
            elif op == "copy":
                nxt = ids[(ids.index(cur) + 1) % 3]
                L.append("copy %d %d" % (nxt, cur))
                cur = nxt
            elif op == "new":
                pass
            else:
                raise ValueError(a)
        return L


def cut_grow(kind, path):
    """for List element types without a zero value: stop a path before a growing resize"""
    out, n = [], 0
    for a in path:
        op = a["op"]
        ok = a.get("exc", "") == ""
        if op == "resize" and a["n"] > n and kind == "List":
            break
        out.append(a)
        if not ok:
            continue
        if op in ("push", "pushat"):
            n += 1
        elif op in ("pop", "popat", "rem"):
            n -= 1
        elif op == "concat":
            n += 2
        elif op == "resize" and a["n"] < n:
            n = a["n"]
    return out


BAD_INDEX = ["get_len", "get_neg", "get_far", "get_max", "get_min", "set_len", "set_neg", "set_max",
             "popat_len", "popat_neg", "popat_min", "pushat_far", "pushat_neg", "pushat_max"]


def _norm(i, n):
    return i + n if i < 0 else i


def pushat_pos(kind, n, i):
    if kind == "Array":
        j = _norm(i, n + 1)
        return j if 0 <= j < n + 1 else -1
    if kind == "List" and i == 0:
        return 0
    j = _norm(i, n)
    return j if 0 <= j < n else -1


def random_history(rng, kind, nvals, nops, zero_tok=0, two=True, maxlen=40, bad=None, cross=True, p_out=0.06, fromit=False, xassign=True, selfpush=True, selfcat=True, sortmixed=False):
    """random history over up to 3 sequences.  The generator tracks the abstract contents only to choose
    interesting arguments (mostly valid indices, present and absent values); verdicts come from TLC."""
    L = ["reset"]
    n0 = rng.choice([0, 0, 1, 3, 6])
    init = [rng.randint(1, nvals) for _ in range(n0)]
    L.append("new 1 %s%s" % (kind, "".join(" %d" % v for v in init)))
    kinds, seqs = {1: kind}, {1: list(init)}
    for _ in range(nops):
        o = rng.choice(sorted(kinds))
        kd, q = kinds[o], seqs[o]
        n = len(q)
        r = rng.random()
        v = rng.randint(1, nvals)

        def idx(hi):
            if hi <= 0 or rng.random() < p_out:
                return rng.choice([hi, hi + 1, -n - 1, -n - 2, 1000, -1000])
            i = rng.randrange(0, hi)
            return i - n if (rng.random() < 0.4 and n > 0 and i - n < 0) else i
        if sortmixed and kd == "Tuple" and 3 <= n <= 60 and rng.random() < 0.04:
            L.append("bad %d sort_perm" % o)          # a sort aborted by a raising comparison: still the same items (C04), in whatever order
            continue
        if bad and r < 0.12:
            w = rng.choice(bad)
            if w.startswith("set_") and w not in ("set_len", "set_neg", "set_max") and n == 0:
                continue
            if w == "pop_empty" and n > 0:
                continue
            if w == "refuse_set" and n == 0:
                continue
            if w in ("stack_pop", "stack_popat", "stack_popatn", "stack_rem", "stack_resize", "stack_pushat") and n == 0:
                continue
            L.append("bad %d %s" % (o, w))
            continue
        if r < 0.25 and n < maxlen:
            L.append("push %d %d" % (o, v)); q.append(v)
        elif r < 0.30 and n < maxlen:
            L.append("append %d %d" % (o, v)); q.append(v)
        elif r < 0.38:
            L.append("pop %d" % o)
            if n: q.pop()
        elif r < 0.48 and n < maxlen:
            i = idx(n + 1 if kd == "Array" else max(n, 1 if kd == "List" else 0))
            L.append("pushat %d %d %d" % (o, v, i))
            p = pushat_pos(kd, n, i)
            if p >= 0: q.insert(p, v)
        elif r < 0.56:
            i = idx(n)
            L.append("popat %d %d" % (o, i))
            j = _norm(i, n)
            if 0 <= j < n: del q[j]
        elif r < 0.64:
            i = idx(n)
            L.append("set %d %d %d" % (o, i, v))
            j = _norm(i, n)
            if 0 <= j < n: q[j] = v
        elif r < 0.68:
            L.append("get %d %d" % (o, idx(n)))
        elif r < 0.74:
            if q and rng.random() < 0.8:
                v = rng.choice(q)
            L.append("rem %d %d" % (o, v))
            if v in q: q.remove(v)
        elif r < 0.768 and selfpush and kd != "Tuple" and 0 < n < maxlen:
            i = rng.randrange(n)
            if rng.random() < 0.5:
                L.append("pushself %d %d" % (o, i)); q.append(q[i])
            else:
                at = rng.randrange(0, n + (1 if kd == "Array" else 0))
                L.append("pushself %d %d %d" % (o, i, at)); q.insert(at, q[i])
        elif r < 0.772 and xassign:
            L.append("xassign %d%s" % (o, "".join(" %d" % rng.randint(1, nvals) for _ in range(rng.choice([0, 1, 3, 5])))))
        elif r < 0.775 and fromit and n < maxlen:
            # operand of another iterable kind (distinct tokens: Tree / Table keys)
            toks = rng.sample(range(1, nvals + 1), rng.randint(0, min(4, nvals)))
            # assign reads its operand by position (len + get(i)): a Slice qualifies; concat iterates it after asking its
            # len: Tree, Table and Slice qualify (a Filter has no len; a keyed container has no positional get)
            how = rng.choice(["assign", "concat"])
            sk = "slice" if how == "assign" else rng.choice(["tree", "table", "slice"])
            L.append("fromit %d %s %s%s" % (o, how, sk, "".join(" %d" % t for t in toks)))
            if how == "assign": q[:] = toks            # (Tree / Table order is the operand's business: a guess is enough for
            else: q.extend(toks)                       #  choosing later arguments; TLC judges with the logged order)
        elif r < 0.78:
            L.append("mem %d %d" % (o, v))
        elif r < 0.81:
            rr = rng.random()
            if rr < 0.3:
                L.append("sortby %d %s" % (o, rng.choice(["gt", "ge"])))      # sort_by with the opposite comparison (strict or not): descending
                if kd != "List": q.sort(reverse=True)
            elif rr < 0.45:
                L.append("sortby %d le" % o)                 # a comparison that also holds for equal elements
                if kd != "List": q.sort()
            else:
                L.append("sort %d" % o)
                if kd != "List": q.sort()
        elif r < 0.86:
            if kd == "Tuple":
                m = rng.choice([0, max(n - 1, 0), n // 2, n, n + 2])
                if m < n: del q[m:]
            elif kd == "List":
                m = rng.choice([0, max(n - 1, 0), n // 2, n] + ([n + 2] if zero_tok and n + 2 <= maxlen else []))
                if m < n: del q[m:]
                else: q.extend([zero_tok] * (m - n))
            else:
                m = rng.choice([0, max(n - 1, 0), n // 2, n, n + 1, n + 2, n + 3, 2 * n + 10])      # (n + 1, n + 2: often between the length and the capacity)
                if m < n: del q[m:]
            L.append("resize %d %d" % (o, m))
        elif r < 0.91 and two:
            src = rng.choice([1, 2, 3])
            if kd == "Tuple" or rng.random() < 0.4:
                vs = [rng.randint(1, nvals) for _ in range(rng.choice([0, 1, 2, 5]))]
                if n + len(vs) <= maxlen:
                    L.append("concatv %d%s" % (o, "".join(" %d" % x for x in vs))); q.extend(vs)
            elif src in kinds and src != o and kinds[src] != "Tuple" and n + len(seqs[src]) <= maxlen:
                L.append("concat %d %d" % (o, src)); q.extend(seqs[src])
            elif src == o and selfcat and kd != "Tuple" and 0 < n and n + 2 <= maxlen and rng.random() < 0.5:
                L.append("concatown %d" % o); q.extend([q[0], q[-1]] if n > 1 else [q[0]])        # concat with a Tuple of its own first and last elements
            elif src == o and selfcat and kd != "Tuple" and 0 < n and 2 * n <= maxlen:        # (a Tuple would then hold every object twice: F-C04-tuple-dup)
                L.append("concat %d %d" % (o, o)); q.extend(list(q))           # concatenated with itself: doubled
            elif src not in kinds:
                kd2 = rng.choice(["Array", "List"]) if (cross and kd != "Tuple") else kd
                L.append("new %d %s" % (src, kd2)); kinds[src] = kd2; seqs[src] = []
        elif r < 0.96 and two:
            dst = rng.choice([1, 2, 3])
            if dst in kinds and dst != o and (kinds[dst] == "Tuple") == (kd == "Tuple"):
                L.append("assign %d %d" % (dst, o)); seqs[dst] = list(q)
            elif dst == o and rng.random() < 0.5:
                L.append("assign %d %d" % (o, o))              # assigned from itself: as before
            elif dst not in kinds:
                L.append("copy %d %d" % (dst, o)); kinds[dst] = kd; seqs[dst] = list(q)
        elif len(kinds) > 1:
            L.append("del %d" % o); del kinds[o]; del seqs[o]
    return L
