#!/usr/bin/env python3
"""try / throw / catch program trees for C07: from ExcMachine model paths, random, and as generated C source."""

import sys
sys.setrecursionlimit(20000)
KIND = {"A": 1, "B": 2, "C": 3}


def mask_of(fset):
    m = 0
    for k in fset:
        m |= 1 << (KIND[k] - 1)
    return m


def matches(mask, e):
    return mask == 0 or (mask >> (e - 1)) & 1


def from_model_path(path):
    """A dynamic path of ExcMachine (try f / throw e / mark / endbody / endhandler) is one run of a program; rebuild
    the smallest program tree that has this run (unexecuted remainders are empty). Block structure decides where
    control continues after a throw - the model checked that the machine agrees."""
    root = []
    cur = root
    frames = []                 # [node, phase, parent_list]
    for a in path:
        op = a["op"]
        if op == "try":
            node = {"t": "T", "mask": mask_of(a["f"]), "body": [], "handler": []}
            cur.append(node)
            frames.append([node, "body", cur])
            cur = node["body"]
        elif op == "mark":
            cur.append({"t": "M"})
        elif op in ("throw", "thrownested", "throwcmpnested"):        # (throwcmpnested: run as a plain throw; kinds whose Cmp raises are exercised by the pairs matrix)
            e = KIND[a["e"]]
            cur.append({"t": "X" if op == "throw" else "Y", "e": e})       # Y: a message argument's Show throws and handles another kind
            while frames and not (frames[-1][1] == "body" and matches(frames[-1][0]["mask"], e)):
                frames.pop()
            if not frames:
                return root            # uncaught: the program ends here
            frames[-1][1] = "handler"
            cur = frames[-1][0]["handler"]
        elif op in ("endbody", "endhandler"):
            if not frames:
                break
            _, _, parent = frames.pop()
            cur = parent
        elif op == "init":
            pass
    return root


def tokens(prog):
    out = []
    for n in prog:
        if n["t"] == "T":
            out += ["T", str(n["mask"]), "("] + tokens(n["body"]) + [")", "("] + tokens(n["handler"]) + [")"]
        elif n["t"] in ("X", "Y"):
            out += [n["t"], str(n["e"])]
        elif n["t"] == "M":
            out += ["M"]
        elif n["t"] == "C":
            out += ["C", "("] + tokens(n["body"]) + [")"]
    return out


def execution(prog):
    return ["reset", "prog " + " ".join(tokens(prog))]


def random_prog(rng, depth=0, maxdepth=6, budget=None, p_throw=0.22):
    budget = budget if budget is not None else [rng.choice([6, 15, 40, 120])]
    n = rng.choice([1, 1, 2, 3, 4])
    out = []
    for _ in range(n):
        if budget[0] <= 0:
            break
        budget[0] -= 1
        r = rng.random()
        if r < 0.40 and depth < maxdepth:
            out.append({"t": "T", "mask": rng.choice([0, 0, 1, 2, 3, 4, 5, 6, 7]),
                        "body": random_prog(rng, depth + 1, maxdepth, budget, p_throw),
                        "handler": random_prog(rng, depth + 1, maxdepth, budget, p_throw * 0.6)})
        elif r < 0.40 + p_throw:
            out.append({"t": "X" if rng.random() < 0.7 else "Y", "e": rng.randint(1, 3)})
        elif r < 0.75:
            out.append({"t": "M"})
        elif depth < maxdepth:
            out.append({"t": "C", "body": random_prog(rng, depth + 1, maxdepth, budget, p_throw)})
    return out


def deep_prog(rng, depth, wrap=None):
    """a chain of `depth` try blocks open at the same time (below the runtime's 2048): the innermost body throws; most
    filters do not match, some handlers re-throw another kind, so the exception climbs through many levels"""
    e = rng.randint(1, 3)
    inner = [{"t": "M"}, {"t": "X", "e": e}] if rng.random() < 0.85 else [{"t": "M"}]
    for lvl in range(depth):
        r = rng.random()
        other = [k for k in (1, 2, 3)]
        if r < 0.6:
            mask = rng.choice([1, 2, 4, 3, 5, 6])
            handler = [{"t": "M"}] + ([{"t": "X", "e": rng.choice(other)}] if rng.random() < 0.5 else [])
        elif r < 0.7:
            mask, handler = 0, [{"t": "M"}, {"t": "X", "e": rng.choice(other)}]
        else:
            mask, handler = rng.choice([1, 2, 4]), []
        body = [{"t": "M"}] + inner + ([{"t": "M"}] if rng.random() < 0.3 else [])
        inner = [{"t": "T", "mask": mask, "body": body, "handler": handler}]
    if wrap is None:
        wrap = rng.random() < 0.8
    return [{"t": "T", "mask": 0, "body": inner, "handler": [{"t": "M"}]}] if wrap else inner


KN = {1: "TypeError", 2: "ValueError", 3: "KeyError"}


def _c_list(prog, ind, ctr):
    s = ""
    pad = "  " * ind
    for n in prog:
        if n["t"] == "M":
            s += pad + 'ev_begin("mark"); ev_end();\n'
        elif n["t"] == "X":
            s += pad + 'ev_begin("throw"); ev_int("e", %d); ev_end(); ev_flush(); throw(%s, "kind %%i", $I(%d));\n' % (n["e"], KN[n["e"]], n["e"])
        elif n["t"] == "Y":
            s += pad + 'ev_begin("throw"); ev_int("e", %d); ev_end(); ev_flush(); throw(%s, "kind %%i %%$", $I(%d), $(ShowTry, %d));\n' % (n["e"], KN[n["e"]], n["e"], n["e"] % 3 + 1)
        elif n["t"] == "C":
            s += pad + 'ev_begin("call"); ev_end();\n' + pad + "{\n" + _c_list(n["body"], ind + 1, ctr) + pad + "}\n" + pad + 'ev_begin("ret"); ev_end();\n'
        elif n["t"] == "T":
            ctr[0] += 1
            v = "f%d" % ctr[0]
            kinds = [KN[k] for k in (1, 2, 3) if (n["mask"] >> (k - 1)) & 1]
            catch = "catch (e%d)" % ctr[0] if not kinds else "catch (e%d in %s)" % (ctr[0], ", ".join(kinds))
            e = "e%d" % ctr[0]
            s += pad + "{ volatile int %s = ++fid_counter;\n" % v
            s += pad + 'ev_begin("try"); ev_int("fid", %s); ev_int("mask", %d); ev_int("depth", depth_now()); ev_end();\n' % (v, n["mask"])
            s += pad + "try {\n" + _c_list(n["body"], ind + 1, ctr)
            s += pad + '  ev_begin("bodyend"); ev_int("fid", %s); ev_end();\n' % v
            s += pad + "} %s {\n" % catch
            s += pad + '  ev_begin("handler"); ev_int("fid", %s); ev_int("e", kind_of_obj(%s)); ev_end();\n' % (v, e)
            s += _c_list(n["handler"], ind + 1, ctr)
            s += pad + '  ev_begin("handlerend"); ev_int("fid", %s); ev_end();\n' % v
            s += pad + "}\n"
            s += pad + 'ev_begin("after"); ev_int("fid", %s); ev_int("depth", depth_now()); ev_end(); }\n' % v
    return s


def c_source(progs):
    """C translation unit with one function per program: try blocks nested LEXICALLY in one function."""
    out = ['#define LEXICAL_PROGS 1\n#include "h_exc.c"\n']
    for i, p in enumerate(progs):
        out.append("static void lex_prog_%d(void) {\n%s}\n" % (i, _c_list(p, 1, [0])))
    out.append("void (*lex_progs[])(void) = {%s};\nint n_lex_progs = %d;\n" % (", ".join("lex_prog_%d" % i for i in range(len(progs))), len(progs)))
    return "".join(out)
