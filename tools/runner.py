#!/usr/bin/env python3
"""Run operation scripts through a harness binary and have TLC judge the recorded
events.  An *execution* is a list of script lines (it starts with `reset`); many
executions are packed into one script file per harness process and one trace file
per TLC run.  Crashes of the code under test are survived: the harness' last
event says where it died, the remaining executions are re-run in a new process."""
import concurrent.futures, json, os
import vlib


class Rejection:
    def __init__(self, lines, event_index, events, why):
        self.lines = lines              # script lines of the execution (without header)
        self.event_index = event_index  # index (0-based) of the first event TLC did not accept
        self.events = events            # the recorded events of that execution (json strings)
        self.why = why                  # "rejected" | "crash" | "hang"

    def failing_event(self):
        try:
            return json.loads(self.events[self.event_index])
        except Exception:
            return {}

    def prefix_ops(self):
        return [json.loads(e).get("op") for e in self.events[: self.event_index + 1]]


def _run_chunk(harness, header, execs, wd, tag, timeout, env, extra_args):
    """returns list of (exec_lines, [event json strings])"""
    results = []
    todo = list(execs)
    part = 0
    while todo and part < 4:          # at most 3 restarts after crashes; the rest is left unexplored
        part += 1
        sp = os.path.join(wd, "%s_%d.script" % (tag, part))
        tp = os.path.join(wd, "%s_%d.ndjson" % (tag, part))
        with open(sp, "w") as f:
            f.write("\n".join(header) + "\n")
            for ex in todo:
                f.write("\n".join(ex) + "\n")
        rc, out, to = vlib.run([harness] + list(extra_args) + [sp, tp], timeout=timeout, env=heap_checked(harness, env))
        evs = [ln for ln in open(tp, errors="replace").read().splitlines() if ln.strip()] if os.path.exists(tp) else []
        # every line must be one JSON object.  A harness that was interrupted in the middle of an event (an exception out of
        # an observation, a crash) leaves a malformed line: after a crash the cut-off LAST line is dropped, any other malformed
        # line becomes a "garbled" event that no specification accepts (a rejection, not a tool error)
        good = []
        for i, ln in enumerate(evs):
            try:
                if len(ln) > 4000000:
                    raise ValueError("oversized event")
                json.loads(ln)
                good.append(ln)
            except (ValueError, RecursionError):
                if (rc != 0 or to) and i == len(evs) - 1:
                    continue
                good.append(json.dumps({"op": "garbled", "raw": ln[:200]}))
        evs = good
        # split events by reset
        groups, cur = [], None
        for ln in evs:
            if ln.startswith('{"op":"reset"'):
                if cur is not None:
                    groups.append(cur)
                cur = [ln]
            elif cur is not None:
                cur.append(ln)
        if cur is not None:
            groups.append(cur)
        if rc == 0 and not to:
            if len(groups) != len(todo):
                raise vlib.ToolError("harness produced %d executions for %d scripts (%s)\n%s" % (len(groups), len(todo), sp, out[-2000:]))
            results += list(zip(todo, groups))
            todo = []
        else:
            if rc == 9:
                raise vlib.ToolError("harness rejected its script %s: %s" % (sp, out[-2000:]))
            # died inside execution len(groups)-1
            k = max(len(groups) - 1, 0)
            if not groups:
                groups = [['{"op":"reset","synthetic":1}']]     # died before its first event: keep the execution delimited
            last = groups[k]
            if not (last and ('"op":"crash"' in last[-1] or '"op":"hang"' in last[-1])):
                last.append(json.dumps({"op": "hang" if to else "crash", "sig": -rc if rc < 0 else rc, "line": -1,
                                        "note": out[-300:]}))
            results += list(zip(todo[: k + 1], groups[: k + 1]))
            todo = todo[k + 1:]
        for p in (sp, tp):
            if not os.environ.get("VERIF_KEEP"):
                try:
                    os.unlink(p)
                except OSError:
                    pass
    return results


MALLOC_DEBUG = "/lib/x86_64-linux-gnu/libc_malloc_debug.so.0"


def heap_checked(harness, env):
    """glibc's malloc checking (a guard byte behind every block, verified at free / realloc): a write one byte past a heap block
    or a free of a foreign pointer aborts the harness - a crash event, judged like any other.  Costs a few percent; not used
    for sanitizer builds (they bring their own allocator)."""
    e = dict(env or {})
    if os.environ.get("VERIF_NO_HEAPCHECK") or "ASAN_OPTIONS" in e or "asan" in os.path.basename(harness) or not os.path.exists(MALLOC_DEBUG):
        return e or None
    e.setdefault("LD_PRELOAD", MALLOC_DEBUG)
    e.setdefault("GLIBC_TUNABLES", "glibc.malloc.check=3:glibc.malloc.perturb=165")      # freed and fresh blocks are overwritten: stale reads show
    return e


def execute(chk, harness, header, execs, nproc=None, timeout=900, env=None, extra_args=(), tag="t", per_process=False):
    """run executions on the real library; returns list of (exec_lines, events).
    per_process: one harness process per execution (needed when teardown at exit is part of the execution)"""
    nproc = nproc or min(vlib.NCPU, max(1, len(execs) // 4), 12)
    if per_process:
        chunks = [[e] for e in execs]
        nproc = min(vlib.NCPU, 14)
    else:
        chunks = [c for c in (execs[i::nproc] for i in range(nproc)) if c]
    # when executions keep dying (crash / hang), a handful of them is all the verdict needs: chunks that have not started yet
    # are skipped (a change that makes every program hang would otherwise cost one timeout per program)
    died = [0]

    def guarded(i, c):
        if died[0] >= 8:
            return []
        r = _run_chunk(harness, header, c, chk.wd, "%s%d" % (tag, i), timeout, env, extra_args)
        died[0] += sum(1 for (_l, e) in r if e and ('"op":"crash"' in e[-1] or '"op":"hang"' in e[-1]))
        return r
    with concurrent.futures.ThreadPoolExecutor(max_workers=nproc) as ex:
        futs = [ex.submit(guarded, i, c) for i, c in enumerate(chunks)]
        out = []
        for f in futs:
            out += f.result()
    return out


def validate_pairs(chk, pairs, module, cfg, nproc=None, tlc_env=None, tag="v"):
    """TLC judges recorded executions. pairs: list of (exec_lines, events[, extra]). Returns (accepted, [(pair, Rejection)], nevents)"""
    if not pairs:
        return 0, [], 0
    nev = sum(len(p[1]) for p in pairs)
    nproc = nproc or max(1, min(vlib.NCPU - 2, 12, nev // 3000 + 1))
    # balance chunks by event count
    order = sorted(range(len(pairs)), key=lambda i: -len(pairs[i][1]))
    chunks = [[] for _ in range(nproc)]
    loads = [0] * nproc
    for i in order:
        k = loads.index(min(loads))
        chunks[k].append(pairs[i])
        loads[k] += len(pairs[i][1])
    chunks = [c for c in chunks if c]

    def validate(i, chunk):
        tp = os.path.join(chk.wd, "%s_val%d.ndjson" % (tag, i))
        with open(tp, "w") as f:
            for p in chunk:
                f.write("\n".join(p[1]) + "\n")
        acc, rej, n = vlib.validate_executions(module, cfg, tp, chk.wd, env=tlc_env, max_rejects=int(os.environ.get('VERIF_MAXREJ', '2')))
        out = []
        for (idx, line_in_exec, _evlines) in rej:
            lines, evs = chunk[idx][0], chunk[idx][1]
            last = evs[-1] if evs else ""
            why = "crash" if '"op":"crash"' in last and line_in_exec >= len(evs) - 1 else \
                  "hang" if '"op":"hang"' in last and line_in_exec >= len(evs) - 1 else "rejected"
            out.append((chunk[idx], Rejection(lines, line_in_exec, evs, why)))
        if not os.environ.get("VERIF_KEEP"):
            os.unlink(tp)
        return acc, out, n

    acc_total, rejs, nev_total = 0, [], 0
    with concurrent.futures.ThreadPoolExecutor(max_workers=len(chunks)) as ex:
        futs = [ex.submit(validate, i, c) for i, c in enumerate(chunks)]
        for f in futs:
            a, r, n = f.result()
            acc_total += a
            rejs += r
            nev_total += n
    return acc_total, rejs, nev_total


def run_and_validate(chk, harness, header, execs, module, cfg, nproc=None, timeout=900, env=None,
                     extra_args=(), tlc_env=None, tag="t"):
    """Execute on the real library, validate with TLC. Returns (n_accepted, [Rejection...], n_events)."""
    pairs = execute(chk, harness, header, execs, nproc=nproc, timeout=timeout, env=env, extra_args=extra_args, tag=tag)
    acc, rej, nev = validate_pairs(chk, pairs, module, cfg, nproc=nproc, tlc_env=tlc_env, tag=tag)
    return acc, [r for (_p, r) in rej], nev


def confirm(chk, harness, header, rej, module, cfg, timeout=300, env=None, extra_args=(), tlc_env=None, tries=1):
    """Verdict rule 2: the saved script must reproduce the rejection when run alone.  Where the outcome depends on the
    OS schedule (threads) the script is re-run up to `tries` times and one further rejection confirms."""
    for t in range(tries):
        acc, rejs, _ = run_and_validate(chk, harness, header, [rej.lines], module, cfg, nproc=1, timeout=timeout,
                                        env=env, extra_args=extra_args, tlc_env=tlc_env, tag="confirm%d" % t)
        if len(rejs) == 1:
            return True
    return False


class Campaign:
    """Accumulates the runs of one check.  run() executes scripts on the real library right away;
    the recorded executions of all runs are validated together by a few TLC processes in flush()
    (one JVM start per chunk instead of per run).  report() applies the verdict rule of DESIGN.md 2.4
    (reproduce once, then VIOLATION unless a known finding matches)."""

    def __init__(self, chk, harness, module, cfg, env=None, tlc_env=None, extra_args=(), per_process=False):
        self.per_process = per_process
        self.chk, self.harness, self.module, self.cfg = chk, harness, module, cfg
        self.env, self.tlc_env, self.extra_args = env, tlc_env, extra_args
        self.accepted = 0
        self.events = 0
        self.pending = []          # (exec_lines, events, (header, origin))
        self.rejections = []       # (header, Rejection, origin)
        self.confirm_tries = 1

    def enough(self):
        return len(self.rejections) >= 3

    def run(self, header, execs, origin, sample=True, variant="", harness=None):
        if self.enough() or not execs:
            return
        pairs = execute(self.chk, harness or self.harness, header, execs, env=self.env, extra_args=self.extra_args,
                        tag=origin.replace("/", "_"), per_process=self.per_process)
        self.pending += [(l, e, (header, origin, harness or self.harness)) for (l, e) in pairs]
        for e in execs:
            self.chk.seen("|".join(e) + "#" + variant + origin)
        if sample and execs:
            self.chk.sample({origin: execs[len(execs) // 2][:14]})
        self.chk.lap("%s: %d executions run, %d events" % (origin, len(execs), sum(len(e) for (_l, e) in pairs)))
        died = sum(1 for (_l, e) in pairs if e and ('"op":"crash"' in e[-1] or '"op":"hang"' in e[-1]))
        if died >= 3 or sum(len(p[1]) for p in self.pending) > 60000:
            self.flush()            # crashes / hangs are rejections: judge them now so that enough() can stop the campaign early

    def flush(self):
        if not self.pending:
            return
        acc, rej, nev = validate_pairs(self.chk, self.pending, self.module, self.cfg, tlc_env=self.tlc_env)
        self.accepted += acc
        self.events += nev
        for (pair, r) in rej:
            header, origin, harness = pair[2]
            r.harness = harness
            self.rejections.append((header, r, origin))
        self.chk.lap("validated %d events, %d executions accepted, %d rejected" % (nev, acc, len(rej)))
        if os.environ.get("VERIF_VERBOSE"):
            sigs = {}
            for (pair, r) in rej:
                ev = r.failing_event()
                line = r.lines[r.event_index] if r.event_index < len(r.lines) else "?"
                k = (pair[2][1], r.why, " ".join(line.split()[:1] + line.split()[2:3]) if r.why != "rejected" else ev.get("op"),
                     ev.get("what"), ev.get("exc"), ev.get("msg", "")[:60])
                sigs[k] = sigs.get(k, 0) + 1
            for k, v in sorted(sigs.items(), key=lambda x: -x[1]):
                print("      %3d x %s" % (v, k), flush=True)
        self.pending = []

    def report(self, known=None, describe=None):
        """known(rej, ev) -> finding id or None.  Returns number of violations reported."""
        self.flush()
        chk = self.chk
        chk.cov["traces_validated_against_impl"] = chk.cov.get("traces_validated_against_impl", 0) + self.accepted
        chk.cov["evaluations"] = chk.cov.get("evaluations", 0) + self.events
        n = 0
        reported = set()
        for hdr, rej, origin in self.rejections[:6]:
            ev = rej.failing_event()
            sig = (origin.split("/")[0], ev.get("op"), ev.get("what"), ev.get("exc"), rej.why)
            if sig in reported:
                continue
            reported.add(sig)
            if not confirm(chk, getattr(rej, "harness", self.harness), hdr, rej, self.module, self.cfg, env=self.env,
                           extra_args=self.extra_args, tlc_env=self.tlc_env, tries=max(self.confirm_tries, 2)):
                # verdict rule: a rejection that the same script does not repeat when run alone is not reported.  It is kept in
                # the evidence (and printed) so that it can be looked at; it does not make the check fail.
                msg = "UNCONFIRMED: a rejection from %s (%s at event %d) was not repeated by re-running its script alone" % (
                    origin, rej.why, rej.event_index)
                print(msg, flush=True)
                chk.notes.append(msg + ": " + " ; ".join(rej.lines[:6])[:300])
                continue
            fid = known(rej, ev) if known else None
            ctx = " ; ".join(rej.lines[max(0, rej.event_index - 3): rej.event_index + 1])
            what = "%s: %s at event %d op=%s exc=%s [%s]" % (origin, rej.why, rej.event_index, ev.get("op"),
                                                             ev.get("exc"), describe(rej, ev) if describe else ctx)
            if fid:
                chk.known(fid, what)
            else:
                chk.violation(what, "\n".join(hdr + rej.lines))
                n += 1
        return n


def replay_file(chk, harness, path, module, cfg, header_words, env=None, tlc_env=None, extra_args=(), tries=1):
    """--replay: run a saved script alone; prints the verdict."""
    lines = [l for l in open(path).read().splitlines() if l.strip()]
    hdr = [l for l in lines if l.split()[0] in header_words]
    body = [l for l in lines if l.split()[0] not in header_words]
    for t in range(tries):
        acc, rej, nev = run_and_validate(chk, harness, hdr, [body], module, cfg, nproc=1, env=env, tlc_env=tlc_env,
                                         extra_args=extra_args, tag="replay%d" % t)
        if rej:
            break
    for r in rej:
        print("replay: %s at event %d: %s" % (r.why, r.event_index, json.dumps(r.failing_event())[:1200]))
        print("VIOLATION property=%s replay=%s" % (chk.pid, path))
        return 1
    print("replay: accepted (%d events)" % nev)
    return 0


def run_pinned(chk, harnesses, only_ids=None):
    """Open findings of this property: run each one's pinned script.  Still failing in the recorded way ->
    KNOWN-FINDING line (exit status unaffected); failing differently -> VIOLATION; passing -> note only."""
    for f in vlib.open_findings(chk.pid):
        pin = f.get("pinned")
        if only_ids and f["id"] not in only_ids:
            continue
        if not pin:
            # listed, identified by the input described in the entry, not re-run here (generators keep away from that input)
            chk.known(f["id"], f["what"])
            continue
        harness = harnesses[pin["harness"]]
        acc, rejs, nev = run_and_validate(chk, harness, pin["header"], [pin["script"]], pin["module"], pin["cfg"],
                                          nproc=1, tag="pin_" + f["id"].replace("-", "_"))
        if not rejs:
            chk.notes.append("open finding %s no longer reproduces" % f["id"])
            print("NOTE property=%s finding %s no longer reproduces (pinned script accepted)" % (chk.pid, f["id"]), flush=True)
            continue
        r = rejs[0]
        ev = r.failing_event()
        exp = pin.get("expect", {})
        same = all(ev.get(k) == v for k, v in exp.items()) and (pin.get("why", r.why) == r.why)
        if same:
            chk.known(f["id"], f["what"])
        else:
            chk.violation("pinned script of %s fails differently: %s at event %d %s" % (f["id"], r.why, r.event_index, json.dumps(ev)[:300]),
                          "\n".join(pin["header"] + pin["script"]))
