#!/usr/bin/env python3
"""tools/seed_store.py <PID> <name> <demo dir> <needs> <detected-by (comma list)> : keep a confirmed seeded change under /verif/seeded/"""
import json, os, shutil, sys
pid, name, demo, needs, det = sys.argv[1:6]
d = os.path.join("/verif/seeded", name)
os.makedirs(d, exist_ok=True)
for f in ("patch.diff", "demo.c", "notes.txt"):
    if os.path.exists(os.path.join(demo, f)):
        shutil.copy(os.path.join(demo, f), os.path.join(d, f))
meta = {"breaks_property": pid, "needs_to_manifest": needs,
        "confirmed": "suite passes with the change (133/133); demo exits non-zero with the change and 0 without (tools/seed_eval.sh)",
        "ran": ["tools/seed_eval.sh %s <scratch worktree> <demo dir>" % pid] + ["CELLO_REPO=<worktree> bin/check %s quick -> VIOLATION" % c for c in det.split(",") if c],
        "detected_by": [c for c in det.split(",") if c], "origin": "independent sub-agent given only the property text and a scratch worktree"}
json.dump(meta, open(os.path.join(d, "meta.json"), "w"), indent=1)
print("stored", d)
