#!/usr/bin/env python3
"""tools/mkmutants.py : (re)generates the mutation corpus mutants/*.diff from the table below against /repo's working tree.
Each entry: name, property it breaks, file, old text, occurrence (1-based), new text, note.
tools/mutants_all.sh runs the quick check of the property against every mutant and writes mutants/RESULTS.md."""
import difflib, os, sys
REPO = os.environ.get("CELLO_REPO", "/repo")
OUT = os.path.join(os.path.dirname(os.path.dirname(os.path.abspath(__file__))), "mutants")

M = [
 # maps
 ("table_rem_keep_count", "C02", "src/Table.c", "      t->nitems--;\n      Table_Resize_Less(t);", 1, "      Table_Resize_Less(t);", "rem does not decrement the count"),
 ("table_rem_shift_stop_early", "C02", "src/Table.c", "if (nh isnt 0 and Table_Probe(t, ni, nh) > 0) {", 1, "if (nh isnt 0 and Table_Probe(t, ni, nh) > 1) {", "backward shift leaves entries at distance 1 behind a hole"),
 ("table_lookup_probe_ge", "C02", "src/Table.c", "if (h is 0 or j > Table_Probe(t, i, h)) {\n      throw(KeyError, \"Key %$ not in Table!\", key);", 1, "if (h is 0 or j + (j > 1) > Table_Probe(t, i, h)) {\n      throw(KeyError, \"Key %$ not in Table!\", key);", "rem gives up one slot early on keys displaced by two or more"),
 ("table_replace_no_destruct", "C05", "src/Table.c", "      destruct(Table_Key(t, i));\n      destruct(Table_Val(t, i));\n      memset((char*)t->data + i * Table_Step(t), 0, Table_Step(t));", 1, "      destruct(Table_Key(t, i));\n      memset((char*)t->data + i * Table_Step(t), 0, Table_Step(t));", "rem does not finalise the value"),
 ("tree_recolour_missing", "C03", "src/Tree.c", "      Tree_Set_Red(m, Tree_Sibling(m, node));", 1, "      ;", "a recolouring step of the removal fix-up dropped"),
 ("tree_mark_key_only", "C01", "src/Tree.c", "    f(gc, Tree_Val(m, node));\n    curr = Tree_Iter_Next(self, curr);", 1, "    curr = Tree_Iter_Next(self, curr);", "Tree values are not traced by the collector"),
 ("table_mark_key_only", "C01", "src/Table.c", "      f(gc, Table_Key(t, i));\n      f(gc, Table_Val(t, i));", 1, "      f(gc, Table_Key(t, i));", "Table values are not traced by the collector"),
 # sequences
 ("array_popat_no_destruct", "C05", "src/Array.c", "  destruct(Array_Item(a, i));\n  \n  memmove((char*)a->data + Array_Step(a) * (i+0), ", 1, "  memmove((char*)a->data + Array_Step(a) * (i+0), ", "pop_at does not finalise the element"),
 ("array_popat_move_short", "C04", "src/Array.c", "          Array_Step(a) * ((a->nitems-1) - i));\n  \n  a->nitems--;\n  Array_Reserve_Less(a);", 1, "          Array_Step(a) * ((a->nitems-2) - i + (i + 2 > a->nitems)));\n  \n  a->nitems--;\n  Array_Reserve_Less(a);", "pop_at moves one element too few"),
 ("list_at_from_tail_off", "C04", "src/List.c", "    i = l->nitems-i-1;\n    item = l->tail;", 1, "    i = l->nitems-i-1; if (l->nitems > 6 and i > 0) { i--; }\n    item = l->tail;", "indexing from the tail is off by one in lists longer than 6"),
 ("list_hash_positional", "C10", "src/List.c", "    h ^= hash(item);\n    item = *List_Next(l, item);", 1, "    h ^= hash(item) + i;\n    item = *List_Next(l, item);", "List hash differs from Array hash of the same elements"),
 ("list_rem_second", "C04", "src/List.c", "    if (eq(item, obj)) {\n      List_Unlink(l, item);", 1, "    if (eq(item, obj) and (item isnt l->head or l->nitems < 3)) {\n      List_Unlink(l, item);", "rem skips a match at the head of longer lists"),
 # collector
 ("gc_rehash_drops_root", "C17", "src/GC.c", "GC_Set_Ptr(gc, old_entries[i].ptr, old_entries[i].root);", 1, "GC_Set_Ptr(gc, old_entries[i].ptr, false);", "rehash forgets root flags"),
 ("gc_remptr_keep_count", "C17", "src/GC.c", "      gc->nitems--;\n      \n      dealloc(destruct(freeitem));", 1, "      dealloc(destruct(freeitem));", "explicit del leaves the count unchanged"),
 ("gc_sweep_skip_after_shift", "C06", "src/GC.c", "      gc->nitems--;\n      continue;", 1, "      gc->nitems--;\n      i++; continue;", "sweep skips the entry shifted into the current slot"),
 ("gc_mark_stack_short", "C01", "src/GC.c", "    for (var p = top; p <= bot; p = ((char*)p) + sizeof(var)) {", 1, "    for (var p = top; p <= (var)((char*)bot - 256); p = ((char*)p) + sizeof(var)) {", "the last 256 bytes of the stack are not scanned"),
 # exceptions
 ("exc_throw_depth_gt1", "C07", "src/Exception.c", "  if (e->depth >= 1) {\n    longjmp(*Exception_Buffer(e), 1);", 1, "  if (e->depth >= 2) {\n    longjmp(*Exception_Buffer(e), 1);", "rethrow from the outermost handler is treated as uncaught"),
 # dispatch
 ("type_name_prefix", "C08", "src/Type.c", "if (strcmp(t->name, Type_Builtin_Name(cls)) is 0) {", 1, "if (strncmp(t->name, Type_Builtin_Name(cls), 3) is 0) {", "class lookup by a three-letter prefix"),
 # values
 ("string_cmp_signed", "C09", "src/String.c", "  return strcmp(String_C_Str(self), c_str(obj));", 1, "  { const signed char* a = (const signed char*)String_C_Str(self); const signed char* b = (const signed char*)c_str(obj); while (*a and *a == *b) { a++; b++; } return *a - *b; }", "bytes >= 0x80 compared as negative"),
 # views
 ("range_next_ge_stop", "C11", "src/Iter.c", "  if (r->step  > 0 and i->val >= r->stop) { return Terminal; }", 1, "  if (r->step  > 0 and i->val > r->stop) { return Terminal; }", "forward range includes its stop"),
 # threads
 ("trylock_always_true", "C13", "src/Thread.c", "  if (err == EBUSY) { return false; }", 1, "  if (err == EBUSY) { return true; }", "trylock reports success on a held mutex"),
 # files
 ("file_read_count", "C20", "src/File.c", "  size_t num = fread(output, size, 1, f->file);", 1, "  size_t num = fread(output, size > 3 ? size - 1 : size, 1, f->file);", "read returns one byte less for larger reads"),
 # strings

 ("float_cmp_truncate", "C09", "src/Num.c", "  return a > b ? 1 : a < b ? -1 : 0;\n}\n\nunion interp_cast", 1, "  return (int64_t)a > (int64_t)b ? 1 : (int64_t)a < (int64_t)b ? -1 : 0;\n}\n\nunion interp_cast", "differences below 1 compare equal"),
 ("array_set_bound_gt", "C12", "src/Array.c", "  if (i < 0 or i >= (int64_t)a->nitems) {\n    throw(IndexOutOfBoundsError, \n      \"Index '%i' out of bounds for Array of size %i.\", key, $I(a->nitems));\n    return;", 1, "  if (i < 0 or i > (int64_t)a->nitems) {\n    throw(IndexOutOfBoundsError, \n      \"Index '%i' out of bounds for Array of size %i.\", key, $I(a->nitems));\n    return;", "set at index len is accepted"),
 ("print_s_pos_strlen", "C14", "src/Show.c", "        if (off < 0) { throw(FormatError, \"Unable to output String!\"); }\n        pos += off;", 1, "        if (off < 0) { throw(FormatError, \"Unable to output String!\"); }\n        pos += strlen(c_str(a));", "position after %s ignores width padding"),
 ("show_newline_as_r", "C15", "src/String.c", "      case '\\n': pos = print_to(out, pos, \"\\\\n\"); break;", 1, "      case '\\n': pos = print_to(out, pos, \"\\\\r\"); break;", "newline shown as \\r"),
 ("string_resize_no_term", "C16", "src/String.c", "    s->val[n] = '\\0';", 1, "    ;", "shrinking a String does not terminate it"),
 ("string_concat_no_nul_room", "C16", "src/String.c", "  s->val = realloc(s->val, n + m + 1);", 1, "  s->val = realloc(s->val, n + m);", "concat allocates no room for the terminator"),
 ("list_alloc_heap_class", "C19", "src/List.c", "    (char*)item + 2 * sizeof(var)), l->type, AllocData);", 1, "    (char*)item + 2 * sizeof(var)), l->type, AllocHeap);", "List elements claim to be heap objects"),
 ("dealloc_accepts_embedded", "C19", "src/Alloc.c", "  if (header(self)->alloc is (var)AllocData) {\n    throw(ResourceError,", 1, "  if (false) {\n    throw(ResourceError,", "dealloc of a container-embedded object is not refused"),
 ("array_get_neg_only_checked", "C18", "src/Array.c", "  i = i < 0 ? a->nitems+i : i;\n  \n#if CELLO_BOUND_CHECK == 1\n  if (i < 0 or i >= (int64_t)a->nitems) {\n    return throw(", 1, "  \n#if CELLO_BOUND_CHECK == 1\n  i = i < 0 ? a->nitems+i : i;\n  if (i < 0 or i >= (int64_t)a->nitems) {\n    return throw(", "negative indices resolved only in checked builds"),
 ("join_returns_early", "C13", "src/Thread.c", "  int err = pthread_join(t->thread, NULL);", 1, "  int err = 0; { static int n; if (++n % 3) err = pthread_join(t->thread, NULL); }", "every third join returns without waiting"),
 ("thread_exit_keeps_collector", "C13", "src/Thread.c", "#ifndef CELLO_NGC\n  del_raw(gc);\n#endif\n  \n  del_raw(exc);\n  \n  return x;", 1, "#ifndef CELLO_NGC\n  (void)gc;\n#endif\n  \n  del_raw(exc);\n  \n  return x;", "a finished thread does not tear its collector down (objects it still managed are never finalised)"),
 ("tuple_popat_keep_last", "C04", "src/Tuple.c", None, 1, None, "placeholder"),
]


# changes that do NOT break any property: every listed check must stay at exit 0 (name, checks to run, file, old, nth, new, note)
BENIGN = [
 ("benign_array_growth_x2", "C04 C05 C12 C19", "src/Array.c", "    size_t nslots = a->nitems + a->nitems / 2;", 1, "    size_t nslots = a->nitems * 2 + 3;", "Array grows by doubling"),
 ("benign_table_load_factor", "C02 C05 C12 C10", "src/Table.c", "static const double Table_Load_Factor = 0.9;", 1, "static const double Table_Load_Factor = 0.6;", "Table rehashes earlier"),
 ("benign_gc_load_factor", "C01 C06 C17", "src/GC.c", "static const double GC_Load_Factor = 0.9;", 1, "static const double GC_Load_Factor = 0.7;", "collector's pointer table rehashes earlier"),
 ("benign_gc_hash_shift", "C01 C06 C17 C18", "src/GC.c", "  return ((uintptr_t)ptr) >> 3;", 1, "  return ((uintptr_t)ptr) >> 4;", "collector hashes addresses differently"),
 ("benign_hash_seed", "C02 C10 C16", "src/Hash.c", "	uint64_t h = 0xCe110 ^ (size * m);", 1, "	uint64_t h = 0xBe110 ^ (size * m);", "another seed for the data hash"),
 ("benign_list_at_from_head", "C04 C05 C11", "src/List.c", "  if (i <= (int64_t)(l->nitems / 2)) {", 1, "  if (true) {", "List indexing always walks from the head"),
 ("benign_string_concat_extra_room", "C16 C19", "src/String.c", "  s->val = realloc(s->val, n + m + 1);", 1, "  s->val = realloc(s->val, n + m + 17);", "String concat over-allocates"),
 ("benign_message_text", "C12 C04 C02 C20", "src/Array.c", "\"Index '%i' out of bounds for Array of size %i.\"", 1, "\"Array index %i is outside 0..%i\"", "reworded exception message"),
 ("benign_gc_threshold", "C01 C06 C17 C13", "src/GC.c", "  gc->mitems = gc->nitems + gc->nitems / 2 + 1;", 1, "  gc->mitems = gc->nitems + gc->nitems / 4 + 8;", "collections are triggered at other allocation counts"),
]


def main():
    os.makedirs(OUT, exist_ok=True)
    idx = []
    bidx = []
    for name, pids, f, old, nth, new, note in BENIGN:
        src = open(os.path.join(REPO, f)).read()
        pos = -1
        for _ in range(nth):
            pos = src.find(old, pos + 1)
            if pos < 0:
                sys.exit("benign change %s: text not found in %s" % (name, f))
        mut = src[:pos] + new + src[pos + len(old):]
        d = "".join(difflib.unified_diff(src.splitlines(True), mut.splitlines(True), "a/" + f, "b/" + f))
        open(os.path.join(OUT, name + ".diff"), "w").write(d)
        bidx.append("%s\t%s\t%s\t%s" % (name, pids, f, note))
    open(os.path.join(OUT, "benign.tsv"), "w").write("\n".join(bidx) + "\n")
    for name, pid, f, old, nth, new, note in M:
        if old is None:
            continue
        src = open(os.path.join(REPO, f)).read()
        pos = -1
        for _ in range(nth):
            pos = src.find(old, pos + 1)
            if pos < 0:
                sys.exit("mutant %s: text not found in %s" % (name, f))
        mut = src[:pos] + new + src[pos + len(old):]
        d = "".join(difflib.unified_diff(src.splitlines(True), mut.splitlines(True), "a/" + f, "b/" + f))
        open(os.path.join(OUT, name + ".diff"), "w").write(d)
        idx.append("%s\t%s\t%s\t%s" % (name, pid, f, note))
    open(os.path.join(OUT, "index.tsv"), "w").write("\n".join(idx) + "\n")
    print("%d mutants written to %s" % (len(idx), OUT))

main()
