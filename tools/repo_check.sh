#!/bin/sh
# runs the repository's own suite with the verification guard off and prints only the summary
make -C "${CELLO_REPO:-/repo}" check 2>&1 | grep -E "Suites|Tests |Asserts|rror:" | sed 's/\x1b\[[0-9;]*m//g'
