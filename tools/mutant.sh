#!/bin/sh
# tools/mutant.sh <patch.diff> <ID> [tier]  - run a check against a scratch copy of /repo with a patch applied
# (the binding demonstration of DESIGN.md section 8; never touches /repo itself)
set -e
P=$(realpath "$1"); ID=$2; TIER=${3:-quick}
D=$(mktemp -d /tmp/cello_mut_XXXXXX)
trap 'rm -rf "$D"' EXIT
mkdir -p "$D/repo"
cp -r /repo/src /repo/include /repo/Makefile /repo/tests "$D/repo/"
( cd "$D/repo" && patch -p1 -s < "$P" )
if [ -n "$MUT_SUITE" ]; then ( cd "$D/repo" && timeout 120 make check 2>&1 | grep -E "Tests " | sed 's/\x1b\[[0-9;]*m//g' ); fi
cd /verif
CELLO_REPO="$D/repo" bin/check "$ID" "$TIER" 2>&1 | grep -E "VIOLATION|KNOWN|ERROR|held|VIOLATED|MODEL-DRIFT" | head -${MUT_LINES:-6}
