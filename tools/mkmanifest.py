#!/usr/bin/env python3
"""Regenerates /verif/MANIFEST.json from the table below (single source of truth for the interface)."""
import json, os, subprocess
ROOT = os.path.dirname(os.path.dirname(os.path.abspath(__file__)))

MC = "model_checking"
EX = "exploration"

# id: (level, technique, level text, level note, design ref)
CHECKS = {
 "C02": (MC, "TLA+ refinement TableImpl => FiniteMap checked exhaustively by TLC; every transition of the model replayed on the real Table; recorded executions validated by TLC against FiniteMap (MapTrace)",
         "TLC enumerates every set/rem/resize/copy history over colliding and wrapping keys on the transcription of src/Table.c and checks that the slot array is the abstract map; all transitions of that graph plus long random histories over run-time computed collision classes (Int, String, Probe keys) are executed on the real library and each recorded call is a checked step of the abstract map specification.",
         "exhaustive only for the constants of spec/Table_*.cfg; conformance covers the executions driven; the transcription TableImpl is trusted only as a generator (verdicts come from the API-level trace validation)", "5/C02"),
 "C03": (MC, "TLA+ model RBTree (src/Tree.c transcribed) checked exhaustively by TLC for ordered-map refinement and red-black invariants; every model transition replayed on real Trees; recorded executions and white-box node dumps validated by TLC (MapTrace)",
         "TLC enumerates all set/rem/clear histories over up to 9 (quick) / 12 (thorough) ordered keys on the transcription of Tree.c and checks MapOK, Ordered, RootBlack, NoRedRed, Balanced, ParentLinks, HeightBound, NoNullDeref; all transitions plus patterned/random/large histories run on the real Tree with Int, String and Probe keys, and TLC checks each recorded call against the ordered map and the dumped node structure against the red-black invariants.",
         "exhaustive only for the constants of spec/Tree_*.cfg; structural clauses observed through the #include \"Tree.c\" seam (dropped automatically if the layout is refactored)", "5/C03"),
 "C04": (MC, "TLA+ Sequence specification with per-kind semantics; SeqModel checked exhaustively by TLC; every model transition replayed on real Array/List/Tuple; recorded executions validated by TLC (SeqTrace)",
         "TLC enumerates all histories of push/pop/push_at/pop_at/set/get/rem/concat/resize/sort/copy with every in- and out-of-range index over a small value set per kind (Array with its backing-store policy) and checks capacity, sorted-permutation, first-occurrence and fail-stutter properties; all transitions plus random histories with Int, String and Probe elements are executed on the real containers and each recorded call (len, get(+-i), mem, iteration both ways) is a checked step of Sequence.",
         "exhaustive only for the constants of spec/Seq_*.cfg; Tuples never hold the same object twice (open finding); List growth by resize only for Int elements", "5/C04"),
 "C05": (MC, "TLA+ Ownership model (instances issued/retired by container operations) checked exhaustively by TLC, defect switches refuted; real containers with ledger-keeping Probe elements; every recorded call validated by TLC (MapTrace/SeqTrace Mode own)",
         "TLC checks LiveIsHeld, Disjoint, OnceOnly, NeverWhileHeld, AllGone, RetireMonotone on the ownership model and refutes the leak-on-refused-insert and orphan-on-replace designs; every transition of the Table/Array/List models and random mixed histories (Table, Tree, Array, List, Array/List of Box) run with an element type that has its own constructor/assign/destructor and owns heap memory, and after every call TLC checks that the instances inside all containers are pairwise distinct and are exactly the live instances of the ledger, with no double or unknown finalisation and nothing left after deletion.",
         "the ledger lives in the harness' Probe type; Boxes are never aliased (documented contract)", "5/C05"),
 "C12": (MC, "Fail transitions of the TLA+ container models (FailStutter checked by TLC from every reachable state) replayed on the real containers inside try/catch; TLC validates exception type and unchanged projections (SeqTrace/MapTrace Mode fail)",
         "from every reachable state of the sequence models every invalid-argument class is tried and TLC checks that failing steps stutter; those fail edges plus random histories salted with indices one past either end / far out / INT64 limits, pops of empty containers, absent keys and elements, wrong-typed and NULL keys, values and elements, non-container operands and impossible resizes run on real Arrays, Lists, Tuples, Tables and Trees, and TLC checks that each failing call raises the documented exception type and leaves every live container's projection unchanged while the history continues.",
         "default checked build; one open finding (assign from a non-container source clears the target) is withheld from generation and reported by its pinned script; String/File/allocation-class failures are judged by C16/C20/C19", "5/C12"),
 "C01": (MC, "TLA+ Heap model (mutator + mark/sweep collector of src/GC.c, every sweep order, conservative retention as nondeterminism) checked exhaustively by TLC (SafeCollect; TLS defect refuted); model transitions and random mutator programs run on the real collector; recorded programs validated by TLC recomputing reachability (HeapTrace Mode reach)",
         "TLC enumerates all heaps over 3 (quick) / 4 (thorough) objects of every kind and allocation mode with stack, TLS and root-registered roots, Box ownership, deletions, stop/start and every order of the sweep's pending list, and checks that a collection never sweeps a reachable object; every model transition and hundreds of random programs (cycles, sharing, self references, containers that grow and rehash while referenced, heap Tuples, Table/Tree keys and values, forced and threshold collections, chains up to 20 000 links) run on the real collector in their own process, and TLC rejects any recorded sweep that took an object reachable in the specification's graph.",
         "conservative retention is allowed; programs stay in contract (documented in-contract rules); open finding F-C01-deep-chain (mark recursion overflows the stack beyond ~50 000 links) is reported by its pinned script", "5/C01"),
 "C06": (MC, "same Heap model: Once, DelWorks, DownClean, NoZombie checked exhaustively by TLC with every pending-list order (three as-found designs refuted); programs run one per process with destructor-counting Node objects and a post-exit event; validated by TLC (HeapTrace Mode final)",
         "TLC checks on the collector model that no object is finalised twice, that an explicit del finalises at once, and that teardown finalises every managed object, for every interleaving of allocation modes, Box ownership (owner before or after the owned object), deletions, collections, stop/start and teardown; model transitions and random programs run on the real collector, one process each, and TLC checks from the recorded destructor runs (including the event written after Cello_Exit) that each object was finalised at most once, at the right moment, and that only undeleted root/raw objects remain.",
         "the destructor ledger is the harness' Node type; open finding F-C06-stop-window (stopped collector neither registers nor deletes) is withheld from generation and reported by its pinned script; worker-thread teardown is exercised by C13", "5/C06"),
 "C17": (MC, "TLA+ Registry model (GC_Set_Ptr/GC_Mem_Ptr/GC_Rem_Ptr/GC_Sweep compaction/rehash transcribed) checked exhaustively by TLC against the abstract set with root flags (a seeded compaction defect is refuted); programs with arena-placed objects at colliding addresses; registry dump and mem() validated by TLC after every operation (HeapTrace Mode reg)",
         "TLC enumerates all add/remove/sweep histories (every marked subset) over addresses that collide modulo every registry size and wrap around, and checks Exact, NoDup, CountOK, RootsOK, MemOK (live and dead addresses) and MarksClear; on the real collector, objects placed through the type's own Alloc instance at arena addresses colliding modulo 5, 11, 23 and 53 plus ordinary objects go through allocations, deletions, forced and threshold collections, and after every operation TLC compares the dumped registry (ids, root flags, count, marks, duplicates, unknown entries) and mem() of every live object with the specification's set.",
         "registry contents are observed through the #include \"GC.c\" seam (automatic fallback to mem() only); garbage that a sweep leaves for the next cycle is not a violation", "5/C17"),
 "C07": (MC, "TLA+ ExcMachine (depth/active/obj driven by the five runtime entry points as the macros compose them) checked exhaustively by TLC against the block-structured reference for all lazily executed programs; every model transition rebuilt into a program tree and run with the real macros (interpreter with dynamic nesting, generated C with lexical nesting, forked children); recorded control flow validated by TLC (ExcTrace)",
         "TLC explores every dynamic path of every try/throw/catch program with 2-3 exception kinds, every filter set (the empty one included), nesting <= 3 and 9-10 statements, and checks that the machine enters exactly the handlers block structure prescribes, binds the thrown object, restores the depth and reports unhandled exceptions; the as-found exception_catch is refuted. All transitions of the model graph become program trees that run with the real macros, together with random trees up to 120 statements deep 6 (calls, throws from handlers, sequences), and TLC validates each recorded run including exit status and diagnostic of uncaught exceptions.",
         "three builtin exception objects stand for 'several kinds'; programs stay below the runtime's 2048-block nesting limit", "5/C07"),
 "C08": (MC, "TLA+ Dispatch model (lazy per-type cache slots, memoised class pointers, lookups split into read/scan/write steps, two threads interleaved) checked exhaustively by TLC against Lookup = first declared entry of that class name; full type x class x member matrix, run-time types and concurrent first lookups on the real library in fresh processes; every answer validated by TLC (DispatchTrace) against an independent by-name scan of the raw type record",
         "TLC checks for all lookup orders from two threads at sub-step granularity, on types with duplicated, missing and no classes, that every answer and every cached or memoised value equals the declaration (a seeded wrong memo write is refuted); on the real library all 27 x 30 x members combinations go through all eight lookup entry points cold and warm in random orders, run-time types with 0..256 instances in arbitrary order (duplicates, empty members, 257th refused), casts, and 2-16 threads doing first lookups against cold caches, and TLC checks each answer, ClassError for missing classes and empty members, and ValueError for foreign casts.",
         "the oracle reads the public struct Type layout from Cello.h; real schedules are sampled (the model's interleavings are exhaustive)", "5/C08"),
 "C16": (MC, "TLA+ CString operators and CStringModel (byte buffer with terminator, String_Rem's memmove arithmetic transcribed) checked exhaustively by TLC; every model transition and random histories over the full byte range run on real heap Strings; every call validated by TLC (CStringTrace)",
         "TLC checks for all histories over a two-letter alphabet (operands empty, equal, prefix, middle, suffix, overlapping, absent) that the buffer's visible bytes are the abstract string and the terminator stays inside the allocation, and refutes the as-found String_Rem; all transitions plus random histories with strings to 1000 bytes over bytes 1..255 run on real Strings, and TLC checks bytes, len, strcmp sign, eq, substring test, first-occurrence removal, formatted writes at positions, capacity >= len+1 and that equal strings hash equally after every call.",
         "operands are objects distinct from the target; formatted writes at positions inside the string", "5/C16"),
 "C20": (MC, "TLA+ FileStream/FileModel (handles over a small disk) checked exhaustively by TLC (Balanced, ClosedRefuses, ReadsDisk); every model transition and random histories run on real Files with fopen/fclose interposed; every call validated by TLC (FileTrace) including the C library's own ftell/feof",
         "TLC enumerates all orders of open (four modes, reopen without close), write, read, seek, tell, eof, flush and close (also twice, also after close) over two paths and checks that streams opened and closed balance, that a closed File refuses everything with IOError changing nothing, and that reads return what the disk holds; all transitions plus random histories (patterns with NULs, chunks from 0 to 3*BUFSIZ, seeks from every origin, with-blocks around explicit closes, del, printed integers scanned back) run on real Files, and TLC checks every return value, the bytes read, stell/seof against ftell/feof of every open stream after every call, and the fopen/fclose balance.",
         "seek targets within the file; ISO C repositioning rule between reads and writes obeyed by the generators; one handle per path", "5/C20"),
 "C11": (MC, "TLA+ Views (Elems of every view expression by structural recursion) and Cursors (the Range/Slice cursor machines of src/Iter.c transcribed) checked by TLC on the complete parameter grid; the grids and random view compositions iterated on the real library; every view validated by TLC (ViewTrace)",
         "TLC evaluates the cursor machines (init/next/last/prev, len, get, argument clamping, Slice iteration by the Range cursor) against the definitions for every (start, stop, step) in -8..8 and `_` and every underlying length 0..6, including that no position outside the underlying iterable is addressed; the as-found Range_Len / Range_Iter_Last are refuted. The same grids and thousands of random compositions (depth <= 3) of Array, List, Tuple, Table, Tree, Range, Slice/reverse, Zip, enumerate, Filter and Map are iterated forwards and backwards on the real library with len and get(+-i), and TLC recomputes Elems(view) for each and compares; the thorough tier repeats part of it under AddressSanitizer.",
         "the grid is exhaustive within -8..8 / length 6 only; items are Ints; Zip and Slice need inputs that implement len", "5/C11"),
 "C19": (MC, "TLA+ ObjLife outcome table (allocation class x registered x operation) checked over the whole matrix by TLC; every way of obtaining an object x every disposing operation run on real objects with free() interposed; validated by TLC (ObjTrace)",
         "TLC walks the class x operation matrix with up to three disposals per object and checks that only heap objects are ever released, at most once, and that a refused operation leaves the object live; on the real library 23 ways of obtaining an object (all allocation families, stack and static objects, copies, elements/keys/values of every container with element types of sizes 1, 8, 12 and owning types, iterator and view results, run-time type instances) are combined with del, del_raw, del_root, dealloc, dealloc_raw and the in-place String/Tuple operations, and TLC checks type_of, the header's allocation class, size(type) usable bytes without touching a neighbour, release exactly once (free() observed) for heap objects and ResourceError/ValueError with unchanged bytes and no free() for all others.",
         "objects are released through the family that created them (in contract); open finding F-C19-del-nonheap (del of a non-heap object is silently ignored) reported by its pinned script", "5/C19"),
 "C09": (EX, "TLA+ reference orders (Values.tla: int64 from limbs, IEEE order from bit patterns, byte-wise, lexicographic lifting) checked by TLC to be total orders on boundary grids; cmp and its six predicates evaluated on all pairs of boundary tables per type and on container values; every evaluation validated by TLC (ValTrace Mode cmp)",
         "the quantifier ranges over numeric and byte-string domains that cannot be enumerated: the specification is the oracle language. TLC checks that the reference relations are total orders on boundary grids; the real cmp, eq, neq, lt, gt, le, ge are evaluated on all ordered pairs of 24-value tables per type (differences beyond 32 and 64 bits, signed zeros, denormals, infinities, prefixes, bytes >= 0x80, type names, plain structs) and on Array/List/Tuple/Tree values of different lengths and kinds, and TLC checks each sign and predicate against the reference computed from the raw operands.",
         "sampled value domain (boundary tables + random); NaN excluded; Table ordering not part of the property", "5/C09"),
 "C10": (EX, "HashLaw in TLA+ (abstract value -> first observed hash, later observations must agree; eq = equality of abstract values; copy/assign/swap preserve values) validated by TLC over recorded observations on instances in different allocation classes and containers reached through different histories (ValTrace Mode hash)",
         "values of Int, Float (+0/-0), String, Type, plain structs are instantiated on the stack, on the heap and inside containers; Tables are built in different insertion orders, with extra insert/remove pairs and reserves, Trees, Arrays, Lists and Tuples with equal elements; hash of every instance, eq of every pair, copy, assign (also across container kinds) and swap are logged with raw operands and TLC checks that each abstract value has one hash, that eq is abstract equality, and that copy/assign/swap deliver the source value.",
         "sampled value domain; eq between a Tree and a Table is not generated (their iteration orders differ by design)", "5/C10"),
 "C14": (EX, "TLA+ FormatScan (the scanner of print_to_with against the grammar, all class sequences up to 4 segments, read index in bounds) checked by TLC; generated format strings x boundary values x start positions x sinks executed; composition validated by TLC (FmtTrace Mode print) with libc snprintf as the per-conversion rendering oracle",
         "what a single conversion prints is the C library's business: it enters the specification as an uninterpreted function whose values the log supplies (snprintf with exactly the same specification and value; show_to for %$). The specification decides everything else and TLC checks it on every recorded call: segments consumed left to right with one argument each, output = destination prefix + renderings, returned position = start + characters written, identical bytes on String and File sinks, FormatError exactly when the arguments run out with only the earlier segments written. Every order of up to three segment classes and thousands of random format strings (flags, widths, precisions, length modifiers, all listed conversions, %$ of scalars and containers) are executed; the thorough tier adds an AddressSanitizer build.",
         "sampled input domain (exploration); libc is trusted for single conversions; grammar as stated in the property (no %n, no * widths, %c never 0)", "5/C14"),
 "C15": (EX, "TLA+ Codec (String escape encoder and the transcribed String_Look decoder; Dec(Enc(s)) = s and exact consumption for all strings <= 3 over the class alphabet, as-found reader refuted) checked by TLC; show/look and print/scan round trips executed on both sinks; validated by TLC (FmtTrace Mode round)",
         "TLC proves the String escape layer round-trips on a complete class alphabet and frames correctly; on the real library boundary and random int64 values, finite doubles across the exponent range and strings over bytes 1..255 are written with show_to (or print_to with %li %lld %d %i %hd %hhd %u %lu %lf %le %lg %$) at several start positions on String and File sinks and read back with look_from / scan_from, alone and in sequences with separators; TLC checks that the value read back is the value the written text denotes (the value itself for Int and String) and that exactly the written characters were consumed.",
         "sampled value domain (exploration); the value a numeric text denotes is computed with strtoll/strtod", "5/C15"),
}

NOT_YET = {
}


def main():
    props = [json.loads(l) for l in open(os.path.join(ROOT, "properties.jsonl"))]
    checks, na = [], []
    for p in props:
        pid = p["id"]
        if pid in CHECKS:
            lvl, tech, text, note, ref = CHECKS[pid]
            checks.append({
                "property_id": pid,
                "quick_cmd": "bin/check %s quick" % pid,
                "thorough_cmd": "bin/check %s thorough" % pid,
                "evidence_file": "/verif/evidence/%s.json" % pid,
                "replay_cmd_template": "bin/check %s --replay {path}" % pid,
                "engine": "tlc-trace-validation",
                "level_claimed": {"category": lvl, "text": text, "design_ref": "DESIGN.md section " + ref},
                "level_note": note,
                "technique": tech,
            })
        else:
            na.append({"property_id": pid, "reason": NOT_YET.get(pid, "check not built yet in this round (planned, see DESIGN.md section 10); not claimed until its specification and conformance harness exist")})
    hooks_commits = []
    man = {
        "version": 1,
        "setup_cmd": "tools/setup.sh",
        "hooks": {"guard": "CELLO_VERIF", "enable": "no source hooks are needed: harnesses link against objects compiled from /repo's working tree and use #include \"src/X.c\" seams for white-box access; -DCELLO_VERIF is reserved",
                  "baseline_off_cmd": "make -C /repo check", "source_commits": hooks_commits, "add_only": True},
        "engines": [{"name": "tlc-trace-validation", "path": "bin/check",
                     "serves_properties": [c["property_id"] for c in checks],
                     "kind_free_text": "explicit TLA+ specifications (spec/*.tla) model-checked by TLC; conformance by replaying TLC-generated behaviours on the real library and validating recorded ndjson traces against the specifications"}],
        "checks": checks,
        "not_applicable": na,
        "notes": "All checks rebuild the library from $CELLO_REPO (default /repo) working tree into a private scratch directory. Exit 0 held, 1 VIOLATION, 2 internal error. known_findings.jsonl lists open findings and fixed defects.",
    }
    with open(os.path.join(ROOT, "MANIFEST.json"), "w") as f:
        json.dump(man, f, indent=1)
        f.write("\n")
    try:
        import jsonschema
        jsonschema.validate(man, json.load(open("/root/.vp/MANIFEST.schema.json")))
        print("MANIFEST.json valid: %d checks, %d not_applicable" % (len(checks), len(na)))
    except ImportError:
        print("MANIFEST.json written (jsonschema not importable here)")


if __name__ == "__main__":
    main()
