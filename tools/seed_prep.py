#!/usr/bin/env python3
"""tools/seed_prep.py <PID> <tag> [avoid text] : scratch worktree /tmp/wt_<PID><tag> of /repo HEAD and the self-contained task file
/tmp/agent_<PID><tag>.txt for an independent sub-agent (it gets the property text only, nothing from /verif)."""
import json, os, subprocess, sys
pid, tag = sys.argv[1], sys.argv[2]
avoid = sys.argv[3] if len(sys.argv) > 3 else ""
wt, demo = "/tmp/wt_%s%s" % (pid, tag), "/tmp/%s%s_demo" % (pid, tag)
prop = next(json.loads(l) for l in open("/verif/properties.jsonl") if json.loads(l)["id"] == pid)
text = "%s\n\n%s\n\n(Quantified %s.)" % (prop["title"], prop["statement"], prop["quantifier"]["text"])
subprocess.check_call(["git", "-C", "/repo", "worktree", "add", "--detach", "-f", wt, "HEAD"], stdout=subprocess.DEVNULL, stderr=subprocess.DEVNULL)
os.makedirs(demo, exist_ok=True)
t = open("/verif/tools/agent_prompt.txt").read()
t = t.replace("{WT}", wt).replace("{DEMO}", demo).replace("{PROP}", text)
t = t.replace("{AVOID}", ("\n" + avoid + "\n") if avoid else "")
open("/tmp/agent_%s%s.txt" % (pid, tag), "w").write(t)
print("/tmp/agent_%s%s.txt" % (pid, tag))
