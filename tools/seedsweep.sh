#!/bin/bash
# tools/seedsweep.sh <first seed> <last seed> [tier] [ids...] : every check on the unchanged tree with other generator seeds
# (a check must hold for every seed; anything else printed here is a false alarm or a finding to triage)
A=$1; B=$2; TIER=${3:-quick}; shift 3 2>/dev/null
IDS=${@:-C01 C02 C03 C04 C05 C06 C07 C08 C09 C10 C11 C12 C13 C14 C15 C16 C17 C18 C19 C20}
cd "$(dirname "$0")/.."
for s in $(seq $A $B); do for c in $IDS; do
  out=$(VERIF_SEED=$s VERIF_NOEVIDENCE=1 timeout 3600 bin/check $c $TIER 2>&1); rc=$?
  echo "seed=$s $c rc=$rc $(echo "$out" | tail -1 | cut -c1-120)"
  [ $rc -ne 0 ] && echo "$out" | grep -E "VIOLATION|DETAIL|ERROR" | head -4 | cut -c1-400
done; done
