#!/bin/bash
# tools/seed_eval.sh <PID> <worktree with the change applied> <demo dir> [check id ...]
# Confirms a seeded change (suite passes with it; demo fails with it and passes without) and runs our checks against it.
PID=$1; WT=$2; DEMO=$3; shift 3; CHECKS=${@:-$PID}
set -o pipefail
build_demo() { make -C $WT >/dev/null 2>&1 && gcc -std=gnu99 -w -I $WT/include $DEMO/demo.c $WT/libCello.a -lpthread -lm -o $DEMO/demo 2>&1 | tail -3; }
echo "--- suite with change:"; (cd $WT && timeout 300 make check 2>&1 | grep -E "Tests " | sed 's/\x1b\[[0-9;]*m//g')
echo "--- demo with change:"; build_demo; timeout 120 $DEMO/demo >/dev/null 2>&1; echo "exit=$?"
# (git stash is shared between worktrees: never use it here)
git -C $WT diff > $DEMO/.cur.diff; git -C $WT apply -R $DEMO/.cur.diff; echo "--- demo without change:"; build_demo; timeout 120 $DEMO/demo >/dev/null 2>&1; echo "exit=$?"; git -C $WT apply $DEMO/.cur.diff; rm -f $DEMO/.cur.diff
make -C $WT >/dev/null 2>&1
for c in $CHECKS; do echo "--- bin/check $c quick against the change:"; (cd /verif && CELLO_REPO=$WT timeout 900 bin/check $c quick 2>&1 | grep -E "VIOLATION|KNOWN|ERROR|held|VIOLATED" | grep -v KNOWN | awk 'NR<=3{print} {l=$0} END{if(NR>3)print l}'); done
