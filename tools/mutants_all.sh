#!/bin/bash
# tools/mutants_all.sh [tier] : every mutant of mutants/index.tsv against the check of the property it breaks (scratch copies of
# /repo, never /repo itself); also records whether the repository's own suite notices.  Writes mutants/RESULTS.md.
TIER=${1:-quick}
cd "$(dirname "$0")/.."
python3 tools/mkmutants.py >/dev/null || exit 2
OUT=mutants/RESULTS.md
echo "| mutant | property | change | repository suite | bin/check <property> $TIER |" > $OUT.tmp
echo "|---|---|---|---|---|" >> $OUT.tmp
while IFS=$'\t' read name pid file note; do
  r=$(MUT_SUITE=1 MUT_LINES=60 tools/mutant.sh mutants/$name.diff $pid $TIER 2>&1)
  suite=$(echo "$r" | grep -E "Tests " | sed -E 's/.*Passed +([0-9]+).*Failed +([0-9]+).*/\1 passed, \2 failed/' | head -1)
  [ -z "$suite" ] && suite="crashes or hangs"
  if echo "$r" | grep -qE "^VIOLATION property=$pid"; then v="VIOLATION"; elif echo "$r" | grep -q "^ERROR"; then v="tool error (exit 2)"; else v="**held**"; fi
  echo "| $name | $pid | $note ($file) | $suite | $v |" | tee -a $OUT.tmp
done < mutants/index.tsv
echo >> $OUT.tmp; echo "Benign changes (no property is broken: every listed check must hold):" >> $OUT.tmp; echo >> $OUT.tmp
echo "| change | what | checks run | outcome |" >> $OUT.tmp
echo "|---|---|---|---|" >> $OUT.tmp
while IFS=$'\t' read name pids file note; do
  bad=""
  for pid in $pids; do
    r=$(MUT_LINES=60 tools/mutant.sh mutants/$name.diff $pid $TIER 2>&1)
    echo "$r" | grep -qE "^$pid $TIER: held" || bad="$bad $pid"
  done
  [ -z "$bad" ] && v="all held" || v="**alarm or error in:$bad**"
  echo "| $name | $note ($file) | $pids | $v |" | tee -a $OUT.tmp
done < mutants/benign.tsv
mv $OUT.tmp $OUT
