#!/usr/bin/env python3
"""value tables and scripts for C09 / C10 (h_val)."""
import struct

I64MAX, I64MIN = 2**63 - 1, -2**63

def ints(rng, n=24):
    base = [0, 1, -1, 2**31 - 1, 2**31, -2**31, -2**31 - 1, 2**32, 2**32 + 1, -2**32, 2**62, -2**62, I64MAX, I64MIN, I64MAX - 1, I64MIN + 1, 255, 65536]
    while len(base) < n:
        base.append(rng.choice([rng.randint(-100, 100), rng.randint(I64MIN, I64MAX), rng.randint(-2**33, 2**33)]))
    return list(dict.fromkeys(base))[:n]

def fbits(x):
    return struct.unpack("<Q", struct.pack("<d", x))[0]

NANS = [0x7ff8000000000000, 0xfff8000000000000, 0x7ff0000000000001, 0x7ff8000000000001, 0xffffffffffffffff]

def floats(rng, n=24):
    base = [0.0, -0.0, 5e-324, -5e-324, 2.2250738585072014e-308, -2.2250738585072014e-308, 1.0, -1.0, 1.0000000000000002,
            1.7976931348623157e308, -1.7976931348623157e308, float("inf"), float("-inf"), 0.1, -0.1, 3.5, 1e100, -1e100]
    bits = [fbits(x) for x in base]
    while len(bits) < n:
        b = rng.getrandbits(64)
        if ((b >> 52) & 0x7ff) == 0x7ff and (b & ((1 << 52) - 1)):
            continue                      # NaN excluded
        bits.append(b)
    return list(dict.fromkeys(bits))[:n]

def strings(rng, n=24):
    base = [b"", b"a", b"ab", b"abc", b"b", b"\x80", b"a\x80", b"\xff", b"a\x01", b"a\x7f", b"A", b"aa", b"\x01", b"\x7f\x80", b"zz\xfe"]
    while len(base) < n:
        base.append(bytes(rng.choice(b"ab\x01\x7f\x80\xff") for _ in range(rng.randint(0, 5))))
    return list(dict.fromkeys(base))[:n]

TYPES = ["Int", "Float", "String", "Array", "List", "Table", "Tree", "Tuple", "Ref", "Box", "Type", "File", "Range", "Slice", "Zip", "Map",
         "Filter", "Thread", "Mutex", "Function", "TypeError", "ValueError", "KeyError", "IOError", "Iter", "Get",
         "Point", "Point3D", "PointCloud", "Poin", "P", "\u00dcnit", "\u00e9t\u00e9", "Unit"]          # (names that are prefixes of each other; the last five are made at run time)
NESTED_TYPES = ["Type", "TypeError", "Point", "Point3D", "PointCloud", "Poin", "P", "Iter", "Int", "\u00dcnit", "Unit"]

def blobs(rng, n=16, size=16):
    z = size - 1
    out = [bytes(size), bytes([0] * z + [1]), bytes([1] + [0] * z), bytes([0x7f] * size), bytes([0x80] * size), bytes([0xff] * size),
           bytes([0] * z + [0x80]), bytes([0] * z + [0x7f])]
    while len(out) < n:
        out.append(bytes(rng.getrandbits(8) for _ in range(size)))
    return out[:n]

def sblobs(rng, n=8):
    """24-byte values of the type with its own Size instance: most share their first 8 bytes (what the declared struct covers)"""
    heads = [bytes(8), bytes([1, 2, 3, 4, 5, 6, 7, 0x80])]
    tails = [bytes(16), bytes([0] * 15 + [1]), bytes([1] + [0] * 15), bytes([0x80] * 16), bytes([0xff] * 16), bytes([0] * 8 + [1] + [0] * 7)]
    out = [heads[0] + t for t in tails] + [heads[1] + tails[0], heads[1] + tails[3]]
    while len(out) < n:
        out.append(rng.choice(heads) + bytes(rng.getrandbits(8) for _ in range(16)))
    return list(dict.fromkeys(out))[:n]

def hx(b):
    return b.hex() if b else "-"

def define(kind, vals, start=1):
    L, toks = [], []
    for i, v in enumerate(vals):
        t = start + i
        toks.append(t)
        if kind == "I": L.append("V %d I %d" % (t, v))
        elif kind == "F": L.append("V %d F %016x" % (t, v))
        elif kind == "S": L.append("V %d S %s" % (t, hx(v)))
        elif kind == "Y": L.append("V %d Y %s" % (t, v))
        elif kind == "X": L.append("V %d X %s" % (t, hx(v)))
    return L, toks

def all_pairs(toks):
    return ["cmp %d %d" % (a, b) for a in toks for b in toks]

def scalar_cmp_exec(rng, kind):
    vals = {"I": ints, "F": floats, "S": strings, "X": blobs}[kind](rng) if kind != "Y" else TYPES
    if kind == "F": vals = list(vals) + NANS                 # (not-a-number values: above every number, equal to each other)
    L, toks = define(kind, vals)
    extra = []
    if kind == "X":                       # plain structs of other types (12 and 5 bytes): ordered among themselves, never across
        for sz in (12, 5, 24):
            d, tk = define("X", blobs(rng, 8, sz) if sz != 24 else sblobs(rng, 10), len(toks) + len(extra) + 1 + (100 if sz == 5 else 50 if sz == 12 else 150))
            L += d; extra += all_pairs(tk)
            extra += ["cmp %d %d" % (toks[0], tk[0]), "cmp %d %d" % (tk[1], toks[1])]
    if kind == "S":                       # Strings that held longer texts and were cut down (stale characters behind the terminator)
        base = len(toks) + 300
        cut = []
        for i, (txt, n) in enumerate(((b"stale-tail-one", 0), (b"another, longer tail", 0), (b"abcXYZ", 3), (b"abcDEF-and-more", 3), (b"", 0))):
            L.append("V %d S %s" % (base + i, hx(txt))); L.append("hresize %d %d" % (base + i, n)); cut.append(base + i)
        extra += all_pairs(cut) + ["cmp %d %d" % (a, b) for a in cut for b in toks[:4]] + ["cmp %d %d" % (b, a) for a in cut for b in toks[:4]]
    return ["reset"] + L + all_pairs(toks) + extra

def seq_cmp_exec(rng, strict=False):
    """sequences of different lengths and container kinds compared element-wise; Trees by key then value"""
    iv = [0, 1, -1, 2**32, I64MIN, I64MAX, 7]
    L, it = define("I", iv)
    L = ["reset"] + L
    t = len(it) + 1
    seqs = []
    dup = set()                              # (as RIGHT operand such a Tuple is walked by identity: known finding F-C09-tuple-dup-right)
    for _ in range(14):
        n = rng.choice([0, 1, 2, 2, 3, 4])
        elems = [rng.choice(it) for _ in range(n)]
        k = rng.choice("ALUW")
        L.append("V %d %s %d%s" % (t, k, n, "".join(" %d" % e for e in elems)))
        if k == "W" and len(set(elems)) < n: dup.add(t)
        seqs.append(t); t += 1
    for n in (2, 3, 4):                      # Tuples holding ONE object several times, against sequences with equal elements
        e = rng.choice(it); o = rng.choice(it)
        for k, el in (("W", [e] * n), ("W", [e] * (n - 1) + [o]), ("W", [o] + [e] * (n - 1)), (rng.choice("AL"), [e] * n), ("U", [e] * n)):
            L.append("V %d %s %d%s" % (t, k, n, "".join(" %d" % x for x in el)))
            if k == "W": dup.add(t)
            seqs.append(t); t += 1
    # empty sequences that still own storage (room reserved by resize; a first push that was refused and caught), and emptied ones
    d, stok = define("S", [b"refused"], t); L += d; t += 1
    for how in (("resize", "popped", "plain") if strict else ("resize", "refused", "popped", "plain")):     # strict: no error path (C18's unchecked builds)
        for k in "AL":
            L.append("V %d %s 0" % (t, k))
            if how == "resize" and k == "A": L.append("hresize %d 6" % t)
            if how == "refused": L.append("hpush %d %d" % (t, stok[0]))
            if how == "popped": L += ["hpush %d %d" % (t, it[0]), "hpush %d %d" % (t, it[1]), "hpop %d" % t, "hpop %d" % t]
            seqs.append(t); t += 1
    # empty Arrays / Lists whose DECLARED element type is another one (made with one Float / String element that is popped again):
    # an empty sequence equals every empty sequence and sorts below every non-empty one, whatever it was declared to hold
    d, ftok = define("F", [fbits(1.5)], t); L += d; t += 1
    for tok in (ftok[0], stok[0]):
        for k in "AL":
            L.append("V %d %s 1 %d" % (t, k, tok)); L.append("hpop %d" % t); seqs.append(t); t += 1
    trees = []
    for _ in range(8):
        n = rng.choice([0, 1, 2, 3])
        ks = rng.sample(it, n)
        L.append("V %d R %d%s" % (t, n, "".join(" %d %d" % (k, rng.choice(it)) for k in ks)))
        trees.append(t); t += 1
    # ordered maps with the SAME keys and different values (values decide), and with one differing key further on
    ks = sorted(rng.sample(it, 3))
    for _ in range(5):
        L.append("V %d R 3%s" % (t, "".join(" %d %d" % (k, rng.choice(it[:3])) for k in ks)))
        trees.append(t); t += 1
    # larger ordered maps (6 .. 14 bindings: every node shape of a red-black tree that deep) with the SAME contents reached
    # through different insertion orders, one with a single value raised, one with a key missing: compared all against all
    kd, kt = define("I", list(range(100, 116)), t); L += kd; t += len(kt)
    biggroups = []; intent = []
    for n in (6, 9, 12, 14):
        ks = rng.sample(kt, n); vals = {k: rng.choice(it[:5]) for k in ks}          # (no binding holds the largest value yet)
        g = []
        for order in (rng.sample(ks, n), sorted(ks), sorted(ks, reverse=True), rng.sample(ks, n)):
            L.append("V %d R %d%s" % (t, n, "".join(" %d %d" % (k, vals[k]) for k in order))); g.append(t); t += 1
        intent += ["same %d %d" % (g[0], x) for x in g[1:]]
        hi = rng.choice(ks); order = rng.sample(ks, n)                                # one value raised to the largest: greater
        L.append("V %d R %d%s" % (t, n, "".join(" %d %d" % (k, it[5] if k == hi else vals[k]) for k in order))); g.append(t); t += 1
        intent += ["less %d %d" % (x, g[4]) for x in g[:4]]
        drop = max(ks)                 # the largest key missing: smaller whichever way the Tree iterates (a proper prefix, or an earlier smaller key)
        L.append("V %d R %d%s" % (t, n - 1, "".join(" %d %d" % (k, vals[k]) for k in order if k != drop))); g.append(t); t += 1
        intent += ["less %d %d" % (g[5], x) for x in g[:4]]
        biggroups.append(g)
    # ordered maps whose key and value types differ in size (Int -> 16-byte struct, 12- and 5-byte struct -> Int): a binding's value
    # lies behind a key of ITS size; the same bindings through different insertion orders are equal, a changed value is not
    widegroups = []
    for kx, vx in ((None, 16), (12, None), (5, None), (12, 16)):
        if kx: d, kk = define("X", list(dict.fromkeys(blobs(rng, 6, kx))), t); L += d; t += len(kk)
        else: kk = kt
        if vx: d, vv = define("X", blobs(rng, 4, vx), t); L += d; t += len(vv)
        else: vv = it[:4]
        n = rng.randint(2, min(5, len(kk)))
        ks = rng.sample(kk, n); vals = {k: rng.choice(vv[:3]) for k in ks}
        g = []
        for order in (ks, rng.sample(ks, n), list(reversed(ks))):
            L.append("V %d R %d%s" % (t, n, "".join(" %d %d" % (k, vals[k]) for k in order))); g.append(t); t += 1
        intent += ["same %d %d" % (g[0], x) for x in g[1:]]
        ch = rng.choice(ks)
        L.append("V %d R %d%s" % (t, n, "".join(" %d %d" % (k, vv[3] if k == ch else vals[k]) for k in ks))); g.append(t); t += 1
        widegroups.append(g)
    sv = strings(rng, 6)
    sl, st = define("S", sv, t); L += sl; t += len(st)
    sseqs = []
    for _ in range(6):
        n = rng.choice([0, 1, 2, 3])
        L.append("V %d %s %d%s" % (t, rng.choice("AL"), n, "".join(" %d" % rng.choice(st) for _ in range(n))))
        sseqs.append(t); t += 1
    return L + [p for p in all_pairs(seqs) if int(p.split()[2]) not in dup] + all_pairs(trees) + [p for g in biggroups + widegroups for p in all_pairs(g)] + intent + all_pairs(sseqs)

def hash_exec(rng):
    """equal values in different instances, allocation classes and construction histories"""
    L = ["reset"]
    t = 1
    groups = []
    kinds_of = {}
    nocopy = set()
    for kind, vals in (("I", ints(rng, 8) + [2**53, 2**53 + 1, 2**60, 2**60 + 100, I64MAX - 1, I64MAX]), ("F", floats(rng, 8) + NANS), ("S", strings(rng, 8)), ("Y", TYPES[:6] + NESTED_TYPES), ("X", blobs(rng, 6)),
                       ("X", blobs(rng, 6, 12)), ("X", blobs(rng, 6, 5)), ("X", sblobs(rng, 8))):
        d, toks = define(kind, vals, t); L += d; t += len(toks)
        for tk in toks:
            g = [tk]
            if kind == "Y":
                nocopy.add(tk)                 # Type objects refuse copy and assign by design
            if kind != "Y":
                for cls in ("stack", "heap", "elem"):
                    L.append("alt %d %d %s" % (t, tk, cls)); g.append(t); t += 1
            groups.append(g)
            kinds_of[g[0]] = kind + (str(len(vals[0])) if kind == "X" else "")      # plain structs of different sizes are different types
    # containers reached through different histories
    iv = [0, 55, 110, 165, 4, 59, 7, 2**40]
    d, it = define("I", iv, t); L += d; t += len(it)
    for _ in range(6):
        n = rng.randint(0, 6)
        ks = rng.sample(it, n)
        pairs = [(k, rng.choice(it)) for k in ks]
        g = []
        for variant in range(4):
            order = pairs[:]
            rng.shuffle(order)
            kind = "B" if variant < 3 else "R"
            L.append("V %d %s %d%s" % (t, kind, len(order), "".join(" %d %d" % p for p in order)))
            if variant == 1:
                extra = [k for k in it if k not in ks][:2]
                for k in extra: L.append("hset %d %d %d" % (t, k, it[0]))
                for k in extra: L.append("hrem %d %d" % (t, k))
            if variant == 2:
                L.append("hresize %d %d" % (t, rng.choice([10, 50, 120])))
            if variant in (1, 2, 3):                # bindings overwritten and restored: same value, another history
                for (k, v) in rng.sample(order, min(3, len(order))):
                    L.append("hset %d %d %d" % (t, k, rng.choice(it))); L.append("hset %d %d %d" % (t, k, v))
            g.append(t); t += 1
        groups.append(g[:3]); groups.append([g[3]])
        kinds_of[g[0]] = "table"; kinds_of[g[3]] = "tree"
    # ordered maps and tables with more bindings and with values WIDER than their keys (16-byte structs), reached by insertion in
    # different orders and by inserting a superset and removing the surplus (removals of inner nodes)
    kv = list(range(-30, 90, 7))
    d, kt = define("I", kv, t); L += d; t += len(kt)
    d, bt = define("X", blobs(rng, 6), t); L += d; t += len(bt)
    for wide in (False, True, True):
        for kind in "RB":
            n = rng.randint(5, 12)
            ks = rng.sample(kt, n)
            pairs = [(k, rng.choice(bt if wide else kt)) for k in ks]
            surplus = [(k, rng.choice(bt if wide else kt)) for k in kt if k not in ks][:5]
            g = []
            for variant in range(3):
                order = pairs[:] if variant == 0 else rng.sample(pairs, len(pairs))
                if variant == 2:
                    order = rng.sample(pairs + surplus, len(pairs) + len(surplus))
                L.append("V %d %s %d%s" % (t, kind, len(order), "".join(" %d %d" % p for p in order)))
                if variant == 2:
                    for (k, _v) in rng.sample(surplus, len(surplus)): L.append("hrem %d %d" % (t, k))
                g.append(t); t += 1
            groups.append(g)
            kinds_of[g[0]] = ("tree" if kind == "R" else "table") + ("-wide" if wide else "-narrow")
    # maps keyed on plain structs whose size is not a multiple of the pointer size (12 and 5 bytes): slot layout rounds the key
    for bsz in (12, 5):
        bv = list(dict.fromkeys(blobs(rng, 10, bsz)))
        d, bk = define("X", bv, t); L += d; t += len(bk)
        for kind in "RB":
            n = rng.randint(3, min(8, len(bk)))
            ks = rng.sample(bk, n)
            pairs = [(k, rng.choice(kt)) for k in ks]
            surplus = [(k, rng.choice(kt)) for k in bk if k not in ks][:3]
            g = []
            for variant in range(3):
                order = pairs[:] if variant == 0 else rng.sample(pairs, len(pairs))
                if variant == 2:
                    order = rng.sample(pairs + surplus, len(pairs) + len(surplus))
                L.append("V %d %s %d%s" % (t, kind, len(order), "".join(" %d %d" % p for p in order)))
                if variant == 2:
                    for (k, _v) in rng.sample(surplus, len(surplus)): L.append("hrem %d %d" % (t, k))
                g.append(t); t += 1
            groups.append(g)
            kinds_of[g[0]] = ("tree" if kind == "R" else "table") + "-key%d" % bsz
    for _ in range(6):
        n = rng.randint(0, 5)
        elems = [rng.choice(it) for _ in range(n)]
        g = []
        for k in "ALU":
            L.append("V %d %s %d%s" % (t, k, n, "".join(" %d" % e for e in elems)))
            if k == "A" and rng.random() < 0.5:
                L.append("hpush %d %d" % (t, it[0])); L.append("hpop %d" % t); L.append("hresize %d %d" % (t, n + 9) if n else "hpop %d" % t) if n else None
            g.append(t); t += 1
        groups.append(g)
        kinds_of[g[0]] = "seq"
    # sequences that went through a REFUSED push (a String offered to a sequence of Ints, caught) before their last element: they
    # are the value they would be without it - next to a cleanly built sequence that really has a 0 in that place
    d, stok = define("S", [b"refused"], t); L += d; t += 1
    for _ in range(3):
        n = rng.randint(1, 4)
        elems = [rng.choice(it[1:]) for _ in range(n)]
        g = []
        for k in "AL":
            L.append("V %d %s %d%s" % (t, k, n, "".join(" %d" % e for e in elems)))
            L.append("hpush %d %d" % (t, stok[0])); L.append("hpush %d %d" % (t, it[1]))
            g.append(t); t += 1
        L.append("V %d L %d%s %d %d" % (t, n + 2, "".join(" %d" % e for e in elems), it[0], it[1])); g.append(t); t += 1     # (it[0] is the Int 0)
        L.append("V %d A %d%s %d" % (t, n + 1, "".join(" %d" % e for e in elems), it[1])); g.append(t); t += 1
        groups.append(g)
        kinds_of[g[0]] = "seq"
    L = [x for x in L if x]
    ops = []
    for g in groups:
        if kinds_of.get(g[0], "").startswith(("tree", "table")):
            for a in g[1:]: ops.append("same %d %d" % (g[0], a))        # built with the same bindings: equal, whatever the history
    for g in groups:
        for a in g: ops.append("hash %d" % a)
        for a in g:
            for b in g: ops.append("cmp %d %d" % (a, b))
    igroups = [g for g in groups if kinds_of.get(g[0]) == "I"]       # every two Int values (neighbours beyond 2^53 are different values)
    for i, ga in enumerate(igroups):
        for gb in igroups[i + 1:]:
            ops.append("cmp %d %d" % (rng.choice(ga), rng.choice(gb)))
    for _ in range(60):          # values of the same kind from different groups: mostly unequal
        ga, gb = rng.sample(groups, 2)
        if kinds_of[ga[0]] == kinds_of[gb[0]]:
            ops.append("cmp %d %d" % (rng.choice(ga), rng.choice(gb)))
    for g in groups:
        a = g[0]
        if a in nocopy:
            continue
        ops.append("copy %d %d" % (t, a)); ops.append("hash %d" % t); ops.append("cmp %d %d" % (t, a)); t += 1
    return L + ops

def assign_swap_exec(rng):
    L = ["reset"]; t = 1
    ops = []
    for kind, vals in (("I", ints(rng, 6)), ("F", floats(rng, 6)), ("S", strings(rng, 6)), ("X", blobs(rng, 4)), ("X", blobs(rng, 4, 12)), ("X", blobs(rng, 4, 5))):
        d, toks = define(kind, vals, t); L += d; t += len(toks)
        cp = []
        for tk in toks:
            L.append("alt %d %d heap" % (t, tk)); cp.append(t); t += 1
        for _ in range(6):
            a, b = rng.choice(cp), rng.choice(toks)
            ops.append("assign %d %d" % (a, b)); ops.append("hash %d" % a)
        for _ in range(4):
            a, b = rng.sample(cp, 2)
            ops.append("swap %d %d" % (a, b)); ops.append("hash %d" % a); ops.append("hash %d" % b)
    iv = [1, 2, 3]; d, it = define("I", iv, t); L += d; t += 3
    L.append("V %d A 2 %d %d" % (t, it[0], it[1])); a1 = t; t += 1
    L.append("V %d A 1 %d" % (t, it[2])); a2 = t; t += 1
    L.append("V %d L 3 %d %d %d" % (t, it[0], it[1], it[2])); l1 = t; t += 1
    L.append("V %d B 2 %d %d %d %d" % (t, it[0], it[1], it[1], it[2])); b1 = t; t += 1
    L.append("V %d B 0" % t); b2 = t; t += 1
    L.append("V %d R 1 %d %d" % (t, it[0], it[0])); r1 = t; t += 1
    # Arrays / Lists whose element types have different sizes (plain structs of 5, 12, 16+ bytes, Ints, Strings) assigned onto
    # each other while the target is populated (two elements and more): the target takes over the source's element type
    conts = []
    for kind, vals in (("X", blobs(rng, 3)), ("X", blobs(rng, 3, 12)), ("X", blobs(rng, 3, 5)), ("I", ints(rng, 4)), ("S", strings(rng, 3))):
        d, toks = define(kind, vals, t); L += d; t += len(toks)
        for ck in "AL":
            n = rng.randint(2, len(toks))
            L.append("V %d %s %d %s" % (t, ck, n, " ".join(str(x) for x in toks[:n]))); conts.append(t); t += 1
    for _ in range(8):
        a, b = rng.sample(conts, 2)
        ops += ["assign %d %d" % (a, b), "hash %d" % a, "hash %d" % b]
    ops += ["assign %d %d" % (a2, a1), "assign %d %d" % (a1, l1), "assign %d %d" % (b2, b1), "assign %d %d" % (l1, a2),
            "hash %d" % a1, "hash %d" % l1, "hash %d" % b2, "hash %d" % b1, "hash %d" % r1]
    return L + ops
