#!/usr/bin/env python3
"""Turn the transition graph printed by an exhaustive TLC run (EDGE lines) into
operation sequences that start in the initial state and together traverse every
edge (or visit every state) of the graph.  Generic: states and action labels
are opaque JSON values."""
import json
from collections import defaultdict, deque


class Graph:
    def __init__(self, edges):
        self.out = defaultdict(list)      # node -> [(label, target)]
        self.nodes = set()
        seen = set()
        for e in edges:
            f = json.dumps(e["f"], sort_keys=True)
            t = json.dumps(e["t"], sort_keys=True)
            a = json.dumps(e["a"], sort_keys=True)
            if (f, a, t) in seen:
                continue
            seen.add((f, a, t))
            self.out[f].append((a, t))
            self.nodes.add(f)
            self.nodes.add(t)
        self.nedges = len(seen)

    def cover(self, init, mode="edges", maxlen=400, rng=None, budget=None):
        """Greedy tours from init. mode 'edges': every edge; 'states': every node.
        budget: stop after that many operations in total (None = until covered).
        Returns (list of paths, covered_count, total_count); a path is a list of action labels (parsed)."""
        init = json.dumps(init, sort_keys=True)
        if init not in self.nodes:
            raise ValueError("initial state not in graph: %s" % init)
        if mode == "edges":
            todo = {(f, i) for f in self.out for i in range(len(self.out[f]))}
        else:
            todo = set(self.nodes) - {init}
        total = len(todo)
        paths = []
        ops = 0
        # reachable uncovered work per node for quick lookup
        pending = defaultdict(set)
        if mode == "edges":
            for (f, i) in todo:
                pending[f].add(i)
        while todo and (budget is None or ops < budget):
            cur = init
            path = []
            progressed = False
            while len(path) < maxlen:
                step = None
                if mode == "edges" and pending[cur]:
                    idxs = pending[cur]
                    i = rng.choice(sorted(idxs)) if rng else min(idxs)
                    idxs.discard(i)
                    todo.discard((cur, i))
                    step = [self.out[cur][i]]
                else:
                    step = self._nearest(cur, todo, pending, mode)
                    if step is None:
                        break
                for (a, t) in step:
                    path.append(json.loads(a))
                    cur = t
                    if mode == "states" and cur in todo:
                        todo.discard(cur)
                progressed = True
            if not progressed:
                break
            paths.append(path)
            ops += len(path)
        return paths, total - len(todo), total

    def _nearest(self, src, todo, pending, mode):
        """BFS to the nearest node with work; returns list of (label,target) steps (incl. the work step)."""
        prev = {src: None}
        q = deque([src])
        while q:
            n = q.popleft()
            for i, (a, t) in enumerate(self.out.get(n, ())):
                if mode == "edges":
                    if (n, i) in todo:
                        todo.discard((n, i))
                        pending[n].discard(i)
                        return self._path(prev, n) + [(a, t)]
                else:
                    if t in todo:
                        return self._path(prev, n) + [(a, t)]
                if t not in prev:
                    prev[t] = (n, a)
                    q.append(t)
        return None

    @staticmethod
    def _path(prev, n):
        steps = []
        while prev[n] is not None:
            p, a = prev[n]
            steps.append((a, n))
            n = p
        steps.reverse()
        return steps
