#!/usr/bin/env python3
"""Script generation for the Table / Tree harness (h_map): headers for key/value
universes, translation of TableImpl / RBTree model paths, random histories."""
import json, os
import vlib


def hexs(b):
    return b.hex() if b else "-"


def header(ktype, vtype, keys, vals, hashmul=1):
    """keys / vals: lists of concrete values (int for Int/Probe, bytes for String), index+1 = token.
    The caller orders keys by the reference order of the type when order matters (Tree)."""
    h = ["types %s %s" % (ktype, vtype), "hashmul %d" % hashmul]
    for i, k in enumerate(keys):
        h.append("K %d %s" % (i + 1, hexs(k) if isinstance(k, bytes) else str(k)))
    for i, v in enumerate(vals):
        h.append("W %d %s" % (i + 1, hexs(v) if isinstance(v, bytes) else str(v)))
    return h


def string_hashes(harness, wd, cands):
    """hash() of candidate byte strings as computed by the library under test (list of ints)."""
    sp = os.path.join(wd, "hashscan.script")
    tp = os.path.join(wd, "hashscan.ndjson")
    out = []
    B = 4000
    for off in range(0, len(cands), B):
        part = cands[off:off + B]
        lines = ["types String Int"] + ["K %d %s" % (i + 1, hexs(s)) for i, s in enumerate(part)] + ["hashes"]
        vlib.write_lines(sp, lines)
        rc, o, to = vlib.run([harness, sp, tp], timeout=120)
        if rc != 0:
            raise vlib.ToolError("hashscan failed rc=%s %s" % (rc, o[-500:]))
        for ln in open(tp):
            e = json.loads(ln)
            if e.get("op") == "hash":
                l = e["h"]
                out.append(((l[0] & 0xFFFF) << 48) | (l[1] << 32) | (l[2] << 16) | l[3])
    os.unlink(sp)
    os.unlink(tp)
    return out


def colliding_strings(harness, wd, residues, modulus, rng, pool=60000):
    """For each wanted residue r pick a string s with hash(s) % modulus == r % modulus (hash computed by
    the real library at run time). Falls back to arbitrary strings if the hash function does not cooperate:
    the scripts are then merely less adversarial, never wrong."""
    cands = [b"k%d" % i for i in range(pool)]
    hs = string_hashes(harness, wd, cands)
    by = {}
    for s, h in zip(cands, hs):
        by.setdefault(h % modulus, []).append(s)
    out, used = [], set()
    for r in residues:
        lst = [s for s in by.get(r % modulus, []) if s not in used]
        s = rng.choice(lst) if lst else next(c for c in cands if c not in used)
        used.add(s)
        out.append(s)
    return out


class ModelScripts:
    """Translate paths of TableImpl / RBTree action labels into h_map executions.
    Model keys are naturals; keytok maps a model key to its token."""

    def __init__(self, kind, keytok, valtok):
        self.kind, self.keytok, self.valtok = kind, keytok, valtok

    def execution(self, path):
        lines = ["reset", "new 1 %s" % self.kind]
        cur, nxt = 1, 2
        for a in path:
            op = a["op"]
            if op == "set":
                lines.append("set %d %d %d" % (cur, self.keytok[a["k"]], self.valtok[a["v"]]))
            elif op == "rem":
                lines.append("rem %d %d" % (cur, self.keytok[a["k"]]))
            elif op == "resize":
                lines.append("resize %d %d" % (cur, a["n"]))
            elif op == "copy":
                lines.append("copy %d %d" % (nxt, cur))
                old = cur
                cur = nxt
                nxt = 1 + (nxt % 3)
                if nxt == cur:
                    nxt = 1 + (nxt % 3)
                # the original stays alive one more round: the next ops must not change it
                lines.append("mem %d 1" % old)
            elif op == "clear":
                lines.append("resize %d 0" % cur)
            elif op == "new":
                pass
            else:
                raise ValueError("unknown model action %r" % a)
        return lines


def random_history(rng, kind, nkeys, nvals, nops, p_fail=0.05, with_bad=False, two=True, init_pairs=0, alias=True, refuse=False, xasg=True, getalias=False):
    """A random in-contract history (plus absent-key get/rem, which the properties define) over up to 3 containers."""
    lines = ["reset"]
    kinds = {}
    first = "new 1 %s" % kind
    if init_pairs:
        ks = rng.sample(range(1, nkeys + 1), min(init_pairs, nkeys))
        first += "".join(" %d %d" % (k, rng.randint(1, nvals)) for k in ks)
    lines.append(first)
    kinds[1] = kind
    present = {1: set()}
    if init_pairs:
        present[1] = set(ks)
    hot = rng.sample(range(1, nkeys + 1), max(1, min(nkeys, rng.choice([3, 6, nkeys]))))
    for _ in range(nops):
        o = rng.choice(sorted(kinds))
        r = rng.random()
        k = rng.choice(hot) if rng.random() < 0.7 else rng.randint(1, nkeys)
        if rng.random() < 0.015:
            lines.append("assign %d %d" % (o, o))             # assigned from itself: as before
            continue
        if getalias and present[o] and rng.random() < 0.05:
            lines.append("getalias %d %d" % (o, rng.choice(sorted(present[o]))))       # a value living inside the container used as a key
            continue
        if xasg and present[o] and rng.random() < 0.025:
            lines.append("xasg %d" % o)           # assigned from a map of other element types (other sizes), and back
            continue
        if r < 0.06 and alias and present[o]:
            ko = rng.choice(sorted(present[o]))
            lines.append("setalias %d %d %d %d" % (o, k, ko, rng.randint(1, nvals)))      # arguments taken from the container itself
            present[o].add(k)
        elif r < 0.45:
            lines.append("set %d %d %d" % (o, k, rng.randint(1, nvals)))
            present[o].add(k)
        elif r < 0.70:
            if present[o] and rng.random() > p_fail:
                k = rng.choice(sorted(present[o]))
            lines.append("rem %d %d" % (o, k))
            present[o].discard(k)
        elif r < 0.78:
            lines.append("get %d %d" % (o, k))
        elif r < 0.82:
            lines.append("mem %d %d" % (o, k))
        elif r < 0.87:
            if kinds[o] == "Table" and rng.random() < 0.7:
                n = len(present[o]) + rng.choice([0, 1, 2, 5, 20, 60, 150])
                if n == 0:
                    present[o] = set()
                lines.append("resize %d %d" % (o, n))
            elif rng.random() < 0.5:
                lines.append("resize %d 0" % o)
                present[o] = set()
            else:
                lines.append("resize %d %d" % (o, rng.choice([1, 3, 1000])))     # refused for Trees (FormatError)
        elif r < 0.92 and two:
            n = rng.choice([i for i in (1, 2, 3)])
            if n in kinds and n != o:
                lines.append("assign %d %d" % (n, o))
                present[n] = set(present[o])
            elif n not in kinds:
                if rng.random() < 0.5:
                    lines.append("copy %d %d" % (n, o))
                    kinds[n] = kinds[o]
                    present[n] = set(present[o])
                else:
                    kd = rng.choice(["Table", "Tree"])
                    lines.append("new %d %s" % (n, kd))
                    kinds[n] = kd
                    present[n] = set()
        elif r < 0.95 and len(kinds) > 1:
            lines.append("del %d" % o)
            del kinds[o]
            del present[o]
        elif with_bad and refuse and rng.random() < 0.35:
            lines.append("bad %d setrefuse %d" % (o, k))          # value type Probe: a value its Assign refuses, for a present or an absent key
        elif with_bad:
            lines.append("bad %d %s" % (o, rng.choice(["settype", "setval", "setnullk", "setnullv", "getnull",
                                                          "remnull", "memnull", "gettype", "remtype", "memtype", "resizehuge", "resizemax", "newnulltypes", "newinttypes"])))
        else:
            lines.append("set %d %d %d" % (o, k, rng.randint(1, nvals)))
            present[o].add(k)
    return lines
