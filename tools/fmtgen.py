#!/usr/bin/env python3
"""format strings / values for C14 and C15 (h_fmt)."""
import struct, itertools
from valgen import ints as vints, floats as vfloats, fbits

def h(b):
    if isinstance(b, str): b = b.encode("latin-1")
    return b.hex() if b else "-"

LITS = ["a", "ab ", "x=", " ", ",", "[]", "end", "\t|"]
STRS = [b"", b"hey", b"a b", b"\x80\xff", b"quo\"te", b"back\\slash", b"tab\there",
        b"\a\b\f\n\r\t\v\\'\"?", b"v\vt", b"\x01\x1f\x7f", b"50%% off", b"100%", b"%d", b"%s%n", b"%", b"%5.2f%%", b"{}", b"$"]          # argument text is data: '%' in it means nothing

def int_spec(rng):
    c = rng.choice("diuoxXc")
    flags = {"d": "-+ 0", "i": "-+ 0", "u": "-0", "o": "-#0", "x": "-#0", "X": "-#0", "c": "-"}[c]
    fl = "".join(f for f in flags if rng.random() < 0.25)
    if "-" in fl and "0" in fl: fl = fl.replace("0", "")
    if "+" in fl and " " in fl: fl = fl.replace(" ", "")
    w = rng.choice(["", "", "1", "5", "12"])
    p = "" if c == "c" else rng.choice(["", "", ".0", ".3", ".8"])
    if p and "0" in fl: fl = fl.replace("0", "")
    lm = "" if c == "c" else rng.choice(["", "", "l", "ll", "h", "hh", "j", "z", "t"])
    return "%" + fl + w + p + lm + c, c

def float_spec(rng):
    c = rng.choice("fFeEgGaA")
    fl = "".join(f for f in "-+ #0" if rng.random() < 0.25)
    if "-" in fl and "0" in fl: fl = fl.replace("0", "")
    if "+" in fl and " " in fl: fl = fl.replace(" ", "")
    return "%" + fl + rng.choice(["", "", "4", "12", "20"]) + rng.choice(["", "", ".0", ".1", ".3", ".8"]) + rng.choice(["", "", "l", "L"]) + c

def seg(rng, cls, ivals, fvals):
    if cls == "lit": return "L" + h(rng.choice(LITS))
    if cls == "pct": return "P"
    if cls == "int":
        sp, c = int_spec(rng)
        v = rng.randint(33, 126) if c == "c" else rng.choice(ivals)
        if c != "c" and rng.random() < 0.12: return "C%s,B,%d" % (h(sp), rng.randint(-500, 500))      # a user type with C_Int AND C_Float instances
        return "C%s,I,%d" % (h(sp), v)
    if cls == "flt":
        if rng.random() < 0.12: return "C%s,B,%d" % (h(float_spec(rng)), rng.randint(-500, 500))
        return "C%s,F,%016x" % (h(float_spec(rng)), rng.choice(fvals))
    if cls == "str":
        sp = "%" + rng.choice(["", "-"]) + rng.choice(["", "3", "10"]) + rng.choice(["", ".2", ".0"]) + "s"
        return "C%s,S,%s" % (h(sp), h(rng.choice(STRS)))
    if cls == "ptr": return "C%s,P,1" % h("%p")
    if cls == "show":
        k = rng.choice("IFSNYIFSZC")
        if k == "C": return "WC,%d" % rng.randint(0, 99999)            # a user type with a Show instance and a ShowHex instance (listed first)
        if k == "Z": return "WZ,0"                                   # NULL: shown as <NULL>
        if k == "Y": return "WY,%s" % rng.choice(["Int", "Float", "String", "Array", "Table", "Tuple", "Type", "File", "Function"])     # a Type object
        if k == "N": return "WN,%d" % rng.randint(-9, 99)          # a type without a Show instance (generic fallback text)
        return "W%s,%s" % (k, str(rng.choice(ivals)) if k == "I" else ("%016x" % rng.choice(fvals)) if k == "F" else h(rng.choice(STRS)))
    if cls == "showc":
        k = rng.choice("ALTUDXRVvMmOo")
        if k in "Mm":         # a Tree / Table whose values are wider than its keys
            ks = rng.sample(range(-5, 40), rng.choice([0, 1, 3, 5]))
            return "W%s,%s" % (k, ",".join("%d,%d" % (kk, 1000 + kk) for kk in ks))
        if k in "Vv":         # a Slice over a keyed container: yields (and shows) the keys
            ks = rng.sample(range(0, 12), rng.choice([0, 1, 3, 4]))
            return "W%s,%s" % (k, ",".join("%d,%d" % (kk, 100 + kk) for kk in ks))
        n = rng.choice([0, 1, 3]) * (2 if k == "T" else 1)
        if k in "Oo": n = rng.choice([0, 1, 2, 3, 5])          # elements of a 12-byte type with its own Show instance (slots are rounded)
        if k == "R":          # a Range: its values are 64-bit Ints (starts beyond 32 bits as well), ascending or descending
            st = rng.choice([0, -3, 2**31 - 2, -2**31 - 3, 2**32, 2**40 + 5, -2**45])
            step = rng.choice([1, 1, 2, 7, -1, -3])
            cnt = rng.choice([0, 1, 4])
            return "WR,%d,%d,%d" % (st, st + step * cnt, step)
        if k == "T":          # keys include ones whose home is the last slot of a 5-, 11-, 23- or 53-slot table, and colliding ones
            n = rng.choice([0, 1, 3, 4, 6])
            ks = rng.sample([4, 9, 10, 21, 22, 52, 0, 5, 11, 44, 45, 105, -1] + [rng.randint(-9, 99) for _ in range(4)], n)
            return "WT,%s" % ",".join("%d,%d" % (kk, rng.randint(-9, 99)) for kk in dict.fromkeys(ks))
        return "W%s,%s" % (k, ",".join(str(rng.randint(-9, 99)) for _ in range(n)))
    raise ValueError(cls)

CLASSES = ["lit", "pct", "int", "flt", "str", "show", "showc", "ptr"]

def print_line(rng, classes, ivals, fvals, drop=False):
    segs = [seg(rng, c, ivals, fvals) for c in classes]
    nconv = sum(1 for s in segs if s[0] in "CW")
    d = ""
    if drop and nconv:
        d = " drop%d" % rng.randrange(nconv)
    sink = rng.choice("SF")
    if sink == "F" and rng.random() < 0.15:
        d += " stale"                       # a write-only File with a failed, caught read behind it (stdio's sticky error flag)
    return "print %s %d%s %s" % (sink, rng.choice([0, 0, 5, 10, 13]), d, " ".join(segs))

def print_execs(rng, quick):
    ivals, fvals = vints(rng, 20), vfloats(rng, 20)
    lines = []
    for k in (1, 2, 3):                     # every order of segment classes up to length 3 (the scanner model's classes)
        for combo in itertools.product(CLASSES, repeat=k):
            if k == 3 and quick and rng.random() > 0.35: continue
            lines.append(print_line(rng, combo, ivals, fvals))
    for _ in range(2500 if quick else 20000):
        lines.append(print_line(rng, [rng.choice(CLASSES) for _ in range(rng.randint(1, 7))], ivals, fvals, drop=rng.random() < 0.15))
    return [["reset"] + lines[i:i + 60] for i in range(0, len(lines), 60)]

def matrix_execs(rng, quick):
    """every single conversion of the grammar at bounded widths: conversion x flag set x width x precision x length modifier,
    each with boundary values (quick: two values per specification, thorough: all)"""
    lines = []
    ivals = [0, 1, -1, 255, 2**31, -2**63, 2**63 - 1]
    fvals = [fbits(x) for x in (0.0, -0.0, 1.0, -1.5, 0.1, 123456.789, 1e-7, 9.999999e20, 1.7976931348623157e308, 5e-324)]
    def sign_sets(c):
        just = ["", "-", "0"]
        sg = ["", "+", " "] if c in "di" else [""]
        alt = ["", "#"] if c in "oxX" else [""]
        return [j + g + a for j in just for g in sg for a in alt]
    for c in "diuoxX":
        for fl in sign_sets(c):
            for w in ("", "1", "7"):
                for p in ("", ".0", ".4"):
                    if p and "0" in fl: continue                      # the 0 flag is ignored with a precision: same output as without
                    for lm in ("", "l", "ll", "h", "hh", "j", "z", "t"):
                        vs = ivals if not quick else [0, rng.choice(ivals[1:])]
                        for v in vs:
                            lines.append("print %s %d C%s,I,%d" % (rng.choice("SF"), rng.choice([0, 4]), h("%" + fl + w + p + lm + c), v))
    for c in "fFeEgGaA":
        for j in ("", "-", "0"):
            for g in ("", "+", " "):
                for a in ("", "#"):
                    for w in ("", "3", "14"):
                        for p in ("", ".0", ".2", ".9"):
                            vs = fvals if not quick else [rng.choice(fvals)]
                            for v in vs:
                                lines.append("print %s %d C%s,F,%016x" % (rng.choice("SF"), rng.choice([0, 4]), h("%" + j + g + a + w + p + rng.choice(["", "l"]) + c), v))
    for j in ("", "-"):
        for w in ("", "3", "10"):
            for p in ("", ".0", ".2"):
                for v in STRS:
                    lines.append("print %s %d C%s,S,%s" % (rng.choice("SF"), rng.choice([0, 4]), h("%" + j + w + p + "s"), h(v)))
    for j in ("", "-"):
        for w in ("", "1", "4"):
            for v in (33, 65, 126, 255, 1):
                lines.append("print %s %d C%s,I,%d" % (rng.choice("SF"), rng.choice([0, 4]), h("%" + j + w + "c"), v))
    # piece lengths: every output length of one conversion / one literal run across the sizes where an implementation may
    # switch buffers (small stack buffers, powers of two)
    lens = list(range(0, 140)) + [254, 255, 256, 257, 511, 512, 513, 1023, 1024, 1025]
    if not quick:
        lens = list(range(0, 600)) + [1023, 1024, 1025, 2047, 2048, 2049, 4095, 4096, 4097]
    for n in lens:
        sink = rng.choice("SF")
        lines.append("print %s %d C%s,S,%s" % (sink, rng.choice([0, 4]), h("%%%ds" % n if n else "%s"), h(b"ab")))
        lines.append("print %s 0 C%s,S,%s" % (rng.choice("SF"), h("%s"), h(bytes(rng.choice(b"abcxyz") for _ in range(n)))))
        lines.append("print %s 0 C%s,I,%d" % (rng.choice("SF"), h("%%%dli" % n if n else "%li"), rng.choice([-7, 123456789012])))
        if 0 < n < 400:
            lines.append("print %s 0 L%s C%s,I,5 L%s" % (rng.choice("SF"), h("x" * n), h("%d"), h("y" * n)))
            lines.append("print %s 0 C%s,F,%016x" % (rng.choice("SF"), h("%%.%df" % min(n, 300)), fbits(1.0 / 3)))
    return [["reset"] + lines[i:i + 80] for i in range(0, len(lines), 80)]

def round_execs(rng, quick):
    lines = []
    ivals = vints(rng, 24) + [rng.randint(-2**63, 2**63 - 1) for _ in range(600 if quick else 6000)]
    fv = []
    for e in range(-300, 300, 1):             # every decade: the shown text takes every length up to 300+ characters
        fv += [fbits(rng.uniform(1, 10) * 10.0 ** e), fbits(-rng.uniform(1, 10) * 10.0 ** e)]
    fv += [fbits(x) for x in (0.0, 1.0, -1.0, 0.5, 123456.789012, 1e15 + 0.3, 2.5e-7, 1.7976931348623157e308, 5e-324,
                              -1.7976931348623157e308, -1e308, 1e308, -9.99e307, -5e-324)]          # (the longest shown texts: 317 characters)
    strs = [b"%", b"%%", b"%d %s", b"100%\n", b"", b"a", b'"', b"\\", b"a\nb", b"\a\b\f\n\r\t\v", b"'?", b"\x80\xfe\xff", b"mixed \"q\" \\ \t end", b"\\n"]
    strs += [bytes(rng.randint(1, 255) for _ in range(rng.randint(0, 12))) for _ in range(200 if quick else 2000)]
    for n in (list(range(13, 140)) + [255, 256, 257, 511, 512, 513, 1023, 1024, 1025] + ([] if quick else list(range(140, 600)) + [4095, 4096, 4097])):
        strs.append(bytes(rng.choice(b"abc \\\"\n") for _ in range(n)))          # every length: readers with fixed buffers
    for n in (511, 512, 513, 1023, 1024, 1025, 2047, 2048, 2049, 3000, 4097):
        strs.append(bytes(rng.choice(b"abcdefghijklmnopqrstuvwxyz ") for _ in range(n)))        # long runs WITHOUT any escaped character
        strs.append(bytes(rng.choice(b"abcdefghijklmnopqrstuvwxyz ") for _ in range(n)) + b"\n" + bytes(rng.choice(b"xyz") for _ in range(n)))
    # every string of length <= 2 (thorough: <= 3) over the characters the escape layer treats specially and their neighbours
    # (the Codec model is exhaustive over the same classes): combinations matter, e.g. "??", "\\n", "\\" + digit
    alpha = b"\a\b\f\n\r\t\v\\?'\"abfnrtvx0 7\x80%"
    strs += [bytes([a]) for a in alpha] + [bytes([a, b]) for a in alpha for b in alpha]
    if not quick:
        strs += [bytes([a, b, c]) for a in alpha for b in alpha for c in alpha]
    else:
        strs += [bytes(rng.choice(alpha) for _ in range(rng.randint(3, 6))) for _ in range(300)]
    el = lambda: " elem" if rng.random() < 0.3 else ""        # read back into an element that lives inside an Array
    for v in ivals: lines.append("rt %s %d I %d%s" % (rng.choice("SF"), rng.choice([0, 3, 17]), v, el()))
    for b in fv: lines.append("rt %s %d F %016x%s" % (rng.choice("SF"), rng.choice([0, 3, 17]), b, el()))
    for s in strs: lines.append("rt %s %d S %s%s" % (rng.choice("SF"), rng.choice([0, 3, 17]), h(s), el()))
    def rng_in(lo, hi, n): return [rng.choice([lo, hi, 0, -1 if lo < 0 else 1, rng.randint(lo, hi)]) for _ in range(n)]
    for _ in range(120 if quick else 1500):
        spec, lo, hi = rng.choice([("li", -2**63, 2**63 - 1), ("lld", -2**63, 2**63 - 1), ("d", -2**31, 2**31 - 1), ("i", -2**31, 2**31 - 1),
                                   ("hd", -2**15, 2**15 - 1), ("hhd", -128, 127), ("u", 0, 2**32 - 1), ("lu", 0, 2**63 - 1), ("$", -2**63, 2**63 - 1),
                                   ("jd", -2**63, 2**63 - 1), ("zd", -2**63, 2**63 - 1), ("td", -2**63, 2**63 - 1), ("zu", 0, 2**63 - 1), ("ji", -2**63, 2**63 - 1)])
        n = rng.randint(1, 6)
        if rng.random() < 0.35:         # other separators than a blank: a literal per cent sign, letters that numbers could swallow (x: hex prefix)
            seps = [b"%%", b"%% ", b", ", b"|"] + ([b"x", b"x "] if not spec.endswith("i") else [])      # (%i itself reads a 0x prefix: no x after it)
            spec += "|" + h(rng.choice(seps))
        lines.append("ps %s %d %s I %d %s" % (rng.choice("SF"), rng.choice([0, 2]), spec, n, " ".join(str(v) for v in rng_in(lo, hi, n))))
    # always: a shown 0 directly followed by a separator that starts like a base prefix (x480, X1F)
    for spec in ("$", "lld", "d", "ld", "u"):                              # (not the %i family: it reads a base prefix itself)
        for sep in (b"x", b"X", b"x1", b"b"):
            lines.append("ps %s %d %s|%s I 3 0 %d 0" % (rng.choice("SF"), rng.choice([0, 2]), spec, h(sep), rng.choice([480, 7, 15])))
    # always: single conversions whose text is longer than any fixed buffer a reader might use (field widths of 511 .. 1100 characters)
    for spec in ("0600ld", "600ld", "511ld", "512ld", "513li", "01100lld"):
        # (separator "|": a blank in a scan format would also swallow the padding of the NEXT value)
        lines.append("ps %s %d %s|7c I 3 %d %d %d" % (rng.choice("SF"), rng.choice([0, 2]), spec, rng.choice([123456789, -5, 2**62]), rng.randint(-2**40, 2**40), 7))
    lines.append("ps S 0 0600ld|7c I 2 123456789 42")
    for spec in ("700lf", "0700lf", "520le", "1030lg"):
        lines.append("ps %s %d %s|7c F 2 %016x %016x" % (rng.choice("SF"), rng.choice([0, 2]), spec, fbits(0.1), fbits(-2.5e10)))
    lines.append("ps S 0 0700lf|7c F 2 %016x %016x" % (fbits(0.1), fbits(3.0)))
    for _ in range(60 if quick else 600):
        n = rng.randint(1, 5)
        lines.append("ps %s %d %s F %d %s" % (rng.choice("SF"), rng.choice([0, 2]), rng.choice(["lf", "le", "lg", "$", "f", "e", "g", "Lf", "Le", "Lg"]) + (("|" + h(rng.choice([b"%% ", b", ", b"|"]))) if rng.random() < 0.3 else ""), n, " ".join("%016x" % rng.choice(fv) for _ in range(n))))
    # the stdout / stdin entry points (print, println, scan, scanln, look): lines of values written and read back in sequence
    def sval():
        k = rng.choice("IIFSS")
        return "%s %s" % (k, str(rng.choice(ivals)) if k == "I" else ("%016x" % rng.choice(fv)) if k == "F" else h(rng.choice(strs[:220])))
    for _ in range(60 if quick else 600):
        n = rng.randint(1, 7)
        lines.append("sio %s %s" % ("".join(rng.choice("lkspl") for _ in range(n)), " ".join(sval() for _ in range(n))))
    rng.shuffle(lines)
    return [["reset"] + lines[i:i + 60] for i in range(0, len(lines), 60)]
