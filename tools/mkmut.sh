#!/bin/sh
# tools/mkmut.sh <out.diff> <file relative to repo> <python expr transforming s>   (helper to write mutation patches)
OUT=$1; F=$2; EXPR=$3
D=$(mktemp -d /tmp/cello_mk_XXXXXX); mkdir -p "$D/a/$(dirname $F)" "$D/b/$(dirname $F)"
cp "/repo/$F" "$D/a/$F"; cp "/repo/$F" "$D/b/$F"
python3 - "$D/b/$F" "$EXPR" <<'PY'
import sys
p=sys.argv[1]; s=open(p).read(); s0=s
s=eval(sys.argv[2])
assert s!=s0, "mutation did not change the file"
open(p,'w').write(s)
PY
( cd "$D" && diff -u "a/$F" "b/$F" > "$OUT" ); rm -rf "$D"; wc -l "$OUT"
