#!/usr/bin/env python3
"""view expressions for C11 (h_view prefix syntax)."""

def base(rng, kind=None, n=None, vals=None):
    kind = kind or rng.choice("ALU")
    n = rng.choice([0, 1, 2, 3, 5, 6]) if n is None else n
    vals = vals if vals is not None else [rng.randint(-9, 9) for _ in range(n)]
    if kind in "BR":
        vals = list(dict.fromkeys(vals))
    if rng.random() < 0.4:
        kind = kind.lower()             # the same contents, reached through insertions and removals at both ends and in the middle
    return "%s %d%s" % (kind, len(vals), "".join(" %d" % v for v in vals))

def arg(rng, lo=-8, hi=8, pu=0.2):
    return "u" if rng.random() < pu else str(rng.randint(lo, hi))

def rangeexpr(rng):
    k = rng.choice([0, 1, 2, 3, 3, 3])
    if k == 0: return "G 0"
    if k == 1: return "G 1 %d" % rng.randint(-3, 9)
    if k == 2: return "G 2 %s %d" % (arg(rng, pu=0.15), rng.randint(-8, 8))
    return "G 3 %s %d %s" % (arg(rng, pu=0.15), rng.randint(-8, 8), arg(rng, pu=0.15))

def expr(rng, depth, ints=True, need_len=False):
    """ints=True: the items must be Ints (filter / map operate on them); need_len: the result must implement len
    (a Slice measures its underlying iterable; Filter has no len, and Map / Zip only forward it)"""
    if depth == 0 or rng.random() < 0.25:
        r = rng.random()
        if r < 0.55: return base(rng)
        if r < 0.70: return base(rng, rng.choice("BR"))
        return rangeexpr(rng)
    r = rng.random()
    if r < 0.40:
        k = rng.choice([0, 1, 2, 3, 3])
        return "S %d %s%s" % (k, expr(rng, depth - 1, ints, True), "".join(" " + arg(rng) for _ in range(k)))
    if r < 0.55 and not need_len:
        return "F %d %s" % (rng.randrange(6), expr(rng, depth - 1, True, False))
    if r < 0.70:
        return "M %d %s" % (rng.randrange(3), expr(rng, depth - 1, True, need_len))
    if ints:
        return expr(rng, depth - 1, True, need_len)
    if r < 0.88:
        k = rng.choice([0, 1, 2, 3])
        return "Z %d%s" % (k, "".join(" " + expr(rng, depth - 1, True, True) for _ in range(k)))   # Zip aligns its backward walk by len
    return "E %s" % expr(rng, depth - 1, True, True)

def top(rng, depth):
    return expr(rng, depth, ints=rng.random() < 0.6)

def slice_grid(lengths, args, kinds="ALU"):
    out = []
    for k in kinds:
        for n in lengths:
            b = "%s %d%s" % (k, n, "".join(" %d" % (10 + i) for i in range(n)))
            for a1 in args:
                for a2 in args:
                    for a3 in args:
                        out.append("S 3 %s %s %s %s" % (b, a1, a2, a3))
    return out

def range_grid(vals):
    return ["G 3 %d %d %d" % (a, b, c) for a in vals for b in vals for c in vals]
