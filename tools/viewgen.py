#!/usr/bin/env python3
"""view expressions for C11 (h_view prefix syntax)."""

def base(rng, kind=None, n=None, vals=None):
    kind = kind or rng.choice("ALUALUOP")        # O / P: Arrays of 12- and 3-byte elements (slots wider than the type)
    n = rng.choice([0, 1, 2, 3, 5, 6]) if n is None else n
    vals = vals if vals is not None else [rng.randint(-9, 9) for _ in range(n)]
    if kind in "BR":
        vals = list(dict.fromkeys(vals))
    if rng.random() < 0.4 and kind not in "OP":
        kind = kind.lower()             # the same contents, reached through insertions and removals at both ends and in the middle
    return "%s %d%s" % (kind, len(vals), "".join(" %d" % v for v in vals))

def arg(rng, lo=-8, hi=8, pu=0.2):
    return "u" if rng.random() < pu else str(rng.randint(lo, hi))

def rangeexpr(rng, posstep=False):
    k = rng.choice([0, 1, 2, 3, 3, 3])
    if posstep:                 # unit-scaled views: an explicit step >= 0 (the default step 1 and a descending start do not scale)
        return "G 3 %s %d %d" % (arg(rng, pu=0.15), rng.randint(-8, 8), rng.choice([0, 1, 1, 2, 3, 5, 8]))
    if k == 0: return "G 0"
    if k == 1: return "G 1 %d" % rng.randint(-3, 9)
    if k == 2: return "G 2 %s %d" % (arg(rng, pu=0.15), rng.randint(-8, 8))
    return "G 3 %s %d %s" % (arg(rng, pu=0.15), rng.randint(-8, 8), arg(rng, 0 if posstep else -8, 8, pu=0.15))

def expr(rng, depth, ints=True, need_len=False):
    """ints=True: the items must be Ints (filter / map operate on them); need_len: the result must implement len
    (a Slice measures its underlying iterable; Filter has no len, and Map / Zip only forward it)"""
    if depth == 0 or rng.random() < 0.25:
        r = rng.random()
        if r < 0.55: return base(rng)
        if r < 0.70: return base(rng, rng.choice("BR"))
        return rangeexpr(rng)
    r = rng.random()
    if r < 0.40:
        k = rng.choice([0, 1, 2, 3, 3])
        return "S %d %s%s" % (k, expr(rng, depth - 1, ints, True), "".join(" " + arg(rng) for _ in range(k)))
    if r < 0.55 and not need_len:
        return "F %d %s" % (rng.randrange(6), expr(rng, depth - 1, True, False))
    if r < 0.70:
        return "M %d %s" % (rng.randrange(3), expr(rng, depth - 1, True, need_len))
    if ints:
        return expr(rng, depth - 1, True, need_len)
    if r < 0.88:
        k = rng.choice([0, 1, 2, 3])
        return "Z %d%s" % (k, "".join(" " + expr(rng, depth - 1, True, True) for _ in range(k)))   # Zip aligns its backward walk by len
    return "E %s" % expr(rng, depth - 1, True, True)

def top(rng, depth):
    return expr(rng, depth, ints=rng.random() < 0.6)

def slice_grid(lengths, args, kinds="ALU"):
    out = []
    for k in kinds:
        for n in lengths:
            b = "%s %d%s" % (k, n, "".join(" %d" % (10 + i) for i in range(n)))
            for a1 in args:
                for a2 in args:
                    for a3 in args:
                        out.append("S 3 %s %s %s %s" % (b, a1, a2, a3))
    return out

def range_grid(vals):
    return ["G 3 %d %d %d" % (a, b, c) for a in vals for b in vals for c in vals]


# ---- magnitudes: values beyond 32 bits (unit-scaled views) and positions beyond any container (saturating in the log)
UNITS = [2**31 + 11, 2**32, 2**32 + 3, 2**33 + 1, 2**40 + 7]
BIGPOS = [2**31, 2**31 + 5, 2**32, 2**32 + 3, -2**31 - 1, -2**32, -2**32 - 3, 2**40, 2**62]

def unit_expr(rng, depth, ints=False):
    """only constructs whose items scale linearly with the values: bases, ranges with explicit steps >= 0 (a descending range
    starts at stop - 1 and the default step is 1: neither scales), slices (any step: positions), zips, the maps 2x and -x"""
    if depth == 0 or rng.random() < 0.3:
        return base(rng, rng.choice("ALU")) if rng.random() < 0.4 else rangeexpr(rng, True)
    r = rng.random()
    if r < 0.5:
        k = rng.choice([0, 1, 2, 3, 3])
        return "S %d %s%s" % (k, unit_expr(rng, depth - 1, ints), "".join(" " + arg(rng) for _ in range(k)))
    if r < 0.7:
        return "M %d %s" % (rng.choice([1, 2]), unit_expr(rng, depth - 1, True))
    if r < 0.85 and not ints:
        k = rng.choice([1, 2, 3])
        return "Z %d%s" % (k, "".join(" " + unit_expr(rng, depth - 1, True) for _ in range(k)))
    return rangeexpr(rng, True)

def unit_views(rng, n):
    out = ["@%d %s" % (u, g) for u in UNITS for g in range_grid([-2, 0, 1, 3, 7]) if int(g.split()[-1]) >= 0]
    out += ["@%d %s" % (rng.choice(UNITS), unit_expr(rng, rng.choice([1, 2, 3]))) for _ in range(n)]
    return out

def bigpos_views(rng, n):
    """slice arguments whose magnitude exceeds 32 bits, over bases and ranges"""
    out = []
    for _ in range(n):
        sub = base(rng, rng.choice("ALU")) if rng.random() < 0.6 else rangeexpr(rng)
        k = rng.choice([1, 2, 3, 3, 3])
        a = [arg(rng) for _ in range(k)]
        a[rng.randrange(k)] = str(rng.choice(BIGPOS))
        if k == 3 and rng.random() < 0.5: a[2] = str(rng.choice(BIGPOS))
        out.append("S %d %s %s" % (k, sub, " ".join(a)))
    return out
