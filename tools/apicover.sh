#!/bin/bash
# tools/apicover.sh [ids...] : runs the quick checks on a coverage build of the library and lists the library lines / functions
# that NO check executes (blind spots: a change there cannot be noticed).  Writes mutants/UNCOVERED.md.  Measurement only.
cd "$(dirname "$0")/.."
OUT=$(mktemp -d /tmp/cello_cov_XXXXXX)
IDS=${@:-C01 C02 C03 C04 C05 C06 C07 C08 C09 C10 C11 C12 C13 C14 C15 C16 C17 C18 C19 C20}
for c in $IDS; do VERIF_COVERAGE=$OUT VERIF_NOEVIDENCE=1 timeout 3600 bin/check $c quick 2>&1 | tail -1; done
python3 - "$OUT" <<'PY'
import glob, os, re, sys, collections
out = sys.argv[1]
cov = collections.defaultdict(dict)       # file -> line -> max count
text = {}
for f in glob.glob(os.path.join(out, "*", "*", "*.c.gcov")):
    name = os.path.basename(f)[:-5]
    for ln in open(f, errors="replace"):
        m = re.match(r"\s*([^:]+):\s*(\d+):(.*)", ln)
        if not m: continue
        c, no, src = m.group(1).strip(), int(m.group(2)), m.group(3)
        if no == 0: continue
        text.setdefault(name, {})[no] = src
        if c == "-": continue
        n = 0 if c.startswith("#") or c.startswith("=") else int(re.sub(r"\D", "", c) or 0)
        cov[name][no] = max(cov[name].get(no, 0), n)
rep = ["# Library lines no quick check executes (gcov, all checks merged)", ""]
tot = unc = 0
for name in sorted(cov):
    lines = cov[name]; tot += len(lines)
    miss = sorted(n for n, c in lines.items() if c == 0)
    # skip documentation tables (Doc instances: *_Name, *_Brief, *_Description, *_Definition, *_Examples, *_Methods)
    src = text[name]
    func_of = {}
    cur = None
    for no in sorted(src):
        m = re.match(r"\s*(?:static\s+)?[\w\s\*]+?\b(\w+)\s*\([^;]*\)\s*\{\s*$", src[no])
        if m and not src[no].startswith(" ") and not src[no].startswith("\t"): cur = m.group(1)
        func_of[no] = cur
    byf = collections.OrderedDict()
    for n in miss:
        fn = func_of.get(n) or "?"
        if re.search(r"_(Name|Brief|Description|Definition|Examples|Methods)$", fn): continue
        byf.setdefault(fn, []).append(n)
    k = sum(len(v) for v in byf.values()); unc += k
    if byf:
        rep.append("## %s (%d of %d executable lines not executed, documentation functions left out)" % (name, k, len(lines)))
        for fn, ns in byf.items():
            rep.append("- `%s`: lines %s" % (fn, ", ".join(map(str, ns[:30])) + (" ..." if len(ns) > 30 else "")))
        rep.append("")
rep.insert(1, "%d of %d executable lines are not executed by any quick check." % (unc, tot))
open("/verif/mutants/UNCOVERED.md", "w").write("\n".join(rep) + "\n")
print("\n".join(rep[:3]))
PY
rm -rf "$OUT"
