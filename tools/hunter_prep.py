#!/usr/bin/env python3
"""tools/hunter_prep.py <PID> <tag> : worktree /tmp/wt_<PID><tag> and task file /tmp/agent_<PID><tag>.txt for a defect-hunting sub-agent
(it gets the property text and the list of defects already known for that property, nothing else from /verif)."""
import json, os, subprocess, sys
pid, tag = sys.argv[1], sys.argv[2]
wt, demo = "/tmp/wt_%s%s" % (pid, tag), "/tmp/%s%s_demo" % (pid, tag)
prop = next(json.loads(l) for l in open("/verif/properties.jsonl") if json.loads(l)["id"] == pid)
text = "%s\n\n%s\n\n(Quantified %s.)" % (prop["title"], prop["statement"], prop["quantifier"]["text"])
known = [json.loads(l) for l in open("/verif/known_findings.jsonl")]
mine = [("repaired already: " if k["status"] == "fixed" else "known, not repaired: ") + k["what"] for k in known if k["property"] == pid]
avoid = ("Defects of this property that are ALREADY KNOWN - do not report these again, look for different ones:\n- " + "\n- ".join(mine)) if mine else ""
subprocess.check_call(["git", "-C", "/repo", "worktree", "add", "--detach", "-f", wt, "HEAD"], stdout=subprocess.DEVNULL, stderr=subprocess.DEVNULL)
os.makedirs(demo, exist_ok=True)
t = open("/verif/tools/hunter_prompt.txt").read().replace("{WT}", wt).replace("{DEMO}", demo).replace("{PROP}", text).replace("{AVOID}", avoid)
open("/tmp/agent_%s%s.txt" % (pid, tag), "w").write(t)
print("/tmp/agent_%s%s.txt" % (pid, tag))
