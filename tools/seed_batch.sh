#!/bin/bash
# tools/seed_batch.sh <tag> <PID>... : evaluate the seeds of one round (worktrees /tmp/wt_<PID><tag>, demos /tmp/<PID><tag>_demo), 3 at a time
TAG=$1; shift
run() { id=$1; tools/seed_eval.sh $id /tmp/wt_${id}$TAG /tmp/${id}${TAG}_demo > /tmp/eval_${id}$TAG.txt 2>&1; }
n=0
for id in "$@"; do run $id & n=$((n+1)); [ $((n % 3)) -eq 0 ] && wait; done; wait
for id in "$@"; do
  f=/tmp/eval_${id}$TAG.txt
  suite=$(grep -E "Tests " $f | sed -E 's/.*Passed +([0-9]+).*Failed +([0-9]+).*/\1\/\2/')
  with=$(grep -A3 "demo with change" $f | grep -m1 "^exit=" ); without=$(grep -A3 "demo without change" $f | grep -m1 "^exit=")
  verdict=$(grep -E "^$id quick:|^ERROR" $f | tail -1 | cut -c1-60)
  echo "$id$TAG suite(pass/fail)=$suite with:$with without:$without => $verdict"
done
