#!/usr/bin/env python3
"""tools/seed_avoid.py <PID> : the 'already tried' sentence for a new seeding round, from the stored seeds of that property"""
import glob, re, sys
pid = sys.argv[1]
seen = []
for d in sorted(glob.glob("/verif/seeded/%s-*/patch.diff" % pid)):
    f = None
    for l in open(d, errors="replace"):
        if l.startswith("+++ b/"): f = l[6:].strip()
        m = re.match(r"@@ .* @@ .*?(\w+)\s*\(", l)
        if m and f:
            e = "%s (%s)" % (m.group(1), f)
            if e not in seen: seen.append(e)
        elif l.startswith("@@") and f:
            e = "(%s)" % f
            if e not in seen and not any(x.endswith(e) for x in seen): seen.append(e)
print("Other engineers have already tried changes in or near: %s. Do something DIFFERENT from all of these - a different function AND a "
      "different kind of trigger. Before choosing, read include/Cello.h and list every function, macro and type that falls under the "
      "statement, then pick what a tester of this property is LEAST likely to have exercised: rarely used API variants and macros, optional "
      "class instances, user-defined types (with or without Assign / Cmp / Hash / Copy / Swap / New instances of their own), boundaries of "
      "internal constants and fixed-size buffers, unusual but legal inputs (magnitudes, sizes, alignments), interactions between two features "
      "or two container kinds, state left behind by an earlier failed or unusual operation, or a shared helper / header macro used by many "
      "types. Make sure the change is NOT noticed by the existing suite and really needs its specific trigger." % "; ".join(seen))
