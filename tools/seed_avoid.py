#!/usr/bin/env python3
"""tools/seed_avoid.py <PID> : the 'already tried' sentence for a new seeding round, from the stored seeds of that property"""
import glob, re, sys
pid = sys.argv[1]
seen = []
def enclosing(f, line):
    """name of the function of /repo/<f> that contains the given line (searching upwards for a definition at column 0)"""
    try:
        src = open("/repo/" + f, errors="replace").read().splitlines()
    except OSError:
        return None
    for i in range(min(line, len(src)) - 1, -1, -1):
        m = re.match(r"^[A-Za-z_].*?\b(\w+)\s*\([^;]*$", src[i])
        if m and not src[i].startswith(("if", "for", "while", "switch", "return", "else", "#")):
            return m.group(1)
    return None
for d in sorted(glob.glob("/verif/seeded/%s-*/patch.diff" % pid)):
    f = None
    lines = open(d, errors="replace").read().splitlines()
    for i, l in enumerate(lines):
        if l.startswith("+++ b/"): f = l[6:].strip()
        m = re.match(r"@@ -(\d+)(?:,(\d+))? ", l)
        if m and f:
            # first changed line of the hunk, in old-file numbering
            off = 0
            for k in lines[i + 1:]:
                if k.startswith(("+", "-")): break
                off += 1
            fn = enclosing(f, int(m.group(1)) + off)
            e = "%s (%s)" % (fn, f) if fn else "(%s)" % f
            if e not in seen: seen.append(e)
print("Other engineers have already tried changes in or near: %s. Do something DIFFERENT from all of these - a different function AND a "
      "different kind of trigger. Before choosing, read include/Cello.h and list every function, macro and type that falls under the "
      "statement, then pick what a tester of this property is LEAST likely to have exercised: rarely used API variants and macros, optional "
      "class instances, user-defined types (with or without Assign / Cmp / Hash / Copy / Swap / New instances of their own), boundaries of "
      "internal constants and fixed-size buffers, unusual but legal inputs (magnitudes, sizes, alignments), interactions between two features "
      "or two container kinds, state left behind by an earlier failed or unusual operation, or a shared helper / header macro used by many "
      "types. Make sure the change is NOT noticed by the existing suite and really needs its specific trigger." % "; ".join(seen))
