#!/usr/bin/env python3
"""Shared machinery of the Cello verification framework.

  * building the library from $CELLO_REPO's *working tree* into a private
    scratch directory (never inside /repo or /verif), plus harness programs
  * running TLC (exhaustive / simulation / trace validation) and parsing its output
  * running harness programs with time limits
  * verdict bookkeeping: VIOLATION / KNOWN-FINDING lines, replay artefacts,
    evidence files

Nothing here decides a property; the deciding logic lives in checks/<id>.py,
spec/*.tla and harness/*.c.
"""
import atexit, concurrent.futures, glob, hashlib, json, os, random, re, shutil
import signal, subprocess, sys, tempfile, time

VERIF = os.path.dirname(os.path.dirname(os.path.abspath(__file__)))
REPO = os.environ.get("CELLO_REPO", "/repo")
SPEC = os.path.join(VERIF, "spec")
HARN = os.path.join(VERIF, "harness")
TLAJARS = "/opt/veriftools/tla/tla2tools.jar:/opt/veriftools/tla/CommunityModules-deps.jar"
NCPU = os.cpu_count() or 4
COVERAGE = os.environ.get("VERIF_COVERAGE")            # directory that receives <check>/<file>.c.gcov (measurement runs only)

BASE_CFLAGS = ["-std=gnu99", "-fPIC", "-DCELLO_NSTRACE", "-g", "-w"]


class ToolError(Exception):
    """The machinery itself failed (compiler, TLC, parse error): exit 2, never a violation."""


# ---------------------------------------------------------------- scratch dirs

_workdirs = []


def workdir(tag="cv"):
    base = os.environ.get("VERIF_SCRATCH", tempfile.gettempdir())
    d = tempfile.mkdtemp(prefix="cello_%s_" % tag, dir=base)
    _workdirs.append(d)
    return d


def _collect_coverage():
    tag = os.path.basename(sys.argv[0]) + "_" + "_".join(sys.argv[1:3])
    for wd in _workdirs:
        for d in glob.glob(os.path.join(wd, "*")):
            if not glob.glob(os.path.join(d, "*.gcda")):
                continue
            out = os.path.join(COVERAGE, re.sub(r"[^A-Za-z0-9_]", "_", tag), os.path.basename(d))
            os.makedirs(out, exist_ok=True)
            subprocess.run("cd %s && gcov -o . src/*.c > /dev/null 2>&1; cp *.c.gcov %s/ 2>/dev/null" % (d, out), shell=True)


def _cleanup():
    if COVERAGE:
        try:
            _collect_coverage()
        except Exception as e:       # measurement only
            print("coverage collection failed: %s" % e)
    if os.environ.get("VERIF_KEEP"):
        return
    for d in _workdirs:
        shutil.rmtree(d, ignore_errors=True)


atexit.register(_cleanup)


def _sig(signum, frame):
    sys.exit(2)


signal.signal(signal.SIGTERM, _sig)


# ---------------------------------------------------------------- process helper

def run(cmd, timeout=600, env=None, cwd=None, stdin=None, stdout_path=None):
    """Run cmd; returns (rc, stdout+stderr text, timed_out). rc<0 = killed by signal."""
    e = dict(os.environ)
    if env:
        e.update(env)
    out_f = open(stdout_path, "wb") if stdout_path else subprocess.PIPE
    try:
        p = subprocess.Popen(cmd, stdout=out_f, stderr=subprocess.STDOUT if not stdout_path else subprocess.PIPE,
                             stdin=subprocess.PIPE if stdin is not None else subprocess.DEVNULL,
                             env=e, cwd=cwd, start_new_session=True)
        try:
            o, er = p.communicate(input=stdin, timeout=timeout)
            to = False
        except subprocess.TimeoutExpired:
            try:
                os.killpg(p.pid, signal.SIGKILL)
            except Exception:
                pass
            o, er = p.communicate()
            to = True
    finally:
        if stdout_path:
            out_f.close()
    txt = (o or b"").decode("utf-8", "replace")
    if stdout_path and er:
        txt += er.decode("utf-8", "replace")
    return p.returncode, txt, to


# ---------------------------------------------------------------- building

def build_lib(wd, name="lib", cc="gcc", extra=(), opt="-O0", exclude=()):
    """Compile $CELLO_REPO/src/*.c (working tree) into wd/<name>/ ; returns dict(inc, objs, dir, src)."""
    d = os.path.join(wd, name)
    os.makedirs(d, exist_ok=True)
    src = os.path.join(d, "src")
    inc = os.path.join(d, "include")
    if not os.path.isdir(src):
        shutil.copytree(os.path.join(REPO, "src"), src)
        shutil.copytree(os.path.join(REPO, "include"), inc)
    files = sorted(glob.glob(os.path.join(src, "*.c")))
    objs = {}
    if COVERAGE and "--coverage" not in extra:
        extra = tuple(extra) + ("--coverage",)          # tools/apicover.sh: which library lines do the checks execute at all?

    def one(f):
        o = os.path.join(d, os.path.basename(f)[:-2] + ".o")
        cmd = [cc, "-c", f, "-I", inc] + BASE_CFLAGS + [opt] + list(extra) + ["-o", o]
        rc, out, to = run(cmd, timeout=300)
        if rc != 0:
            raise ToolError("compile failed: %s\n%s" % (" ".join(cmd), out[-3000:]))
        return os.path.basename(f), o

    with concurrent.futures.ThreadPoolExecutor(max_workers=NCPU) as ex:
        for b, o in ex.map(one, files):
            objs[b] = o
    return {"dir": d, "inc": inc, "src": src, "objs": objs, "cc": cc, "extra": list(extra), "opt": opt}


def build_harness(lib, sources, out, whitebox=(), extra=(), ldflags=()):
    """Link harness sources against the library objects. whitebox: list of src basenames
    (e.g. 'Table.c') that the harness #includes itself; their objects are left out."""
    cc = lib["cc"]
    objs = [o for b, o in sorted(lib["objs"].items()) if b not in whitebox]
    cmd = [cc] + [os.path.join(HARN, s) if not os.path.isabs(s) else s for s in sources] + \
        ["-I", lib["inc"], "-I", lib["src"], "-I", HARN] + BASE_CFLAGS + [lib["opt"]] + lib["extra"] + \
        list(extra) + objs + ["-lpthread", "-lm"] + list(ldflags) + ["-o", out]
    rc, o, to = run(cmd, timeout=300)
    if rc != 0:
        raise ToolError("harness build failed: %s\n%s" % (" ".join(cmd[:6]) + " ...", o[-4000:]))
    return out


def build_harness_wb(lib, sources, out, whitebox, notes=None, **kw):
    """Harness with a white-box seam (#include "src/X.c"); if the seam no longer compiles against the
    working tree (refactored internals) fall back to the black-box build: fewer observations, no alarm."""
    try:
        if COVERAGE:
            raise ToolError("coverage run: every library file is compiled as its own object")
        return build_harness(lib, sources, out, whitebox=whitebox, **kw)
    except ToolError as e:
        if notes is not None:
            notes.append("white-box seam %s unavailable, black-box only: %s" % (list(whitebox), str(e)[-300:]))
        extra = list(kw.pop("extra", ())) + ["-DNO_WHITEBOX"]
        return build_harness(lib, sources, out, whitebox=(), extra=extra, **kw)


# ---------------------------------------------------------------- TLC

class TlcResult:
    def __init__(self, rc, out, timed_out):
        self.rc, self.out, self.timed_out = rc, out, timed_out
        m = re.findall(r"(\d+) states generated, (\d+) distinct states found", out)
        self.generated = int(m[-1][0]) if m else 0
        self.distinct = int(m[-1][1]) if m else 0
        self.ok = ("Model checking completed. No error has been found." in out) or \
                  ("Finished computing initial states" in out and rc == 0)
        self.invariant = None
        m = re.search(r"Invariant (\S+) is violated", out)
        if m:
            self.invariant = m.group(1)
        m = re.search(r"Action property (\S+) is violated", out)
        if m:
            self.invariant = m.group(1)
        m = re.search(r"The invariant of (\S+) is equal to FALSE", out)
        if m:
            self.invariant = m.group(1)           # violated already in an initial state
        if "Temporal properties were violated" in out:
            self.invariant = self.invariant or "temporal"
        if "Deadlock reached" in out:
            self.invariant = self.invariant or "deadlock"
        self.parse_error = ("Parsing or semantic analysis failed" in out) or ("ConfigFileException" in out) \
            or ("Error: Parsing" in out)
        m = re.search(r"The depth of the complete state graph search is (\d+)", out)
        self.depth = int(m.group(1)) if m else 0

    def lines(self, tag):
        """Yield JSON payloads of PrintT(<<tag, ToJson(x)>>) lines."""
        pat = re.compile(r'^<<"%s", "(.*)">>$' % re.escape(tag))
        for ln in self.out.splitlines():
            m = pat.match(ln)
            if m:
                s = m.group(1).encode().decode("unicode_escape")
                yield json.loads(s)

    def coverage(self):
        """Per-action (taken, generated) from -coverage output: {actionname: distinct}"""
        cov = {}
        for m in re.finditer(r"^<(\w+) line \d+, col \d+ to line \d+, col \d+ of module (\w+)(?: \([\d ]+\))?>: (\d+):(\d+)", self.out, re.M):
            cov[m.group(1)] = cov.get(m.group(1), 0) + int(m.group(4))
        return cov


def tlc(module, cfg, wd, workers=None, xmx="4g", extra=(), env=None, timeout=1800, tag=None, deadlock=False):
    """Run TLC on spec/<module>.tla with spec/<cfg>. Returns TlcResult."""
    tag = tag or (module + "_" + os.path.basename(cfg).replace(".cfg", ""))
    meta = os.path.join(wd, "meta_" + tag + "_%d" % random.randrange(1 << 30))
    cmd = ["java", "-Djava.io.tmpdir=" + wd, "-XX:+UseParallelGC", "-Xss128m", "-Xmx" + xmx, "-cp", TLAJARS, "tlc2.TLC",
           "-workers", str(workers or min(NCPU, 8)), "-metadir", meta, "-noGenerateSpecTE",
           "-config", os.path.join(SPEC, cfg)]
    if not deadlock:
        cmd.append("-deadlock")
    cmd += list(extra) + [os.path.join(SPEC, module + ".tla")]
    rc, out, to = run(cmd, timeout=timeout, env=env, cwd=SPEC)
    shutil.rmtree(meta, ignore_errors=True)
    r = TlcResult(rc, out, to)
    if r.parse_error or to or (rc not in (0, 10, 11, 12, 13) and not r.ok and not r.invariant):
        # 12 = safety violation, 13 = liveness violation, 10 = assumption/postcondition, 11 = deadlock
        brief = "\n".join(l for l in out.splitlines() if not l.startswith(("Parsing file", "Semantic processing")))
        lines = brief.splitlines()
        first = next((i for i, l in enumerate(lines) if l.startswith("Error:")), None)
        head = "\n".join(lines[first:first + 25]) if first is not None else ""
        raise ToolError("TLC failed on %s/%s rc=%s timeout=%s\n%s\n...\n%s" % (module, cfg, rc, to, head[:3000], brief[-1500:]))
    return r


def validate_trace(module, cfg, trace_path, wd, xmx="4g", timeout=1800, env=None):
    """Trace validation: TLC (-workers 1, BFS) must consume every line of trace_path.
    Returns (accepted, matched_lines, total_lines, TlcResult)."""
    total = sum(1 for _ in open(trace_path))
    e = {"TRACE": trace_path}
    if env:
        e.update(env)
    r = tlc(module, cfg, wd, workers=1, xmx=xmx, env=e, timeout=timeout, tag="tv_" + module)
    m = re.search(r'"TRACE_MATCHED", (\d+), (\d+)', r.out)
    if not m:
        raise ToolError("trace validation gave no verdict for %s\n%s" % (trace_path, r.out[-3000:]))
    matched, tot = int(m.group(1)), int(m.group(2))
    if tot != total:
        raise ToolError("trace length mismatch %d vs %d" % (tot, total))
    return matched == total, matched, total, r


def validate_executions(module, cfg, trace_path, wd, reset_pred=None, max_rejects=8, **kw):
    """Validate a concatenation of executions (separated by lines with "op":"reset").
    After a rejection the offending execution is cut out and validation continues with
    the rest, so one defect does not hide another. Returns
    (n_exec_accepted, [ (exec_index, line_in_exec, lines_of_exec) ... rejected ], events_total)."""
    lines = open(trace_path).read().splitlines()
    execs, cur = [], []
    for ln in lines:
        if '"op":"reset"' in ln and cur:
            execs.append(cur)
            cur = []
        cur.append(ln)
    if cur:
        execs.append(cur)
    rejected = []
    remaining = list(range(len(execs)))
    accepted = 0
    rounds = 0
    while remaining:
        rounds += 1
        p = trace_path + ".part%d" % rounds
        with open(p, "w") as f:
            for i in remaining:
                f.write("\n".join(execs[i]) + "\n")
        ok, matched, total, r = validate_trace(module, cfg, p, wd, **kw)
        os.unlink(p)
        if ok:
            accepted += len(remaining)
            break
        # locate execution containing line matched+1 (1-based line index of first unconsumed event)
        pos = 0
        hit = None
        for idx, i in enumerate(remaining):
            n = len(execs[i])
            if matched < pos + n:
                hit = idx
                break
            pos += n
        if hit is None:
            raise ToolError("cannot locate rejected execution")
        i = remaining[hit]
        rejected.append((i, matched - pos, execs[i]))
        accepted += hit
        remaining = remaining[hit + 1:]
        if len(rejected) >= max_rejects:
            break
    return accepted, rejected, len(lines)


# ---------------------------------------------------------------- verdicts and evidence

class Check:
    """Per-invocation bookkeeping for one property check."""

    def __init__(self, pid, tier, level):
        self.pid, self.tier, self.level = pid, tier, level
        self.seed = int(os.environ.get("VERIF_SEED", "1"))
        self.t0 = time.time()
        self.violations = []
        self.known_hits = []
        self.cov = {"samples": []}
        self.assumptions = []
        self.wd = workdir(pid)
        self.rng = random.Random(self.seed * 1000003 + sum(map(ord, pid)))
        self.findings = [f for f in load_findings() if f.get("property") == pid]
        self.distinct = set()
        self.notes = []

    def lap(self, what):
        if os.environ.get("VERIF_VERBOSE"):
            print("  [%6.1fs] %s" % (time.time() - self.t0, what), flush=True)

    # --- counters
    def add(self, key, n=1):
        self.cov[key] = self.cov.get(key, 0) + n

    def sample(self, s, cap=6):
        if len(self.cov["samples"]) < cap:
            self.cov["samples"].append(s)

    def seen(self, obj):
        """count distinct non-trivial cases by digest"""
        h = hashlib.sha1(json.dumps(obj, sort_keys=True).encode() if not isinstance(obj, (bytes, str)) else
                         (obj if isinstance(obj, bytes) else obj.encode())).digest()[:10]
        self.distinct.add(h)

    def model(self, r, name=None):
        """record an exhaustive TLC run"""
        self.add("states", r.distinct)
        self.add("transitions", r.generated)
        self.cov.setdefault("models", []).append({"model": name, "distinct": r.distinct, "generated": r.generated,
                                                  "depth": r.depth})

    # --- verdicts
    def known(self, fid, what):
        print("KNOWN-FINDING: property=%s %s [%s]" % (self.pid, what, fid), flush=True)
        self.known_hits.append(fid)

    def violation(self, what, replay_text, ext="script"):
        d = os.path.join(VERIF, "replays", self.pid)
        os.makedirs(d, exist_ok=True)
        n = len(self.violations) + 1
        path = os.path.join(d, "%s-%d-%d.%s" % (self.tier, self.seed, n, ext))
        with open(path, "w") as f:
            f.write(replay_text if replay_text.endswith("\n") else replay_text + "\n")
        self.violations.append((what, path))
        print("DETAIL property=%s %s" % (self.pid, what), flush=True)
        print("VIOLATION property=%s replay=%s" % (self.pid, path), flush=True)

    def finish(self):
        cov = self.cov
        cov["distinct_nontrivial"] = max(cov.get("distinct_nontrivial", 0), len(self.distinct))
        cov.setdefault("evaluations", cov.get("evaluations", 0))
        if not cov["samples"]:
            cov["samples"] = ["(none recorded)"]
        ev = {"property_id": self.pid, "tier": self.tier, "seed": self.seed, "level": self.level,
              "coverage": cov, "assumptions": self.assumptions, "wall_s": round(time.time() - self.t0, 2),
              "violations": len(self.violations), "known_findings_hit": self.known_hits, "notes": self.notes}
        # evidence describes runs against /repo itself: runs against a scratch tree (seeded changes) or seed sweeps leave it alone
        scratch_tree = os.path.realpath(os.environ.get("CELLO_REPO", "/repo")) != os.path.realpath("/repo")
        if not scratch_tree and not os.environ.get("VERIF_NOEVIDENCE"):
            os.makedirs(os.path.join(VERIF, "evidence"), exist_ok=True)
            with open(os.path.join(VERIF, "evidence", self.pid + ".json"), "w") as f:
                json.dump(ev, f, indent=1, sort_keys=True)
                f.write("\n")
        print("%s %s: %s (%.1fs) states=%s traces=%s evals=%s distinct=%s" % (
            self.pid, self.tier, "VIOLATED" if self.violations else "held", time.time() - self.t0,
            cov.get("states"), cov.get("traces_validated_against_impl"), cov.get("evaluations"),
            cov.get("distinct_nontrivial")), flush=True)
        return 1 if self.violations else 0


def require_ops(edges, ops, what):
    """vacuity guard: every listed action label must occur on some explored transition"""
    seen = {e["a"].get("op") for e in edges}
    for op in ops:
        if op not in seen:
            raise ToolError("vacuous model run (%s): action %s never taken" % (what, op))


def load_findings():
    p = os.path.join(VERIF, "known_findings.jsonl")
    out = []
    if os.path.exists(p):
        for ln in open(p):
            ln = ln.strip()
            if ln and not ln.startswith("#"):
                out.append(json.loads(ln))
    return out


def open_findings(pid):
    return [f for f in load_findings() if f.get("property") == pid and f.get("status") == "open"]


# ---------------------------------------------------------------- misc helpers

def limbs(v):
    """64-bit two's complement integer -> four 16-bit limbs, most significant first (top limb signed)."""
    u = v & 0xFFFFFFFFFFFFFFFF
    l = [(u >> 48) & 0xFFFF, (u >> 32) & 0xFFFF, (u >> 16) & 0xFFFF, u & 0xFFFF]
    if l[0] >= 0x8000:
        l[0] -= 0x10000
    return l


def write_lines(path, lines):
    with open(path, "w") as f:
        for ln in lines:
            f.write(ln + "\n")
    return path
