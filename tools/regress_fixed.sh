#!/bin/bash
# tools/regress_fixed.sh [out.md] : every repaired defect of known_findings.jsonl is re-introduced (reverse of its fix: commit, in a
# scratch copy of /repo) and the check of its property must report a VIOLATION again ("a fixed entry suppresses nothing").
OUT=${1:-/verif/seeded/REVERTED_FIXES.md}
cd "$(dirname "$0")/.."
echo "| finding | property | fix commit | quick check with the fix reverted |" > $OUT.tmp
echo "|---|---|---|---|" >> $OUT.tmp
python3 - <<'PY' > /tmp/regress_list.txt
import json
for l in open('/verif/known_findings.jsonl'):
    f = json.loads(l)
    if f['status'] == 'fixed': print(f['id'], f.get('check', f['property']), f['commit'])     # ('check': the property whose check exercises the failing call, where that is another one)
PY
while read fid pid commit; do
  if [ -n "$ONLY" ] && ! echo " $ONLY " | grep -q " $fid "; then grep -F "| $fid |" $OUT >> $OUT.tmp; continue; fi
  D=$(mktemp -d /tmp/cello_rev_XXXXXX)
  git -C /repo diff $commit~1 $commit -R > $D/p.diff
  if ! ( cd /repo && patch -p1 --dry-run -s < $D/p.diff > /dev/null 2>&1 ); then
    v="n/a: the reverse patch no longer applies (a later fix: rewrote the same lines)"
  else
    out=$(MUT_LINES=40 tools/mutant.sh $D/p.diff $pid quick 2>&1)
    res=$(echo "$out" | grep -cE "^VIOLATION property=$pid")
    if [ "$res" -gt 0 ]; then v="VIOLATION reported"
    elif echo "$out" | grep -qE "build failed"; then v="n/a: the tree no longer builds without it (later fixes use what this one introduced)"
    else v="**not reported**"; fi
  fi
  rm -rf $D
  echo "| $fid | $pid | $commit | $v |" | tee -a $OUT.tmp
done < /tmp/regress_list.txt
rm -f /tmp/regress_list.txt
mv $OUT.tmp $OUT
