#!/usr/bin/env python3
"""tools/seed_table.py : writes seeded/INDEX.md (one row per stored seeded change, from the meta.json files)."""
import json, os
root = "/verif/seeded"
rows, missed = [], []
for d in sorted(os.listdir(root)):
    p = os.path.join(root, d, "meta.json")
    if not os.path.exists(p):
        continue
    m = json.load(open(p))
    rows.append("| %s | %s | %s | %s |" % (d, m["breaks_property"], m["needs_to_manifest"].replace("|", "/"), ", ".join(m["detected_by"])))
    if m.get("history"):
        missed.append("* **%s** - %s" % (d, m["history"]))
out = ["# Seeded changes kept from independent sub-agents", "",
       "Each directory holds patch.diff, the sub-agent's demonstration (demo.c, notes.txt) and meta.json.  Every change compiles, passes the",
       "repository's 133 tests, and was confirmed in both directions with tools/seed_eval.sh before it was stored.",
       "%d changes; %d of them were missed or only partly reported at first and led to a strengthening (listed below); all are" % (len(rows), len(missed)),
       "reported by the quick tier of the named checks now.", "",
       "| seeded change | property | what it needs to manifest | reported by (quick) |", "|---|---|---|---|"] + rows + ["", "## Strengthened after a miss", ""] + missed
open(os.path.join(root, "INDEX.md"), "w").write("\n".join(out) + "\n")
print(len(rows), "seeds,", len(missed), "with history")
