#!/usr/bin/env python3
"""tools/mutscan.py <n_per_file> <seed> [files...] : mechanical mutation scan.
Small operator-level changes are made to executed lines of the library (one per mutant, in a scratch copy); mutants that still
compile AND pass the repository's own suite are run against the quick checks of the properties their file belongs to.
Writes mutants/SCAN.md (kill table + every survivor with its diff).  Measurement only - nothing here is a registered check."""
import concurrent.futures, os, random, re, shutil, subprocess, sys, tempfile, glob, collections
VERIF = os.path.dirname(os.path.dirname(os.path.abspath(__file__)))
REPO = "/repo"
MAP = {"Table.c": ["C02", "C05", "C12", "C10"], "Tree.c": ["C03", "C05", "C11"], "Array.c": ["C04", "C05", "C12", "C11"],
       "List.c": ["C04", "C05", "C12", "C11"], "Tuple.c": ["C04", "C12", "C11", "C19"], "GC.c": ["C01", "C06", "C17"],
       "Alloc.c": ["C19", "C06", "C05"], "Exception.c": ["C07", "C13"], "Type.c": ["C08", "C19"], "Num.c": ["C09", "C10", "C15"],
       "Cmp.c": ["C09", "C04"], "Hash.c": ["C10", "C02"], "Assign.c": ["C10", "C04"], "Iter.c": ["C11", "C12"], "Thread.c": ["C13"],
       "Show.c": ["C14", "C15"], "String.c": ["C16", "C15", "C14", "C19"], "File.c": ["C20"], "Pointer.c": ["C06", "C19", "C01"],
       "Push.c": ["C04"], "Get.c": ["C04", "C02"], "Len.c": ["C04"], "Concat.c": ["C04"], "Resize.c": ["C04"]}
OPS = [(r"(?<![<>=!])<=(?!=)", "<"), (r"(?<![<>=!-])<(?![<=])", "<="), (r"(?<![<>=!-])>=(?!=)", ">"), (r"(?<![<>=!-])>(?![>=])", ">="),
       (r"\bis\b", "isnt"), (r"\bisnt\b", "is"), (r"\band\b", "or"), (r"\bor\b", "and"), (r"\+ 1\b", "+ 0"), (r"\+1\b", "+0"),
       (r"- 1\b", "- 0"), (r"-1\b", "-0"), (r"\btrue\b", "false"), (r"\bfalse\b", "true"), (r"\+\+", "--"), (r"--", "++"),
       (r"\bnitems\b", "nitems+1"), (r"\bnslots\b", "nslots-1"), (r"==", "!="), (r"!=", "==")]


def uncovered():
    un = collections.defaultdict(set)
    p = os.path.join(VERIF, "mutants", "UNCOVERED.md")
    cur = None
    if os.path.exists(p):
        for ln in open(p):
            m = re.match(r"## (\S+\.c)", ln)
            if m: cur = m.group(1)
            m = re.match(r"- `[^`]+`: lines (.*)", ln)
            if m and cur:
                for x in re.findall(r"\d+", m.group(1)): un[cur].add(int(x))
    return un


def candidates(fname, rng, n):
    src = open(os.path.join(REPO, "src", fname)).read().splitlines()
    un = uncovered().get(fname, set())
    infunc, out = False, []
    doc = re.compile(r'^\s*"|\\n"|throw\(|^\s*#|^\s*/\*|^\s*\*|_Name\(|_Brief\(|_Description|_Definition|_Examples|_Methods')
    depth = 0
    for i, ln in enumerate(src):
        if re.match(r"^(static\s+)?[\w\s\*]+\b(\w+)\s*\([^;]*\)\s*\{\s*$", ln) and not ln.startswith((" ", "\t")):
            infunc = not re.search(r"_(Name|Brief|Description|Definition|Examples|Methods)\s*\(", ln)
        if ln.startswith("}"):
            infunc = False
        if not infunc or doc.search(ln) or (i + 1) in un or "CELLO_" in ln:
            continue
        for pat, rep in OPS:
            for m in re.finditer(pat, ln):
                if '"' in ln[:m.start()] and ln[:m.start()].count('"') % 2 == 1:
                    continue
                out.append((i, m.start(), m.end(), rep, "replace"))
        if re.match(r"^\s+[\w\*\(\)\->\.\[\]]+.*;\s*$", ln) and not re.match(r"^\s*(return|break|continue|var |int |size_t |struct |uint|bool |char|double|else|if|for|while)", ln):
            out.append((i, 0, len(ln), "", "delete"))
    rng.shuffle(out)
    seen, pick = set(), []
    for c in out:
        if c[0] in seen: continue
        seen.add(c[0]); pick.append(c)
        if len(pick) >= n: break
    return src, pick


def run(cmd, cwd=None, env=None, timeout=900):
    try:
        p = subprocess.run(cmd, cwd=cwd, env=env, stdout=subprocess.PIPE, stderr=subprocess.STDOUT, timeout=timeout, shell=isinstance(cmd, str))
        return p.returncode, p.stdout.decode(errors="replace")
    except subprocess.TimeoutExpired:
        return 124, "timeout"


def evaluate(job):
    fname, src, (li, a, b, rep, kind) = job
    d = tempfile.mkdtemp(prefix="cello_ms_")
    try:
        r = os.path.join(d, "repo"); os.makedirs(r)
        for x in ("src", "include", "tests", "Makefile"):
            s = os.path.join(REPO, x)
            shutil.copytree(s, os.path.join(r, x)) if os.path.isdir(s) else shutil.copy(s, r)
        lines = list(src)
        old = lines[li]
        lines[li] = (old[:a] + rep + old[b:]) if kind == "replace" else re.sub(r"\S.*$", ";", old, count=1)
        if lines[li] == old:
            return None
        open(os.path.join(r, "src", fname), "w").write("\n".join(lines) + "\n")
        desc = "%s:%d  `%s`  ->  `%s`" % (fname, li + 1, old.strip()[:110], lines[li].strip()[:110])
        rc, out = run("make -j4 check 2>&1 | tail -40", cwd=r, timeout=240)
        m = re.search(r"Tests .*?Passed\s+(\d+).*?Failed\s+(\d+)", re.sub(r"\x1b\[[0-9;]*m", "", out))
        if not m or m.group(2) != "0":
            return (desc, "suite", [], "")                      # does not compile / the suite notices / the suite hangs
        env = dict(os.environ, CELLO_REPO=r, VERIF_NOEVIDENCE="1")
        killed = []
        for c in MAP[fname]:
            rc, out = run([os.path.join(VERIF, "bin", "check"), c, "quick"], cwd=VERIF, env=env, timeout=1500)
            if rc == 1 and "VIOLATION property=%s" % c in out:
                killed.append(c)
                break
            if rc not in (0, 1):
                killed.append(c + "(tool error)")
        return (desc, "killed" if killed and not killed[0].endswith(")") else ("toolerror" if killed else "survived"), killed, "")
    finally:
        shutil.rmtree(d, ignore_errors=True)


def main():
    n, seed = int(sys.argv[1]), int(sys.argv[2])
    files = sys.argv[3:] or sorted(MAP)
    rng = random.Random(seed)
    jobs = []
    for f in files:
        src, pick = candidates(f, rng, n)
        jobs += [(f, src, c) for c in pick]
    rng.shuffle(jobs)
    res = []
    with concurrent.futures.ThreadPoolExecutor(max_workers=int(os.environ.get("MUTSCAN_WORKERS", "3"))) as ex:
        for r in ex.map(evaluate, jobs):
            if r:
                res.append(r)
                print("%-9s %s %s" % (r[1], r[0], ",".join(r[2])), flush=True)
    tot = collections.Counter(r[1] for r in res)
    out = ["# Mechanical mutation scan (tools/mutscan.py %d %d %s)" % (n, seed, " ".join(sys.argv[3:])), "",
           "%d mutants: %d noticed by the repository's own suite or not compiling (not counted), %d killed by the quick checks, "
           "%d survived, %d ended in a tool error." % (len(res), tot["suite"], tot["killed"], tot["survived"], tot["toolerror"]), "",
           "## Survivors (each needs a look: equivalent change, out-of-contract path, or a blind spot)", ""]
    out += ["- " + r[0] for r in res if r[1] == "survived"]
    out += ["", "## Tool errors", ""] + ["- %s  (%s)" % (r[0], ",".join(r[2])) for r in res if r[1] == "toolerror"]
    out += ["", "## Killed", ""] + ["- %s  (%s)" % (r[0], ",".join(r[2])) for r in res if r[1] == "killed"]
    open(os.path.join(VERIF, "mutants", "SCAN_%d.md" % seed), "w").write("\n".join(out) + "\n")
    print(out[2])

main()
