------------------------------ MODULE SeqTrace ------------------------------
(***************************************************************************)
(* Trace validation for Array, List and Tuple (C04; ownership C05; failing *)
(* operations C12).  One event per public call of the real library (h_seq) *)
(* with the projection of every live sequence: len, forward iteration,     *)
(* backward iteration, get(i) and get(-i) for every i, mem of every value. *)
(* Each event must be a step of the abstract Sequence specification.       *)
(*   Mode "seq"  : everything about the sequences is checked               *)
(*   Mode "own"  : contents adopted from the log, ownership ledger checked *)
(*   Mode "fail" : failing calls are judged (exception type, no change)    *)
(***************************************************************************)
EXTENDS Sequence, Json, IOUtils

CONSTANT Mode

T == ndJsonDeserialize(IOEnv.TRACE)

VARIABLES l, q, kind, sig        \* sig[o]: address signature of the elements as last logged
vars == <<l, q, kind, sig>>

EmptyF == [x \in {} |-> 0]
With(f, o, x) == [y \in (DOMAIN f) \cup {o} |-> IF y = o THEN x ELSE f[y]]
Without(f, o) == [y \in (DOMAIN f) \ {o} |-> f[y]]
ToSet(s) == {s[i] : i \in 1..Len(s)}

ProjOK(p, s, kd) ==
  /\ p.kind = kd
  /\ p.len = Len(s)
  /\ p.it = s                                   \* forward iteration = the sequence, ends after len items
  /\ p.gp = s                                   \* get(i), i = 0..len-1
  /\ p.gn = Reverse(s)                          \* get(-1) .. get(-len)
  /\ (Mode = "seq" => p.bw = Reverse(s))        \* backward iteration = exact reverse
  /\ \A v \in 1..Len(p.mems) : p.mems[v] = (IF Mem(s, v) THEN 1 ELSE 0)

AllProjOK(e, qn, kn) ==
  /\ {e.objs[i].o : i \in 1..Len(e.objs)} = DOMAIN qn
  /\ \A i \in 1..Len(e.objs) : ProjOK(e.objs[i], qn[e.objs[i].o], kn[e.objs[i].o])

(* C05: instances inside Arrays and Lists are pairwise distinct and are exactly the live ones *)
RECURSIVE Serials(_, _)
Serials(objs, i) == IF i > Len(objs) THEN <<>> ELSE objs[i].ss \o Serials(objs, i + 1)
OwnOK(e) ==
  e.own = 1 =>
    LET ser == Serials(e.objs, 1) IN
    /\ e.lerr = 0
    /\ Cardinality(ToSet(ser)) = Len(ser)
    /\ ToSet(ser) = ToSet(e.led)
    /\ \A i \in 1..Len(e.objs) : Len(e.objs[i].ss) = e.objs[i].len

Judge(e, qn, kn) ==
  CASE Mode = "seq"  -> AllProjOK(e, qn, kn)
    [] Mode = "own"  -> OwnOK(e)
    [] Mode = "fail" -> TRUE
    [] OTHER -> FALSE

Adopt(e, qn) ==
  IF Mode = "seq" THEN qn
  ELSE [o \in {e.objs[i].o : i \in 1..Len(e.objs)} |-> e.objs[CHOOSE i \in 1..Len(e.objs) : e.objs[i].o = o].gp]

IsEv(op) == l <= Len(T) /\ T[l].op = op /\ l' = l + 1
E == T[l]
S == q[E.o]
K == kind[E.o]

SigOf(e) == [o \in {e.objs[i].o : i \in 1..Len(e.objs)} |-> e.objs[CHOOSE i \in 1..Len(e.objs) : e.objs[i].o = o].ah]
SigSame(e) == \A i \in 1..Len(e.objs) : e.objs[i].o \in DOMAIN sig => sig[e.objs[i].o] = e.objs[i].ah     \* elements stay where they were
Step(qn, kn) == Judge(E, qn, kn) /\ q' = Adopt(E, qn) /\ kind' = kn /\ sig' = SigOf(E)
Upd(s2) == Step(With(q, E.o, s2), kind)

(* a failing call: one of the documented exceptions, every sequence exactly as before *)
Fails(excs) == /\ E.exc \in excs
               /\ AllProjOK(E, q, kind) \/ Mode = "own"
               /\ OwnOK(E) \/ Mode # "own"
               /\ UNCHANGED <<q, kind, sig>>

-----------------------------------------------------------------------------
Init == l = 1 /\ q = EmptyF /\ kind = EmptyF /\ sig = EmptyF

Reset == IsEv("reset") /\ q' = EmptyF /\ kind' = EmptyF /\ sig' = EmptyF
End == IsEv("end") /\ UNCHANGED <<q, kind, sig>> /\ (Mode = "own" => (E.led = <<>> /\ E.lerr = 0))

New == IsEv("new") /\ E.exc = "" /\ Step(With(q, E.o, E.init), With(kind, E.o, E.what))

Push   == (IsEv("push") \/ IsEv("append")) /\ E.exc = "" /\ Upd(Append(S, E.v))
PushSame == IsEv("pushsame") /\ E.exc = "" /\ S # <<>> /\ Upd(Append(S, S[1]))
PopOk  == IsEv("pop") /\ S # <<>> /\ E.exc = "" /\ Upd(SubSeq(S, 1, Len(S) - 1))
PopFail == IsEv("pop") /\ S = <<>> /\ Fails({"IndexOutOfBoundsError"})
PushAtOk == /\ IsEv("pushat") /\ PushAtPos(K, Len(S), E.i) # -1 /\ E.exc = ""
            /\ Upd(InsertAt(S, PushAtPos(K, Len(S), E.i), E.v))
PushAtFail == IsEv("pushat") /\ PushAtPos(K, Len(S), E.i) = -1 /\ Fails({"IndexOutOfBoundsError"})
PopAtOk == IsEv("popat") /\ Idx(Len(S), E.i) # -1 /\ E.exc = "" /\ Upd(RemoveAt(S, Idx(Len(S), E.i)))
PopAtFail == IsEv("popat") /\ Idx(Len(S), E.i) = -1 /\ Fails({"IndexOutOfBoundsError"})
SetOk == IsEv("set") /\ Idx(Len(S), E.i) # -1 /\ E.exc = "" /\ Upd(ReplaceAt(S, Idx(Len(S), E.i), E.v))
SetFail == IsEv("set") /\ Idx(Len(S), E.i) = -1 /\ Fails({"IndexOutOfBoundsError"})
GetOk == /\ IsEv("get") /\ Idx(Len(S), E.i) # -1 /\ E.exc = ""
         /\ (Mode = "seq" => E.r = S[Idx(Len(S), E.i) + 1]) /\ Upd(S)
GetFail == IsEv("get") /\ Idx(Len(S), E.i) = -1 /\ Fails({"IndexOutOfBoundsError"})
RemOk == IsEv("rem") /\ Mem(S, E.v) /\ E.exc = "" /\ Upd(RemFirst(S, E.v))          \* the FIRST equal element goes
RemFail == IsEv("rem") /\ ~Mem(S, E.v) /\ Fails({"ValueError"})
MemEv == IsEv("mem") /\ E.exc = "" /\ (Mode = "seq" => E.r = (IF Mem(S, E.v) THEN 1 ELSE 0)) /\ Upd(S)
Concat == IsEv("concat") /\ E.exc = "" /\ Upd(S \o q[E.src])
ConcatV == IsEv("concatv") /\ E.exc = "" /\ Upd(S \o E.vals)
(* the operand is another kind of iterable (Tree, Table, Slice, Filter) over the same element type: exactly what it yields *)
(* (E.vals = its own forward iteration) arrives, in that order                                                            *)
(* temporary containers of this element type overwritten from sequences of other element types and sizes, then deleted: *)
(* no exception, every live sequence as before, and (Mode own) the ledger balanced: each element finalised exactly once  *)
XAssign == /\ IsEv("xassign") /\ E.exc = ""
           /\ AllProjOK(E, q, kind) \/ Mode = "own"
           /\ OwnOK(E) \/ Mode # "own"
           /\ UNCHANGED <<q, kind, sig>>
AssignIt == IsEv("assignit") /\ E.exc = "" /\ Upd(E.vals)
ConcatIt == IsEv("concatit") /\ E.exc = "" /\ Upd(S \o E.vals)
ResizeOk == /\ IsEv("resize") /\ Resized(K, S, E.n, 0).ok /\ E.exc = ""
            /\ Upd(Resized(K, S, E.n, E.zero).s)
ResizeFail == IsEv("resize") /\ ~Resized(K, S, E.n, 0).ok /\ Fails({"FormatError"})
SortEv == IsEv("sort") /\ K # "List" /\ E.exc = "" /\ Upd(Sorted(S))
SortByGt == IsEv("sortbygt") /\ K # "List" /\ E.exc = "" /\ Upd(Reverse(Sorted(S)))     \* sort_by(c, gt): descending
SortByUnsupported == IsEv("sortbygt") /\ K = "List" /\ Fails({"ClassError"})
SortUnsupported == IsEv("sort") /\ K = "List" /\ Fails({"ClassError"})      \* List does not implement the Sort class
Assign == IsEv("assign") /\ E.exc = "" /\ Upd(q[E.src])
Copy == IsEv("copy") /\ E.exc = "" /\ Step(With(q, E.o, q[E.src]), With(kind, E.o, kind[E.src]))
Del == IsEv("del") /\ Step(Without(q, E.o), Without(kind, E.o))

(* C12: the documented exception for every class of invalid argument *)
IndexWhats == {"get_len", "get_neg", "get_far", "get_max", "get_min", "set_len", "set_neg", "set_max",
               "popat_len", "popat_neg", "popat_min", "pushat_far", "pushat_neg", "pushat_max"}
Expected(w) ==
  CASE w \in IndexWhats -> {"IndexOutOfBoundsError"}
    [] w = "pop_empty" -> {"IndexOutOfBoundsError"}
    [] w \in {"get_nullkey", "set_null", "push_null", "pushat_null", "rem_null", "concat_null"} -> {"ValueError"}
    [] w = "mem_null" -> {"ValueError", ""}          \* "NULL is not a member" is an acceptable answer (empty container)
    [] w \in {"get_alienkey", "set_alienkey", "popat_alienkey", "set_alien", "push_alien", "pushat_alien", "concat_alien",
               "concat_int", "assign_int", "new_alien"}
         -> {"ClassError", "TypeError", "ValueError"}
    [] w = "resize_grow" -> {"FormatError"}
    [] w = "assign_strtable" -> {"ValueError", "TypeError", "KeyError"}
    [] w \in {"resize_huge", "resize_wrap"} -> {"OutOfMemoryError"}          \* a reservation that cannot be had: refused, nothing changes
    [] w \in {"refuse_push", "refuse_pushat", "refuse_set"} -> {"ValueError"}     \* the element type's own Assign refuses the value
    [] w \in {"stack_push", "stack_pushat", "stack_pop", "stack_popat", "stack_popatn", "stack_rem", "stack_resize", "stack_concat", "stack_assign", "stack_assignit"}
         -> {"ValueError"}                                                     \* a Tuple that is a stack object cannot reallocate its items: refused, items untouched
    [] w \in {"alien_c_str", "alien_c_int", "alien_c_float", "alien_call", "alien_start", "alien_stop", "alien_lock", "alien_sclose", "alien_deref",
               "alien_current", "alien_currentelem", "alien_sort", "alien_push", "alien_pop", "alien_concat", "alien_join"}
         -> {"ClassError"}                                                     \* an operation of a class the type does not implement, whatever the dispatcher
    [] w \in {"sort_mixed", "sort_perm"} -> {"ClassError"}                 \* a comparison that raises aborts the sort: the exception, and the items as they were
    [] w \in {"zt_get", "zt_getneg", "zt_set", "zt_pop", "zt_popat", "zt_pushat"} -> {"IndexOutOfBoundsError"}     \* a zeroed, never constructed Tuple is an empty Tuple
    [] OTHER -> {}
Bad == IsEv("bad") /\ Fails(Expected(E.what))

Next == \/ Reset \/ End \/ New \/ Push \/ PushSame \/ PopOk \/ PopFail \/ PushAtOk \/ PushAtFail \/ PopAtOk \/ PopAtFail
        \/ SetOk \/ SetFail \/ GetOk \/ GetFail \/ RemOk \/ RemFail \/ MemEv \/ Concat \/ ConcatV \/ AssignIt \/ ConcatIt \/ XAssign \/ ResizeOk \/ ResizeFail
        \/ SortEv \/ SortUnsupported \/ SortByGt \/ SortByUnsupported \/ Assign \/ Copy \/ Del \/ Bad

Spec == Init /\ [][Next]_vars

Accepted == LET d == TLCGet("stats").diameter IN
            /\ PrintT(<<"TRACE_MATCHED", d - 1, Len(T)>>)
            /\ d - 1 = Len(T)
=============================================================================
