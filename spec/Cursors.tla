------------------------------- MODULE Cursors -------------------------------
(***************************************************************************)
(* Layer I for C11: the cursor machines of src/Iter.c (Range_Iter_Init /   *)
(* _Next / _Last / _Prev, Range_Len, Range_Get, Slice_Arg and the Slice    *)
(* iteration driven by the Range cursor) as step functions over integers,  *)
(* checked against the definitions of Views.tla on a complete parameter    *)
(* grid: every (start, stop, step) in Grid^3 (and `_`), every underlying   *)
(* length 0..MaxLen.  "Never reads outside the underlying iterable" is the *)
(* OutOfBounds value: a position handed to the underlying iterable that is *)
(* not one of its indices.                                                  *)
(*   AsFound = TRUE selects Range_Len / Range_Iter_Last as they were.       *)
(***************************************************************************)
EXTENDS Views

CONSTANTS GridMax, MaxLen, AsFound
Grid == (-GridMax)..GridMax
VARIABLE dummy

Trunc(a, b) == IF a >= 0 THEN a \div b ELSE -((-a) \div b)          \* C integer division (b > 0)

(* Range_Len *)
LenImpl(a, b, c) ==
  IF c = 0 THEN 0
  ELSE IF ~AsFound /\ b <= a THEN 0
  ELSE Trunc((b - 1) - a, Abs(c)) + 1

(* forward: Range_Iter_Init then Range_Iter_Next until Terminal; fuel bounds the walk *)
RECURSIVE FwdFrom(_, _, _, _, _)
FwdFrom(i, a, b, c, fuel) ==
  IF fuel = 0 \/ (c > 0 /\ i >= b) \/ (c < 0 /\ i < a) THEN <<>>
  ELSE <<i>> \o FwdFrom(i + c, a, b, c, fuel - 1)
FwdImpl(a, b, c) == IF c = 0 THEN <<>> ELSE FwdFrom(IF c > 0 THEN a ELSE b - 1, a, b, c, 64)

(* backward: Range_Iter_Last then Range_Iter_Prev *)
RECURSIVE BwdFrom(_, _, _, _, _)
BwdFrom(i, a, b, c, fuel) ==
  IF fuel = 0 \/ (c > 0 /\ i < a) \/ (c < 0 /\ i >= b) THEN <<>>
  ELSE <<i>> \o BwdFrom(i - c, a, b, c, fuel - 1)
BwdImpl(a, b, c) ==
  IF c = 0 THEN <<>>
  ELSE IF AsFound
       THEN LET i == IF c > 0 THEN b - 1 ELSE a IN
            IF (c > 0 /\ i < a) \/ (c < 0 /\ i >= b) THEN <<>> ELSE BwdFrom(i, a, b, c, 64)
       ELSE LET n == LenImpl(a, b, c) IN
            IF n = 0 THEN <<>> ELSE BwdFrom((IF c > 0 THEN a ELSE b - 1) + (n - 1) * c, a, b, c, 64)

(* Range_Get(i): value or "oob" *)
GetImpl(a, b, c, i0) ==
  LET n == LenImpl(a, b, c)
      i == IF i0 < 0 THEN n + i0 ELSE i0
  IN IF i < 0 \/ i >= n THEN "oob" ELSE IF c > 0 THEN a + c * i ELSE (b - 1) + c * i

RangeOK(a, b, c) ==
  LET want == RangeElems(a, b, c) IN
  /\ FwdImpl(a, b, c) = want
  /\ BwdImpl(a, b, c) = Reverse(want)
  /\ LenImpl(a, b, c) = Len(want)
  /\ \A i \in 0..(Len(want) - 1) : GetImpl(a, b, c, i) = want[i + 1]
  /\ \A i \in 1..Len(want) : GetImpl(a, b, c, -i) = want[Len(want) - i + 1]
  /\ GetImpl(a, b, c, Len(want)) = "oob" /\ GetImpl(a, b, c, -Len(want) - 1) = "oob"

(* Slice: positions come from the Range cursor over the clamped arguments; every position must be an index *)
SliceOK(n, a1, a2, a3) ==
  LET r == SliceOf(n, 3, a1, a2, a3)
      f == FwdImpl(r[1], r[2], r[3])
      bw == BwdImpl(r[1], r[2], r[3])
  IN /\ f = RangeElems(r[1], r[2], r[3]) /\ bw = Reverse(f)
     /\ \A k \in 1..Len(f) : f[k] \in 0..(n - 1)                     \* never outside the underlying iterable
     /\ \A k \in 1..Len(bw) : bw[k] \in 0..(n - 1)
     /\ LenImpl(r[1], r[2], r[3]) = Len(f)

GridU == Grid \cup {U}
GridOK == /\ \A a \in Grid, b \in Grid, c \in Grid : RangeOK(a, b, c)
          /\ \A n \in 0..MaxLen, a1 \in GridU, a2 \in GridU, a3 \in GridU : SliceOK(n, a1, a2, a3)

Init == dummy = 0
Next == UNCHANGED dummy
Spec == Init /\ [][Next]_dummy
=============================================================================
