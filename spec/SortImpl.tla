------------------------------ MODULE SortImpl ------------------------------
(***************************************************************************)
(* Layer I for sort / sort_by (C04): the quicksort of src/Array.c and       *)
(* src/Tuple.c transcribed (Array_Sort_Part, Array_Sort_Partition: middle   *)
(* element as pivot, moved to the right end; one pass collecting the        *)
(* elements for which f(x, pivot) holds; pivot swapped into place).         *)
(* TLC evaluates it on EVERY sequence up to MaxLen over Vals with each of   *)
(* the four comparison functions the library exports (lt, le, gt, ge) and   *)
(* checks: the result is a permutation of the input, it is ordered by the   *)
(* comparison, and no index left the segment being partitioned.             *)
(* Every case is printed (CASE lines) and replayed on the real library by   *)
(* the C04 check, on Arrays and on Tuples.                                  *)
(*   VisitPivot = TRUE: the partition scan also visits the pivot slot       *)
(*   (i <= r): harmless for lt / gt, wrong for le / ge (a seeded change).    *)
(***************************************************************************)
EXTENDS Sequence, Json

CONSTANTS Vals, MaxLen, VisitPivot, Emit

F(c, x, y) == CASE c = "lt" -> x < y [] c = "le" -> x <= y [] c = "gt" -> x > y [] c = "ge" -> x >= y

(* arrays are sequences indexed 0 .. n-1 through At / Put *)
At(a, i) == a[i + 1]
SwapIdx(a, i, j) == [a EXCEPT ![i + 1] = a[j + 1], ![j + 1] = a[i + 1]]
InSeg(a, i) == i >= 0 /\ i < Len(a)

(* the scan of Array_Sort_Partition: i runs from l to r-1 (to r with VisitPivot); returns [a, s, oob] *)
RECURSIVE Scan(_, _, _, _, _, _)
Scan(a, i, s, r, c, oob) ==
  IF (IF VisitPivot THEN i > r ELSE i >= r) THEN [a |-> a, s |-> s, oob |-> oob]
  ELSE IF F(c, At(a, i), At(a, r)) THEN Scan(SwapIdx(a, i, s), i + 1, s + 1, r, c, oob) ELSE Scan(a, i + 1, s, r, c, oob)

Partition(a, l, r, c) ==
  LET p == l + (r - l) \div 2
      sc == Scan(SwapIdx(a, p, r), l, l, r, c, FALSE)
      bad == sc.s > r \/ ~InSeg(a, sc.s)                       \* the closing swap would reach outside the segment
  IN [a |-> IF bad THEN sc.a ELSE SwapIdx(sc.a, sc.s, r), s |-> sc.s, oob |-> bad]

RECURSIVE QSort(_, _, _, _)
QSort(a, l, r, c) ==            \* returns [a, oob]
  IF l < r
  THEN LET pt == Partition(a, l, r, c) IN
       IF pt.oob THEN [a |-> pt.a, oob |-> TRUE]
       ELSE LET left == QSort(pt.a, l, pt.s - 1, c) IN
            IF left.oob THEN left
            ELSE QSort(left.a, pt.s + 1, r, c)
  ELSE [a |-> a, oob |-> FALSE]

SortBy(a, c) == IF Len(a) = 0 THEN [a |-> a, oob |-> FALSE] ELSE QSort(a, 0, Len(a) - 1, c)

Ordered(a, c) == \A p \in 1..(Len(a) - 1) : F(c, a[p], a[p + 1]) \/ a[p] = a[p + 1]
Expected(a, c) == IF c \in {"lt", "le"} THEN Sorted(a) ELSE Reverse(Sorted(a))

-----------------------------------------------------------------------------
VARIABLES inp, cmpf, out, done
vars == <<inp, cmpf, out, done>>
AllSeqs == UNION {[1..n -> Vals] : n \in 0..MaxLen}
Init == inp \in AllSeqs /\ cmpf \in {"lt", "le", "gt", "ge"} /\ out = [a |-> <<>>, oob |-> FALSE] /\ done = FALSE
Run == ~done /\ done' = TRUE /\ out' = SortBy(inp, cmpf) /\ UNCHANGED <<inp, cmpf>>
Spec == Init /\ [][Run]_vars

SortOK == done => (/\ ~out.oob
                   /\ IsPerm(inp, out.a)
                   /\ Ordered(out.a, cmpf)
                   /\ out.a = Expected(inp, cmpf))              \* (values only: equal elements are indistinguishable here)
EmitCase == (Emit /\ done') => PrintT(<<"CASE", ToJson([inp |-> inp, cmp |-> cmpf, out |-> out'.a])>>)
=============================================================================
