SPECIFICATION Spec
INVARIANT OrderLaws
