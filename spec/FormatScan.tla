------------------------------ MODULE FormatScan ------------------------------
(***************************************************************************)
(* C14, layer I: the scanner of print_to_with (src/Show.c) as a function   *)
(* from format text to segments, checked by TLC against the grammar for    *)
(* every sequence of up to MaxSegs segments drawn from one representative  *)
(* per class (literal text, %%, conversions with flags / width / precision *)
(* / length modifier, %$), in every order: specification at the very start,*)
(* at the very end, adjacent, after %%.  The read index never leaves the   *)
(* text (index <= Len + 1, the terminator).                                *)
(* Characters are small strings; conversions end at the first character of *)
(* ConvChars (as strchr("diuoxXfFeEgGaAxcsp$", c) does).                   *)
(***************************************************************************)
EXTENDS Integers, Sequences, FiniteSets, TLC

CONSTANT MaxSegs
VARIABLE dummy

ConvChars == {"d", "i", "u", "o", "x", "X", "f", "F", "e", "E", "g", "G", "a", "A", "c", "s", "p", "$"}
Chars(s) == s            \* a text is a sequence of one-character strings

Reps == << <<"x">>, <<"x", "y">>,                                  \* literals
           <<"%", "%">>,                                           \* %%
           <<"%", "d">>, <<"%", "-", "5", "l", "d">>, <<"%", ".", "3", "f">>, <<"%", "0", "8", ".", "2", "l", "f">>,
           <<"%", "s">>, <<"%", "h", "h", "u">>, <<"%", "$">>, <<"%", "+", "i">> >>
Kind(seg) == IF seg[1] # "%" THEN "lit" ELSE IF seg = <<"%", "%">> THEN "pct" ELSE "conv"

(* the scanner: returns <<segments, highest index read>> *)
RECURSIVE LitEnd(_, _)
LitEnd(t, i) == IF i > Len(t) \/ t[i] = "%" THEN i ELSE LitEnd(t, i + 1)
RECURSIVE ConvEnd(_, _)
ConvEnd(t, i) == IF i > Len(t) THEN i                              \* strchr matches the terminator: the scan stops there
                 ELSE IF t[i] \in ConvChars THEN i ELSE ConvEnd(t, i + 1)
RECURSIVE ScanFrom(_, _, _, _)
ScanFrom(t, i, acc, hi) ==
  IF i > Len(t) THEN <<acc, hi>>
  ELSE IF t[i] # "%" THEN LET e == LitEnd(t, i) IN ScanFrom(t, e, Append(acc, <<"lit", SubSeq(t, i, e - 1)>>), IF e > hi THEN e ELSE hi)
  ELSE IF i + 1 <= Len(t) /\ t[i + 1] = "%" THEN ScanFrom(t, i + 2, Append(acc, <<"pct", <<"%", "%">>>>), IF i + 1 > hi THEN i + 1 ELSE hi)
  ELSE LET e == ConvEnd(t, i + 1) IN ScanFrom(t, e + 1, Append(acc, <<"conv", SubSeq(t, i, e)>>), IF e > hi THEN e ELSE hi)
Scan(t) == ScanFrom(t, 1, <<>>, 0)

(* what the grammar says: adjacent literals merge *)
RECURSIVE Merge(_)
Merge(segs) == IF Len(segs) <= 1 THEN [i \in 1..Len(segs) |-> <<Kind(segs[i]), segs[i]>>]
               ELSE IF Kind(segs[1]) = "lit" /\ Kind(segs[2]) = "lit" THEN Merge(<<segs[1] \o segs[2]>> \o SubSeq(segs, 3, Len(segs)))
               ELSE <<<<Kind(segs[1]), segs[1]>>>> \o Merge(Tail(segs))
RECURSIVE Flat(_)
Flat(segs) == IF segs = <<>> THEN <<>> ELSE Head(segs) \o Flat(Tail(segs))

SegSeqs == UNION {[1..k -> 1..Len(Reps)] : k \in 0..MaxSegs}
ScannerOK == \A c \in SegSeqs :
               LET segs == [i \in 1..Len(c) |-> Reps[c[i]]]
                   t == Flat(segs)
                   r == Scan(t)
               IN /\ r[1] = Merge(segs)                       \* segmentation = the grammar's
                  /\ r[2] <= Len(t) + 1                        \* never reads beyond the terminator
                  /\ Cardinality({i \in 1..Len(r[1]) : r[1][i][1] = "conv"}) = Cardinality({i \in 1..Len(c) : Kind(Reps[c[i]]) = "conv"})   \* one argument per conversion
Init == dummy = 0
Next == UNCHANGED dummy
Spec == Init /\ [][Next]_dummy
=============================================================================
