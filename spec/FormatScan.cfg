SPECIFICATION Spec
CONSTANT MaxSegs = 4
INVARIANT ScannerOK
