-------------------------------- MODULE Views --------------------------------
(***************************************************************************)
(* Layer A for C11: what every iterable and view yields, by structural     *)
(* recursion over the view expression.  Expressions are tuples:            *)
(*   <<"seq", items, kind>>                    Array / List / Tuple / Table / Tree contents          *)
(*   <<"range", nargs, a1, a2, a3>>            range() / range(stop) / range(start, stop[, step])    *)
(*   <<"slice", nargs, sub, a1, a2, a3>>       slice(sub[, stop] | [start, stop[, step]])            *)
(*   <<"zip", <<subs>>>>  <<"enum", sub>>  <<"filter", p, sub>>  <<"map", f, sub>>                  *)
(* U stands for the omitted argument `_`.                                                              *)
(***************************************************************************)
EXTENDS Integers, Sequences, FiniteSets, TLC

U == 1000000
Min(a, b) == IF a < b THEN a ELSE b
Abs(x) == IF x < 0 THEN -x ELSE x

(* range(a, b, c): c > 0: a, a+c, ... < b;  c < 0: b-1, b-1-|c|, ... >= a;  c = 0 or b <= a: empty *)
RangeCount(a, b, c) == IF c = 0 \/ b <= a THEN 0 ELSE ((b - 1) - a) \div Abs(c) + 1
RangeElems(a, b, c) == [k \in 1..RangeCount(a, b, c) |-> IF c > 0 THEN a + (k - 1) * c ELSE (b - 1) + (k - 1) * c]

RangeOf(n, a1, a2, a3) ==          \* constructor arguments -> <<start, stop, step>>
  CASE n = 0 -> <<0, 0, 1>>
    [] n = 1 -> <<0, a1, 1>>
    [] n = 2 -> <<IF a1 = U THEN 0 ELSE a1, a2, 1>>
    [] n = 3 -> <<IF a1 = U THEN 0 ELSE a1, a2, IF a3 = U THEN 1 ELSE a3>>

(* slice arguments: _ -> default; negative counts from the end; clamped into [0, len] *)
Clamp(n, a) == LET b == IF a < 0 THEN n + a ELSE a IN IF b > n THEN n ELSE IF b < 0 THEN 0 ELSE b
SliceOf(n, k, a1, a2, a3) ==
  CASE k = 0 -> <<0, n, 1>>
    [] k = 1 -> <<0, IF a1 = U THEN n ELSE Clamp(n, a1), 1>>
    [] k = 2 -> <<IF a1 = U THEN 0 ELSE Clamp(n, a1), IF a2 = U THEN n ELSE Clamp(n, a2), 1>>
    [] k = 3 -> <<IF a1 = U THEN 0 ELSE Clamp(n, a1), IF a2 = U THEN n ELSE Clamp(n, a2), IF a3 = U THEN 1 ELSE a3>>

Pred(p, x) == CASE p = 0 -> x % 2 = 0 [] p = 1 -> x % 2 # 0 [] p = 2 -> x > 3 [] p = 3 -> FALSE [] p = 5 -> x % 2 # 0 [] OTHER -> TRUE
Fun(f, x) == CASE f = 0 -> x + 100 [] f = 1 -> 2 * x [] OTHER -> -x

RECURSIVE SelectSeq2(_, _)
SelectSeq2(s, p) == IF s = <<>> THEN <<>> ELSE (IF Pred(p, Head(s)) THEN <<Head(s)>> ELSE <<>>) \o SelectSeq2(Tail(s), p)

RECURSIVE Elems(_)
Elems(v) ==
  CASE v[1] = "seq" -> v[2]
    [] v[1] = "range" -> LET r == RangeOf(v[2], v[3], v[4], v[5]) IN RangeElems(r[1], r[2], r[3])
    [] v[1] = "slice" -> LET sub == Elems(v[3])
                             r == SliceOf(Len(sub), v[2], v[4], v[5], v[6])
                             pos == RangeElems(r[1], r[2], r[3])
                         IN [i \in 1..Len(pos) |-> sub[pos[i] + 1]]          \* the elements at exactly those positions
    [] v[1] = "zip" -> LET subs == [i \in 1..Len(v[2]) |-> Elems(v[2][i])]
                           m == IF Len(subs) = 0 THEN 0
                                ELSE CHOOSE x \in {Len(subs[i]) : i \in 1..Len(subs)} : \A i \in 1..Len(subs) : x <= Len(subs[i])
                       IN [k \in 1..m |-> [i \in 1..Len(subs) |-> subs[i][k]]]          \* tuples up to the shortest input
    [] v[1] = "enum" -> LET sub == Elems(v[2]) IN [k \in 1..Len(sub) |-> <<k - 1, sub[k]>>]
    [] v[1] = "filter" -> SelectSeq2(Elems(v[3]), v[2])
    [] v[1] = "map" -> LET sub == Elems(v[3]) IN [k \in 1..Len(sub) |-> Fun(v[2], sub[k])]

Reverse(s) == [k \in 1..Len(s) |-> s[Len(s) - k + 1]]
=============================================================================
