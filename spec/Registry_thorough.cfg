SPECIFICATION Spec
CONSTANTS
  Addrs = {0, 55, 110, 165, 4, 59, 10}
  MaxItems = 7
  Recheck = TRUE
VIEW view
INVARIANT RegistryOK
