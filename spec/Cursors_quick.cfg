SPECIFICATION Spec
CONSTANTS
  GridMax = 8
  MaxLen = 6
  AsFound = FALSE
INVARIANT GridOK
