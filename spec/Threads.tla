------------------------------- MODULE Threads -------------------------------
(***************************************************************************)
(* C13: threads are isolated, join publishes, Mutex excludes.              *)
(* Every thread owns a collector (its registry: the objects it allocated), *)
(* an exception depth and a thread-local table.  Shared: one Mutex, the    *)
(* threads' life cycle, a cell written by a child and read by its joiner.  *)
(* The one piece of state that is shared by construction in src/Thread.c   *)
(* is modelled explicitly: a Thread object created with new() is           *)
(* registered in its PARENT's collector, and Thread_Mark walks the child's *)
(* TLS table - while the child may be growing it (Table_Rehash publishes   *)
(* the new slot count before the new slot array).                          *)
(*   ParentWalksChildTls = TRUE is the code as it is (open finding);       *)
(*   FALSE is the isolation the property asks for.                         *)
(***************************************************************************)
EXTENDS Integers, FiniteSets, Sequences, TLC

CONSTANTS Kids, MaxOwn, MaxDepth, MaxTls, MaxCell, ParentWalksChildTls
Main == 0
Thr == {Main} \cup Kids

VARIABLES life,      \* life[t] \in {"new", "running", "finished", "joined"}   (Main is always running)
          own,       \* own[t]: number of live objects in t's collector
          depth,     \* exception nesting depth of t
          tlsn,      \* tlsn[t] = <<slots published, slots allocated>> of t's TLS table
          holder,    \* Mutex holder or -1
          cell, seen,\* shared cell written by kids; what the joiner read after join
          torn       \* a reader saw more published slots than allocated ones (out-of-bounds read)
vars == <<life, own, depth, tlsn, holder, cell, seen, torn>>

Init == /\ life = [t \in Thr |-> IF t = Main THEN "running" ELSE "new"]
        /\ own = [t \in Thr |-> 0] /\ depth = [t \in Thr |-> 0] /\ tlsn = [t \in Thr |-> <<1, 1>>]
        /\ holder = -1 /\ cell = [t \in Kids |-> 0] /\ seen = [t \in Kids |-> -1] /\ torn = FALSE

Running(t) == life[t] = "running"
Start(k) == life[k] = "new" /\ life' = [life EXCEPT ![k] = "running"] /\ UNCHANGED <<own, depth, tlsn, holder, cell, seen, torn>>
Alloc(t) == Running(t) /\ own[t] < MaxOwn /\ own' = [own EXCEPT ![t] = @ + 1] /\ UNCHANGED <<life, depth, tlsn, holder, cell, seen, torn>>
(* a collection of t sweeps t's own garbage only; the parent's mark phase also reads the TLS tables of its children *)
Collect(t) == /\ Running(t) /\ own[t] > 0
              /\ \E n \in 0..own[t] : own' = [own EXCEPT ![t] = n]
              /\ torn' = (torn \/ (ParentWalksChildTls /\ t = Main /\ \E k \in Kids : life[k] \in {"running", "finished"} /\ tlsn[k][1] > tlsn[k][2]))
              /\ UNCHANGED <<life, depth, tlsn, holder, cell, seen>>
Try(t) == Running(t) /\ depth[t] < MaxDepth /\ depth' = [depth EXCEPT ![t] = @ + 1] /\ UNCHANGED <<life, own, tlsn, holder, cell, seen, torn>>
Leave(t) == Running(t) /\ depth[t] > 0 /\ depth' = [depth EXCEPT ![t] = @ - 1] /\ UNCHANGED <<life, own, tlsn, holder, cell, seen, torn>>   \* end of try, or throw to the handler
(* growing the TLS table: Table_Rehash sets nslots, then installs the new array *)
TlsPublish(t) == Running(t) /\ tlsn[t][1] = tlsn[t][2] /\ tlsn[t][1] < MaxTls /\ tlsn' = [tlsn EXCEPT ![t] = <<@[1] + 1, @[2]>>]
                 /\ UNCHANGED <<life, own, depth, holder, cell, seen, torn>>
TlsInstall(t) == Running(t) /\ tlsn[t][1] > tlsn[t][2] /\ tlsn' = [tlsn EXCEPT ![t] = <<@[1], @[1]>>]
                 /\ UNCHANGED <<life, own, depth, holder, cell, seen, torn>>
Lock(t) == Running(t) /\ holder = -1 /\ holder' = t /\ UNCHANGED <<life, own, depth, tlsn, cell, seen, torn>>          \* lock blocks, trylock fails, while held
Unlock(t) == holder = t /\ holder' = -1 /\ UNCHANGED <<life, own, depth, tlsn, cell, seen, torn>>
Write(k) == Running(k) /\ k \in Kids /\ cell[k] < MaxCell /\ cell' = [cell EXCEPT ![k] = @ + 1] /\ UNCHANGED <<life, own, depth, tlsn, holder, seen, torn>>
Finish(k) == /\ Running(k) /\ k \in Kids /\ holder # k /\ depth[k] = 0 /\ tlsn[k][1] = tlsn[k][2]
             /\ life' = [life EXCEPT ![k] = "finished"] /\ own' = [own EXCEPT ![k] = 0]                    \* thread exit tears its collector down
             /\ UNCHANGED <<depth, tlsn, holder, cell, seen, torn>>
Join(k) == /\ life[k] = "finished"                                            \* join returns only after the function finished
           /\ life' = [life EXCEPT ![k] = "joined"] /\ seen' = [seen EXCEPT ![k] = cell[k]]
           /\ UNCHANGED <<own, depth, tlsn, holder, cell, torn>>

ActOf(t) == Alloc(t) \/ Collect(t) \/ Try(t) \/ Leave(t) \/ TlsPublish(t) \/ TlsInstall(t) \/ Lock(t) \/ Unlock(t)
Next == \/ \E t \in Thr : ActOf(t)
        \/ \E k \in Kids : Start(k) \/ Write(k) \/ Finish(k) \/ Join(k)
Spec == Init /\ [][Next]_vars

-----------------------------------------------------------------------------
(* whatever thread t does leaves every other thread's collector, exception context and TLS alone *)
Isolation == [][\A t \in Thr : ActOf(t) => \A u \in Thr \ {t} : own'[u] = own[u] /\ depth'[u] = depth[u] /\ tlsn'[u] = tlsn[u]]_vars
JoinPublishes == \A k \in Kids : life[k] = "joined" => seen[k] = cell[k]
MutexOK == holder \in Thr \cup {-1}
NoTornRead == ~torn
ThreadsOK == JoinPublishes /\ MutexOK /\ NoTornRead
=============================================================================
