----------------------------- MODULE FileStream -----------------------------
(***************************************************************************)
(* Layer A for C20: File streams over a tiny disk.  A handle is            *)
(* [open, path, rd, wr, pos, eof]; the disk maps a path to its bytes.      *)
(* Pure operators, used by the exhaustive model (FileModel) and the trace  *)
(* specification (FileTrace).                                              *)
(***************************************************************************)
EXTENDS Integers, Sequences, FiniteSets, TLC

Closed == [open |-> FALSE, path |-> 0, rd |-> FALSE, wr |-> FALSE, app |-> FALSE, pos |-> 0, eof |-> FALSE]

(* bytes written by the harness for (seed, n): a deterministic pattern with zero bytes in it *)
Pattern(seed, n) == [k \in 1..n |-> (seed * 31 + (k - 1) * 7 + ((k - 1) \div 256)) % 256]

(* modes: 1 "rb"  2 "wb"  3 "r+b"  4 "w+b"  5 "ab"  6 "a+b"                                             *)
(* append modes: every write goes to the END of the file wherever the position is, and leaves the position   *)
(* there; "ab" opens positioned at the end, "a+b" at the start (the C library's behaviour here: glibc)       *)
CanRead(m) == m \in {1, 3, 4, 6}
CanWrite(m) == m \in {2, 3, 4, 5, 6}
Appends(m) == m \in {5, 6}
OpenedAt(p, m, c) == [open |-> TRUE, path |-> p, rd |-> CanRead(m), wr |-> CanWrite(m), app |-> Appends(m),
                      pos |-> IF m = 5 THEN Len(c) ELSE 0, eof |-> FALSE]
WritePos(h, c) == IF h.app THEN Len(c) ELSE h.pos                       \* where the next write lands
Truncates(m) == m \in {2, 4}
NeedsFile(m) == m \in {1, 3}

Overwrite(c, pos, bytes) == SubSeq(c, 1, pos) \o bytes \o SubSeq(c, pos + Len(bytes) + 1, Len(c))
Avail(h, c) == Len(c) - h.pos
SeekTarget(h, c, off, origin) == (IF origin = 0 THEN 0 ELSE IF origin = 1 THEN h.pos ELSE Len(c)) + off
=============================================================================
