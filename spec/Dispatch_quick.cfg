SPECIFICATION Spec
CONSTANTS
  MaxLookups = 4
  MemoWrong = FALSE
  NThreads = 2
INVARIANT DispatchOK
