----------------------------- MODULE DispatchMC -----------------------------
(* model-checking instance of Dispatch: three types with overlapping, duplicated and missing classes *)
EXTENDS Integers, Sequences, TLC
CONSTANTS MaxLookups, MemoWrong, NThreads
VARIABLES cache, memo, pc, job, tmp, answers, done
TypesC == {"t1", "t2", "t3"}
ClassesC == {"New", "Cmp", "Len", "Show", "Doc"}
CachedC == {"New", "Cmp", "Len"}
DeclaredC == [t \in TypesC |->
   CASE t = "t1" -> << <<"Doc", 1>>, <<"New", 2>>, <<"Cmp", 3>>, <<"Cmp", 4>>, <<"Show", 5>> >>      \* Cmp declared twice: first wins
     [] t = "t2" -> << <<"Len", 6>>, <<"Show", 7>>, <<"New", 8>> >>                                   \* no Cmp, no Doc
     [] t = "t3" -> << >> ]                                                                            \* declares nothing
INSTANCE Dispatch WITH Types <- TypesC, Classes <- ClassesC, Cached <- CachedC, Threads <- 1..NThreads, Declared <- DeclaredC
=============================================================================
