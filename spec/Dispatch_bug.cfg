SPECIFICATION Spec
CONSTANTS
  MaxLookups = 4
  MemoWrong = TRUE
  NThreads = 2
INVARIANT DispatchOK
