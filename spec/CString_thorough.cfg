SPECIFICATION Spec
CONSTANTS
  Alpha = {1, 2}
  MaxLen = 5
  MaxArg = 3
  RemCount = "fixed"
  Emit = TRUE
VIEW view
INVARIANT StringOK
ACTION_CONSTRAINT EmitEdge
