SPECIFICATION Spec
CONSTANTS
  Kids = {1, 2}
  MaxOwn = 2
  MaxDepth = 2
  MaxTls = 3
  MaxCell = 2
  ParentWalksChildTls = FALSE
INVARIANT ThreadsOK
PROPERTY Isolation
