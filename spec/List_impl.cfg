SPECIFICATION Spec
CONSTANTS
  Nodes = {1, 2, 3, 4}
  Vals = {1, 2}
  MaxLen = 4
  Emit = FALSE
  StaleHeadPrev = FALSE
VIEW view
INVARIANT ListOK
PROPERTY GetOK
PROPERTY FailStutter
ACTION_CONSTRAINT EmitEdge
