SPECIFICATION Spec
CONSTANT Mode = "own"
POSTCONDITION Accepted
CHECK_DEADLOCK FALSE
