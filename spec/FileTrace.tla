------------------------------ MODULE FileTrace ------------------------------
(***************************************************************************)
(* C20 trace validation.  Every stream call recorded by h_file must be a    *)
(* step of the FileStream specification: bytes read = bytes on the disk at  *)
(* that position (short reads deliver what there is and set eof), stell /   *)
(* sseek / seof agree with the C library's own ftell / feof of the stream,   *)
(* text printed is read back by scan, a File that is not open refuses        *)
(* everything with IOError, and fopen / fclose calls balance: each stream   *)
(* is closed exactly once (by sclose, del, reopening, or leaving a with).    *)
(***************************************************************************)
EXTENDS FileStream, Json, IOUtils, Functions, Folds

T == ndJsonDeserialize(IOEnv.TRACE)
VARIABLES l, fs, disk, opens, closes
vars == <<l, fs, disk, opens, closes>>

IsEv(op) == l <= Len(T) /\ T[l].op = op /\ l' = l + 1
E == T[l]
With(f, k, v) == [y \in (DOMAIN f) \cup {k} |-> IF y = k THEN v ELSE f[y]]
Without(f, k) == [y \in (DOMAIN f) \ {k} |-> f[y]]
H == fs[E.o]
C == disk[H.path]
Sum(s) == FoldFunction(LAMBDA x, y : x + y, 0, s)

RECURSIVE Digits(_)
Digits(n) == IF n < 10 THEN <<48 + n>> ELSE Digits(n \div 10) \o <<48 + (n % 10)>>
Text(v) == Digits(v) \o <<32>>                                  \* "%li " of a non-negative value

(* the C library's view of every open stream agrees with the specification; the stream accounting balances *)
Common(fn, on, cn) ==
  /\ E.nopen = on /\ E.nclose = cn
  /\ \A i \in 1..Len(E.st) : LET s == E.st[i] IN
       /\ s.o \in DOMAIN fn
       /\ s.open = (IF fn[s.o].open THEN 1 ELSE 0)
       /\ (fn[s.o].open => (s.pos = fn[s.o].pos /\ s.ceof = (IF fn[s.o].eof THEN 1 ELSE 0)))
  /\ {E.st[i].o : i \in 1..Len(E.st)} = DOMAIN fn

Ok(fn, dn, on, cn) == E.exc = "" /\ Common(fn, on, cn) /\ fs' = fn /\ disk' = dn /\ opens' = on /\ closes' = cn
Refused == E.exc = "IOError" /\ Common(fs, opens, closes) /\ UNCHANGED <<fs, disk, opens, closes>>

Opened(p, m) == OpenedAt(p, m, IF Truncates(m) THEN <<>> ELSE disk[p])

Init == l = 1 /\ fs = [x \in {} |-> 0] /\ disk = [p \in {1, 2} |-> <<>>] /\ opens = 0 /\ closes = 0
Reset == IsEv("reset") /\ fs' = [x \in {} |-> 0] /\ disk' = [p \in {1, 2} |-> <<>>] /\ opens' = 0 /\ closes' = 0
End == IsEv("end") /\ E.nopen = E.nclose /\ UNCHANGED <<fs, disk, opens, closes>>       \* everything deleted: every stream closed once

New == IsEv("new") /\ IF E.b = 0 THEN Ok(With(fs, E.o, Closed), disk, opens, closes)
                      ELSE Ok(With(fs, E.o, Opened(E.a, E.b)), IF Truncates(E.b) THEN [disk EXCEPT ![E.a] = <<>>] ELSE disk, opens + 1, closes)
Open == IsEv("open") /\
  IF E.a = 9                                        \* a path that cannot be opened: IOError, and the File is closed afterwards -
  THEN /\ E.exc = "IOError"                         \* the stream it had open before has been closed, once, and is not kept
       /\ LET fn == With(fs, E.o, Closed) cn == IF H.open THEN closes + 1 ELSE closes IN
             Common(fn, opens, cn) /\ fs' = fn /\ closes' = cn /\ UNCHANGED <<disk, opens>>
  ELSE Ok(With(fs, E.o, Opened(E.a, E.b)), IF Truncates(E.b) THEN [disk EXCEPT ![E.a] = <<>>] ELSE disk,
          opens + 1, IF H.open THEN closes + 1 ELSE closes)          \* reopening closes the old stream first
Write == IsEv("write") /\
  IF ~H.open \/ (~H.wr /\ E.b > 0) THEN Refused
  ELSE /\ E.r = (IF E.b = 0 THEN 0 ELSE 1)
       /\ Ok(With(fs, E.o, [H EXCEPT !.pos = (IF E.b = 0 THEN @ ELSE WritePos(H, C) + E.b)]),
             [disk EXCEPT ![H.path] = Overwrite(@, WritePos(H, @), Pattern(E.a, E.b))], opens, closes)
Read == IsEv("read") /\
  IF ~H.open THEN Refused
  ELSE LET av == Avail(H, C) n == E.a
           got == IF av >= n THEN n ELSE av
           exp == SubSeq(C, H.pos + 1, H.pos + got) IN
       /\ E.r = (IF n > 0 /\ av >= n THEN 1 ELSE 0)                                  \* 1 iff the whole chunk was there
       /\ E.dlen = got /\ E.dsum = Sum(exp)
       /\ (got <= 64 => E.data = exp)                                                 \* identical bytes
       /\ Ok(With(fs, E.o, [H EXCEPT !.pos = @ + got, !.eof = (n > 0 /\ av < n) \/ H.eof]), disk, opens, closes)
Seek == IsEv("seek") /\ IF ~H.open THEN Refused
        ELSE Ok(With(fs, E.o, [H EXCEPT !.pos = SeekTarget(H, C, E.a, E.b), !.eof = FALSE]), disk, opens, closes)
(* positions beyond 2^31 and 2^32 (a seek far past the end, then back): stell reports exactly the position asked for, in full *)
BigSeek == IsEv("bigseek") /\ IF ~H.open THEN Refused
           ELSE E.hi = E.a /\ E.lo = E.b /\ E.same = 1 /\ Ok(With(fs, E.o, [H EXCEPT !.eof = FALSE]), disk, opens, closes)
Tell == IsEv("tell") /\ IF ~H.open THEN Refused ELSE E.r = H.pos /\ Ok(fs, disk, opens, closes)
Eof == IsEv("eof") /\ IF ~H.open THEN Refused ELSE E.r = (IF H.eof THEN 1 ELSE 0) /\ Ok(fs, disk, opens, closes)
Flush == IsEv("flush") /\ IF ~H.open THEN Refused ELSE Ok(fs, disk, opens, closes)
Close == (IsEv("close") \/ IsEv("withend")) /\ IF ~H.open THEN Refused ELSE Ok(With(fs, E.o, Closed), disk, opens, closes + 1)
WithBegin == IsEv("withbegin") /\ Ok(fs, disk, opens, closes)
Del == IsEv("del") /\ Ok(Without(fs, E.o), disk, opens, IF H.open THEN closes + 1 ELSE closes)
(* the destructor closes an open stream and leaves the object closed; constructing it again in place opens anew *)
Destruct == IsEv("destruct") /\ Ok(With(fs, E.o, Closed), disk, opens, IF H.open THEN closes + 1 ELSE closes)
Construct == IsEv("construct") /\ ~H.open
             /\ Ok(With(fs, E.o, Opened(E.a, E.b)), IF Truncates(E.b) THEN [disk EXCEPT ![E.a] = <<>>] ELSE disk, opens + 1, closes)
(* a close whose flush is refused raises IOError; the C library has closed the stream nevertheless: exactly one fclose, the *)
(* handle is gone, and deleting the File afterwards neither raises nor closes again                                       *)
FullClose == /\ IsEv("fullclose") /\ E.exc \in {"IOError", "noopen"} /\ E.delexc = "" /\ E.cleared = 1 /\ E.closes = 1
             /\ fs' = fs /\ disk' = disk /\ opens' = opens + (IF E.exc = "noopen" THEN 0 ELSE 1) /\ closes' = closes + (IF E.exc = "noopen" THEN 0 ELSE 1)
ProcClose2 == IsEv("procclose2") /\ E.exc = "" /\ E.exc2 = "IOError" /\ E.delexc = "" /\ UNCHANGED <<fs, disk, opens, closes>>
PrintEv == IsEv("print") /\ IF ~H.open THEN Refused
         ELSE /\ E.r = Len(Text(E.a))
              /\ Ok(With(fs, E.o, [H EXCEPT !.pos = WritePos(H, C) + Len(Text(E.a))]), [disk EXCEPT ![H.path] = Overwrite(@, WritePos(H, @), Text(E.a))], opens, closes)
Pad5(d) == IF Len(d) >= 5 THEN d ELSE [i \in 1..(5 - Len(d)) |-> 48] \o d
TextZ(v) == Pad5(Digits(v)) \o <<32>>                            \* "%05li " of a non-negative value
PrintZ == IsEv("printz") /\ IF ~H.open THEN Refused
          ELSE /\ E.r = Len(TextZ(E.a))
               /\ Ok(With(fs, E.o, [H EXCEPT !.pos = WritePos(H, C) + Len(TextZ(E.a))]), [disk EXCEPT ![H.path] = Overwrite(@, WritePos(H, @), TextZ(E.a))], opens, closes)
RECURSIVE ParseNat(_, _, _)
ParseNat(c, i, acc) == IF i <= Len(c) /\ c[i] >= 48 /\ c[i] <= 57 THEN ParseNat(c, i + 1, <<acc[1] * 10 + (c[i] - 48), i + 1>>) ELSE acc
ScanEv == IsEv("scan") /\ IF ~H.open THEN Refused
        ELSE LET r == ParseNat(C, H.pos + 1, <<0, H.pos + 1>>) IN                     \* digits, then the blank
             /\ E.r = r[1]
             /\ LET np == IF r[2] <= Len(C) /\ C[r[2]] = 32 THEN r[2] ELSE r[2] - 1 IN      \* the blank after the digits is consumed
                Ok(With(fs, E.o, [H EXCEPT !.pos = np, !.eof = (np = Len(C)) \/ H.eof]), disk, opens, closes)   \* looking for more white space hits the end

TextP(v) == Digits(v) \o <<37, 32>>                               \* "%li%% " of a non-negative value
PrintP == IsEv("printp") /\ IF ~H.open THEN Refused
          ELSE /\ E.r = Len(TextP(E.a))
               /\ Ok(With(fs, E.o, [H EXCEPT !.pos = WritePos(H, C) + Len(TextP(E.a))]), [disk EXCEPT ![H.path] = Overwrite(@, WritePos(H, @), TextP(E.a))], opens, closes)
ScanP == IsEv("scanp") /\ IF ~H.open THEN Refused
         ELSE LET r == ParseNat(C, H.pos + 1, <<0, H.pos + 1>>) IN                    \* digits, the per cent sign, then the blank
              /\ E.r = r[1] /\ r[2] <= Len(C) /\ C[r[2]] = 37
              /\ LET np == IF r[2] + 1 <= Len(C) /\ C[r[2] + 1] = 32 THEN r[2] + 1 ELSE r[2] IN
                 Ok(With(fs, E.o, [H EXCEPT !.pos = np, !.eof = (np = Len(C)) \/ H.eof]), disk, opens, closes)
Next == PrintP \/ ScanP \/ Reset \/ End \/ New \/ Open \/ Write \/ Read \/ Seek \/ BigSeek \/ Tell \/ Eof \/ Flush \/ Close \/ WithBegin \/ Del \/ Destruct \/ Construct \/ FullClose \/ ProcClose2 \/ PrintEv \/ PrintZ \/ ScanEv
Spec == Init /\ [][Next]_vars
Accepted == LET d == TLCGet("stats").diameter IN
            /\ PrintT(<<"TRACE_MATCHED", d - 1, Len(T)>>)
            /\ d - 1 = Len(T)
=============================================================================
