SPECIFICATION Spec
CONSTANTS
  Kinds = {"A", "B"}
  MaxNest = 3
  MaxSteps = 7
  ObjKeptInCatch = TRUE
  ObjAfterMsg = TRUE
  ClearActive = TRUE
  FilterTry = "off"
  Emit = TRUE
VIEW view
INVARIANT ExcOK
ACTION_CONSTRAINT EmitEdge
