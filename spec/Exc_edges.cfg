SPECIFICATION Spec
CONSTANTS
  Kinds = {"A", "B"}
  MaxNest = 3
  MaxSteps = 7
  ObjAfterMsg = TRUE
  ClearActive = TRUE
  Emit = TRUE
VIEW view
INVARIANT ExcOK
ACTION_CONSTRAINT EmitEdge
