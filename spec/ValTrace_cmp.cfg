SPECIFICATION Spec
CONSTANT Mode = "cmp"
POSTCONDITION Accepted
CHECK_DEADLOCK FALSE
