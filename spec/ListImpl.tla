------------------------------ MODULE ListImpl ------------------------------
(***************************************************************************)
(* Layer I for List (C04, C05, C11): src/List.c transcribed - a doubly     *)
(* linked list of nodes (next / prev words in front of each element),      *)
(* head, tail and an item count.                                           *)
(*   List_At      walks from the head for positions in the first half and  *)
(*                from the tail for the others (prev links are load-       *)
(*                bearing: a wrong prev breaks get / set / pop_at /        *)
(*                push_at of the far half and backward iteration only);    *)
(*   List_Link    (item, prev, next) and List_Unlink(item) with their four *)
(*                cases each;                                              *)
(*   push, push_at (0 = in front; otherwise in front of an existing        *)
(*   element), pop, pop_at, rem (first equal), set, get, resize (shrink    *)
(*   from the tail, 0 = clear), clear.                                     *)
(* Nodes are taken from and returned to a free set; a freed node's links   *)
(* are poisoned (Dead), so following a stale pointer is visible.           *)
(* The ghost variable s is the abstract sequence (module Sequence); the    *)
(* invariants say that both chains represent it.                           *)
(*   StaleHeadPrev = TRUE: unlinking the head leaves the new head's prev   *)
(*   pointing at the freed node (a seeded change; refuted by BackOK).      *)
(***************************************************************************)
EXTENDS Sequence, Json

CONSTANTS Nodes, Vals, MaxLen, Emit, StaleHeadPrev

Nil == 0
Dead == -1

VARIABLES nxt, prv, val, head, tail, nitems, free, s, act
vars == <<nxt, prv, val, head, tail, nitems, free, s, act>>
view == <<nxt, prv, val, head, tail, nitems, free, s>>

Init == /\ nxt = [n \in Nodes |-> Dead] /\ prv = [n \in Nodes |-> Dead] /\ val = [n \in Nodes |-> 0]
        /\ head = Nil /\ tail = Nil /\ nitems = 0 /\ free = Nodes /\ s = <<>> /\ act = [op |-> "new"]

(* following k links of f from node x; Dead once a poisoned or missing link was followed *)
RECURSIVE Walk(_, _, _)
Walk(f, x, k) == IF k = 0 THEN x ELSE IF x \in Nodes THEN Walk(f, f[x], k - 1) ELSE Dead

(* List_At(i) with i already checked: from the nearer end *)
At(p) == IF p <= nitems \div 2 THEN Walk(nxt, head, p) ELSE Walk(prv, tail, nitems - p - 1)

NewNode == CHOOSE n \in free : \A m \in free : n <= m              \* List_Alloc

(* List_Link(item, p, n): returns <<nxt, prv, head, tail>> *)
Link(NX, PV, H, T, item, p, n) ==
  LET NX1 == IF p = Nil THEN NX ELSE [NX EXCEPT ![p] = item]
      PV1 == IF n = Nil THEN PV ELSE [PV EXCEPT ![n] = item]
  IN <<[NX1 EXCEPT ![item] = n], [PV1 EXCEPT ![item] = p], IF p = Nil THEN item ELSE H, IF n = Nil THEN item ELSE T>>

(* List_Unlink(item) followed by List_Free(item): returns <<nxt, prv, head, tail>> *)
Unlink(item) ==
  LET n == nxt[item] p == prv[item]
      r == IF item = head /\ item = tail THEN <<nxt, prv, Nil, Nil>>
           ELSE IF item = head THEN <<nxt, IF StaleHeadPrev THEN prv ELSE [prv EXCEPT ![n] = Nil], n, tail>>
           ELSE IF item = tail THEN <<[nxt EXCEPT ![p] = Nil], prv, head, p>>
           ELSE <<[nxt EXCEPT ![p] = n], [prv EXCEPT ![n] = p], head, tail>>
  IN <<[r[1] EXCEPT ![item] = Dead], [r[2] EXCEPT ![item] = Dead], r[3], r[4]>>

Ok(a, s2) == act' = a /\ s' = s2
Fail(a, e) == act' = [a EXCEPT !.exc = e] /\ UNCHANGED <<nxt, prv, val, head, tail, nitems, free, s>>

Insert(a, v, p, n, s2) ==                              \* a new node holding v between p and n
  LET item == NewNode r == Link(nxt, prv, head, tail, item, p, n) IN
  /\ nxt' = r[1] /\ prv' = r[2] /\ head' = r[3] /\ tail' = r[4]
  /\ val' = [val EXCEPT ![item] = v] /\ free' = free \ {item} /\ nitems' = nitems + 1 /\ Ok(a, s2)
Remove(a, item, s2) ==
  LET r == Unlink(item) IN
  /\ nxt' = r[1] /\ prv' = r[2] /\ head' = r[3] /\ tail' = r[4]
  /\ val' = val /\ free' = free \cup {item} /\ nitems' = nitems - 1 /\ Ok(a, s2)

Push(v) == Len(s) < MaxLen /\ free # {} /\ Insert([op |-> "push", v |-> v, exc |-> ""], v, tail, Nil, Append(s, v))
PushAt(v, i) == LET a == [op |-> "pushat", v |-> v, i |-> i, exc |-> ""]
                    p == PushAtPos("List", Len(s), i) IN
                /\ Len(s) < MaxLen /\ free # {}
                /\ IF p = -1 THEN Fail(a, "IndexOutOfBoundsError")
                   ELSE IF i = 0 THEN Insert(a, v, Nil, head, InsertAt(s, 0, v))
                   ELSE LET curr == At(p) IN curr \in Nodes /\ Insert(a, v, prv[curr], curr, InsertAt(s, p, v))
Pop == LET a == [op |-> "pop", exc |-> ""] IN
       IF nitems = 0 THEN Fail(a, "IndexOutOfBoundsError") ELSE Remove(a, tail, SubSeq(s, 1, Len(s) - 1))
PopAt(i) == LET a == [op |-> "popat", i |-> i, exc |-> ""] p == Idx(nitems, i) IN
            IF p = -1 THEN Fail(a, "IndexOutOfBoundsError")
            ELSE LET item == At(p) IN item \in Nodes /\ Remove(a, item, RemoveAt(s, p))
(* the first node whose value is v, walking from the head *)
RECURSIVE FirstNode(_, _, _)
FirstNode(x, v, fuel) == IF x \notin Nodes \/ fuel = 0 THEN Nil ELSE IF val[x] = v THEN x ELSE FirstNode(nxt[x], v, fuel - 1)
Rem(v) == LET a == [op |-> "rem", v |-> v, exc |-> ""] item == FirstNode(head, v, Cardinality(Nodes) + 1) IN
          IF item = Nil THEN Fail(a, "ValueError") ELSE Remove(a, item, RemFirst(s, v))
Set(i, v) == LET a == [op |-> "set", i |-> i, v |-> v, exc |-> ""] p == Idx(nitems, i) IN
             IF p = -1 THEN Fail(a, "IndexOutOfBoundsError")
             ELSE LET item == At(p) IN
                  /\ item \in Nodes /\ val' = [val EXCEPT ![item] = v] /\ Ok(a, ReplaceAt(s, p, v))
                  /\ UNCHANGED <<nxt, prv, head, tail, nitems, free>>
(* get: the value found where List_At arrives is part of the label, so the replay compares it with the library's answer *)
Get(i) == LET p == Idx(nitems, i) IN
          IF p = -1 THEN Fail([op |-> "get", i |-> i, exc |-> ""], "IndexOutOfBoundsError")
          ELSE LET item == At(p) IN
               /\ item \in Nodes /\ Ok([op |-> "get", i |-> i, exc |-> "", r |-> val[item]], s)
               /\ UNCHANGED <<nxt, prv, val, head, tail, nitems, free>>
(* resize to fewer elements: pops from the tail one by one; 0 clears *)
RECURSIVE Shrink(_, _, _, _, _, _, _)
Shrink(NX, PV, H, T, F, k, n) ==
  IF k <= n THEN <<NX, PV, H, T, F>>
  ELSE LET item == T p == PV[T] IN
       IF H = T THEN Shrink([NX EXCEPT ![item] = Dead], [PV EXCEPT ![item] = Dead], Nil, Nil, F \cup {item}, k - 1, n)
       ELSE Shrink([[NX EXCEPT ![p] = Nil] EXCEPT ![item] = Dead], [PV EXCEPT ![item] = Dead], H, p, F \cup {item}, k - 1, n)
Resize(n) == /\ n <= nitems
             /\ LET r == Shrink(nxt, prv, head, tail, free, nitems, n) IN
                /\ nxt' = r[1] /\ prv' = r[2] /\ head' = r[3] /\ tail' = r[4] /\ free' = r[5] /\ nitems' = n /\ val' = val
                /\ Ok([op |-> "resize", n |-> n, exc |-> ""], SubSeq(s, 1, n))

Next == \/ \E v \in Vals : Push(v) \/ Rem(v)
        \/ Pop
        \/ \E v \in Vals, i \in (-(MaxLen + 1))..(MaxLen + 1) : PushAt(v, i) \/ Set(i, v)
        \/ \E i \in (-(MaxLen + 1))..(MaxLen + 1) : PopAt(i) \/ Get(i)
        \/ \E n \in 0..MaxLen : Resize(n)
Spec == Init /\ [][Next]_vars

-----------------------------------------------------------------------------
(* the chain from x along f, as a sequence of nodes (fuel-bounded; a poisoned link ends it with Dead) *)
RECURSIVE Chain(_, _, _)
Chain(f, x, fuel) == IF x = Nil THEN <<>> ELSE IF x \notin Nodes \/ fuel = 0 THEN <<Dead>> ELSE <<x>> \o Chain(f, f[x], fuel - 1)
Fwd == Chain(nxt, head, Cardinality(Nodes) + 1)
Bwd == Chain(prv, tail, Cardinality(Nodes) + 1)
ValsOf(c) == [k \in 1..Len(c) |-> IF c[k] \in Nodes THEN val[c[k]] ELSE Dead]

ForwardOK == ValsOf(Fwd) = s /\ Len(Fwd) = nitems                    \* forward iteration, len, mem, show, hash, mark
BackOK    == ValsOf(Bwd) = Reverse(s)                                \* backward iteration and the far half of List_At
EndsOK    == /\ (nitems = 0) = (head = Nil) /\ (head = Nil) = (tail = Nil)
             /\ (head # Nil => prv[head] = Nil /\ nxt[tail] = Nil)  \* no link leaves the list
FreeOK    == /\ \A n \in Nodes : (n \in free) = (nxt[n] = Dead)     \* every node is either linked or free: none leaked, none used after being freed
             /\ Cardinality(free) + nitems = Cardinality(Nodes)
GetOK == [][(act'.op = "get" /\ act'.exc = "") => act'.r = s[Idx(Len(s), act'.i) + 1]]_vars
FailStutter == [][act'.exc # "" => UNCHANGED <<nxt, prv, val, head, tail, nitems, free, s>>]_vars
ListOK == ForwardOK /\ BackOK /\ EndsOK /\ FreeOK

Sid(q) == <<q, 0>>
EmitEdge == Emit => PrintT(<<"EDGE", ToJson([f |-> Sid(s), a |-> act', t |-> Sid(s')])>>)
=============================================================================
