------------------------------ MODULE SortAbort ------------------------------
(***************************************************************************)
(* Layer I for sorts that are ABORTED by an exception (C04 "sort leaves a  *)
(* permutation of the previous contents", C12): the quicksort of            *)
(* src/Tuple.c / src/Array.c as in module SortImpl, with one value (Odd)    *)
(* whose comparison with anything raises - an element of another type       *)
(* among the others.  The exception unwinds out of the partition scan, so   *)
(* what the container holds is whatever the swaps made so far have left.    *)
(* Checked on every sequence up to MaxLen over Vals \cup {Odd}:             *)
(*   PermAlways   the container holds the same items, raised or not (every  *)
(*                mutation of the unchanged code is a swap);                *)
(*   RaisedIff    the sort raises exactly when Odd is among two or more     *)
(*                elements (every element of a segment meets the pivot);    *)
(*   SortedIfNot  a sort that returns has ordered the container;            *)
(*   Untouched    (C12: the operand as it was) - NOT an invariant of the    *)
(*                unchanged code: SortAbort_untouched.cfg is the model side *)
(*                of the open finding F-C12-aborted-sort-reorders.          *)
(*   HoldAside = TRUE: the pivot is taken out of the container for the      *)
(*   scan and put back afterwards (a seeded change of round 18): an         *)
(*   aborted scan loses it and leaves another item twice - PermAlways fails. *)
(* Bound to the code by 'bad <o> sort_perm' (C04 random Tuple histories)    *)
(* and 'bad <o> sort_mixed' (pinned script of the finding, C12) in h_seq.   *)
(***************************************************************************)
EXTENDS Sequence

CONSTANTS Vals, Odd, MaxLen, HoldAside

F(c, x, y) == CASE c = "lt" -> x < y [] c = "le" -> x <= y [] c = "gt" -> x > y [] c = "ge" -> x >= y
Raises(x, y) == x = Odd \/ y = Odd

At(a, i) == a[i + 1]
Put(a, i, v) == [a EXCEPT ![i + 1] = v]
SwapIdx(a, i, j) == [a EXCEPT ![i + 1] = a[j + 1], ![j + 1] = a[i + 1]]

(* the scan: i runs from l to r-1 comparing with the pivot pv; returns [a, s, raised] *)
RECURSIVE Scan(_, _, _, _, _, _)
Scan(a, i, s, r, pv, c) ==
  IF i >= r THEN [a |-> a, s |-> s, raised |-> FALSE]
  ELSE IF Raises(At(a, i), pv) THEN [a |-> a, s |-> s, raised |-> TRUE]            \* f(items[i], pivot) throws: nothing after it runs
  ELSE IF F(c, At(a, i), pv) THEN Scan(SwapIdx(a, i, s), i + 1, s + 1, r, pv, c) ELSE Scan(a, i + 1, s, r, pv, c)

Partition(a, l, r, c) ==
  LET p == l + (r - l) \div 2 IN
  IF ~HoldAside
  THEN LET a1 == SwapIdx(a, p, r)
           sc == Scan(a1, l, l, r, At(a1, r), c)
       IN IF sc.raised THEN [a |-> sc.a, s |-> sc.s, raised |-> TRUE]
          ELSE [a |-> SwapIdx(sc.a, sc.s, r), s |-> sc.s, raised |-> FALSE]
  ELSE LET pv == At(a, p)
           a1 == Put(a, p, At(a, r))                                                 \* the pivot is only in a local variable now
           sc == Scan(a1, l, l, r, pv, c)
       IN IF sc.raised THEN [a |-> sc.a, s |-> sc.s, raised |-> TRUE]
          ELSE [a |-> Put(Put(sc.a, r, At(sc.a, sc.s)), sc.s, pv), s |-> sc.s, raised |-> FALSE]

RECURSIVE QSort(_, _, _, _)
QSort(a, l, r, c) ==            \* returns [a, raised]
  IF l < r
  THEN LET pt == Partition(a, l, r, c) IN
       IF pt.raised THEN [a |-> pt.a, raised |-> TRUE]
       ELSE LET left == QSort(pt.a, l, pt.s - 1, c) IN
            IF left.raised THEN left
            ELSE QSort(left.a, pt.s + 1, r, c)
  ELSE [a |-> a, raised |-> FALSE]

SortBy(a, c) == IF Len(a) = 0 THEN [a |-> a, raised |-> FALSE] ELSE QSort(a, 0, Len(a) - 1, c)
Ordered(a, c) == \A p \in 1..(Len(a) - 1) : F(c, a[p], a[p + 1]) \/ a[p] = a[p + 1]

-----------------------------------------------------------------------------
VARIABLES inp, cmpf, out, done
vars == <<inp, cmpf, out, done>>
AllSeqs == UNION {[1..n -> Vals \cup {Odd}] : n \in 0..MaxLen}
Init == inp \in AllSeqs /\ cmpf \in {"lt", "le", "gt", "ge"} /\ out = [a |-> <<>>, raised |-> FALSE] /\ done = FALSE
Run == ~done /\ done' = TRUE /\ out' = SortBy(inp, cmpf) /\ UNCHANGED <<inp, cmpf>>
Spec == Init /\ [][Run]_vars

HasOdd == \E k \in 1..Len(inp) : inp[k] = Odd
PermAlways  == done => IsPerm(inp, out.a)
RaisedIff   == done => (out.raised <=> (HasOdd /\ Len(inp) >= 2))
SortedIfNot == (done /\ ~out.raised) => Ordered(out.a, cmpf)
Untouched   == (done /\ out.raised) => out.a = inp
=============================================================================
