----------------------------- MODULE HeapTrace -----------------------------
(***************************************************************************)
(* Trace validation for the collector (C01, C06, C17).  h_gc logs one      *)
(* event per mutator operation; the abstract heap (objects, labelled       *)
(* edges, stack slots, TLS entries, Box ownership) lives in this spec's    *)
(* variables and is updated from the operation alone.  What the library    *)
(* did is judged against it:                                               *)
(*   Mode "reach" (C01): nothing that left the registry by a sweep was     *)
(*        reachable (from stack slots, TLS, root-registered objects,       *)
(*        through managed objects) - loss through an owning Box excepted   *)
(*   Mode "final" (C06): destructors run at most once per object, an       *)
(*        explicit del finalises at once, teardown finalises the rest      *)
(*   Mode "reg"   (C17): the registry (white-box dump and mem()) is        *)
(*        exactly the live managed objects with their root flags, counted  *)
(*        right, no marks left, no duplicate                               *)
(* The collector may retain garbage (conservative scanning): never an      *)
(* alarm.  Aspects not judged in a mode are adopted from the log.          *)
(***************************************************************************)
EXTENDS Integers, Sequences, FiniteSets, TLC, Json, IOUtils

CONSTANT Mode

T == ndJsonDeserialize(IOEnv.TRACE)

VARIABLES l,
          ob,       \* ob[id] = [kind, mode, live]   kind: 1 Node 2 ANode 3 Ref 4 Box 5 Array 6 List 7 Tuple 8 Table 9 TableK 10 Tree 11 TreeK
          ed,       \* set of edges <<src, label, dst>>
          stk, tls, \* slot -> id, key -> id
          boxof,    \* pointee -> owning Box
          fins      \* Node ids whose destructor has run
vars == <<l, ob, ed, stk, tls, boxof, fins>>

EmptyF == [x \in {} |-> 0]
With(f, k, v) == [y \in (DOMAIN f) \cup {k} |-> IF y = k THEN v ELSE f[y]]
Without(f, k) == [y \in (DOMAIN f) \ {k} |-> f[y]]
ToSet(s) == {s[i] : i \in 1..Len(s)}
Rng(f) == {f[x] : x \in DOMAIN f}

IsEv(op) == l <= Len(T) /\ T[l].op = op /\ l' = l + 1
E == T[l]

LiveIds(o) == {i \in DOMAIN o : o[i].live}
Managed(o) == {i \in LiveIds(o) : o[i].mode # 2}                 \* std or root: what the registry must hold
RootIds(o) == {i \in LiveIds(o) : o[i].mode = 1}

RECURSIVE Reach(_, _, _, _)
Reach(S, seen, edges, via) ==
  LET nxt == {e[3] : e \in {x \in edges : x[1] \in S /\ x[1] \in via}} \ seen
  IN IF nxt = {} THEN seen ELSE Reach(nxt, seen \cup nxt, edges, via)

Reachable(o, edges, s, t) ==
  LET r == ((Rng(s) \cup Rng(t)) \ {0}) \cup RootIds(o)
  IN Reach(r, r, edges, Managed(o)) \cap Managed(o)

(* objects lost through ownership: their Box went in this step (swept, deleted) or earlier *)
RECURSIVE OwnedClosure(_, _)
OwnedClosure(S, bx) == LET nxt == {p \in DOMAIN bx : bx[p] \in S} \ S IN IF nxt = {} THEN S ELSE OwnedClosure(S \cup nxt, bx)

Gone(o, S) == [i \in DOMAIN o |-> IF i \in S THEN [o[i] EXCEPT !.live = FALSE] ELSE o[i]]
Clean(f, S) == [k \in {x \in DOMAIN f : f[x] \notin S} |-> f[k]]

(* the common part of every step: what the log says left the registry / was finalised *)
SweptSet == ToSet(E.swept)
FinSet   == ToSet(E.fin)

(* C01: oPost/edPost/sPost/tPost = the heap after the operation's own mutation, BEFORE anything is taken away.    *)
(* A threshold collection can fire in the middle of an allocating call, so an object counts as reachable for *)
(* the verdict only if it is reachable both before and after the mutation.                                   *)
ReachOK(oPre, edPre, sPre, tPre, oPost, edPost, sPost, tPost) ==
  LET (* objects that die with their owner: their Box went in this step or earlier.  They are not judged themselves, and -  *)
      (* because one logged operation may contain several collections (allocation churn) - nothing counts as reachable     *)
      (* merely THROUGH them: once the owner is gone they are gone, and a later collection of the same operation may      *)
      (* rightly take what only they referred to                                                                          *)
      exempt == {p \in SweptSet : p \in DOMAIN boxof /\ (boxof[p] \in SweptSet \/ ~oPre[boxof[p]].live)}
      judged == SweptSet \ exempt
      bad == judged \cap Reachable(Gone(oPre, exempt), edPre, sPre, tPre) \cap Reachable(Gone(oPost, exempt \cap DOMAIN oPost), edPost, sPost, tPost)
  IN IF bad = {} THEN TRUE ELSE PrintT(<<"REACHABLE-BUT-SWEPT", l, bad>>) /\ FALSE

(* C06 *)
FinalOK(oPre, deleted) ==
  /\ \A i \in 1..Len(E.fin) : E.fin[i] > 0 /\ E.fin[i] \in DOMAIN oPre /\ E.fin[i] \notin fins        \* at most once, and a real Node
  /\ Cardinality(FinSet) = Len(E.fin)
  /\ \A d \in deleted : (oPre[d].kind \in {1, 2} /\ oPre[d].live) => d \in FinSet                     \* del finalises, now
  /\ \A x \in SweptSet : oPre[x].kind \in {1, 2} => x \in FinSet                                      \* a reclaimed Node was destructed

(* C17 *)
RegOK(oPost) ==
  /\ E.dup = 0 /\ E.unknown = 0 /\ E.marks = 0 /\ E.deadmem = 0
  /\ (E.nitems >= 0 => (ToSet(E.reg) = Managed(oPost) /\ Len(E.reg) = Cardinality(Managed(oPost))
                        /\ ToSet(E.regroot) = RootIds(oPost)
                        /\ E.nitems = Len(E.reg) + E.njunk))
  /\ ToSet(E.memreg) = Managed(oPost)

Judge(oPre, edPre, sPre, tPre, oPost, edPost, sPost, tPost, deleted) ==
  CASE Mode = "reach" -> ReachOK(oPre, edPre, sPre, tPre, oPost, edPost, sPost, tPost)
    [] Mode = "final" -> FinalOK(oPre, deleted)
    [] Mode = "reg"   -> RegOK(oPost)
    [] OTHER -> FALSE

(* one step: mutation (o2, ed2, s2, t2 = the state the operation itself produces), then whatever a collection took *)
Step(o2, ed2, s2, t2, bx2, deleted) ==
  LET lost == OwnedClosure(SweptSet \cup deleted, bx2) \cup (IF Mode = "final" THEN {} ELSE {})
      o3 == Gone(o2, lost)
  IN /\ E.exc = ""
     /\ Judge(ob, ed, stk, tls, IF Mode = "reach" THEN o2 ELSE o3, ed2, s2, t2, deleted)
     /\ ob' = o3
     /\ ed' = {e \in ed2 : e[1] \notin lost}
     /\ stk' = [k \in DOMAIN s2 |-> IF s2[k] \in lost THEN 0 ELSE s2[k]]
     /\ tls' = Clean(t2, lost)
     /\ boxof' = Clean([p \in (DOMAIN bx2) \ lost |-> bx2[p]], lost)
     /\ fins' = fins \cup FinSet

Same(deleted) == Step(ob, ed, stk, tls, boxof, deleted)

Labels(c) == {e[2] : e \in {x \in ed : x[1] = c}}
NextLabel(c) == IF Labels(c) = {} THEN 0 ELSE (CHOOSE m \in Labels(c) : \A k \in Labels(c) : k <= m) + 1
DropLabel(c, lb) == {e \in ed : ~(e[1] = c /\ e[2] = lb)}

-----------------------------------------------------------------------------
Init == l = 1 /\ ob = EmptyF /\ ed = {} /\ stk = [k \in 0..31 |-> 0] /\ tls = EmptyF /\ boxof = EmptyF /\ fins = {}

Reset == IsEv("reset") /\ ob' = EmptyF /\ ed' = {} /\ stk' = [k \in 0..31 |-> 0] /\ tls' = EmptyF /\ boxof' = EmptyF /\ fins' = {}
End   == IsEv("end") /\ UNCHANGED <<ob, ed, stk, tls, boxof, fins>>

New == /\ IsEv("new")
       /\ LET o2 == With(ob, E.a, [kind |-> E.b, mode |-> E.c, live |-> TRUE])
              e2 == IF E.b = 4 THEN ed \cup {<<E.a, 0, E.d>>} ELSE ed
              b2 == IF E.b = 4 THEN With(boxof, E.d, E.a) ELSE boxof
          IN Step(o2, e2, [stk EXCEPT ![0] = E.a], tls, b2, {})        \* the mutator holds the fresh object (slot 0)

(* a Ref filled outside the collector and then registered through set(gc, holder, root flag): managed from that call on *)
Adopt == /\ IsEv("adopt")
         /\ LET o2 == With(ob, E.a, [kind |-> 3, mode |-> E.c, live |-> TRUE])
                s2 == [k \in DOMAIN stk |-> IF k = E.d THEN E.a ELSE IF stk[k] = E.b THEN 0 ELSE stk[k]]
            IN Step(o2, ed \cup {<<E.a, 0, E.b>>}, s2, tls, boxof, {})

Link == IsEv("link") /\ LET e1 == DropLabel(E.a, IF ob[E.a].kind = 3 THEN 0 ELSE E.b)
                            lb == IF ob[E.a].kind = 3 THEN 0 ELSE E.b
                        IN Step(ob, IF E.c = 0 THEN e1 ELSE e1 \cup {<<E.a, lb, E.c>>}, stk, tls, boxof, {})
CPush == IsEv("cpush") /\ Step(ob, ed \cup {<<E.a, NextLabel(E.a), E.b>>}, stk, tls, boxof, {})
CPop == IsEv("cpop") /\ Step(ob, DropLabel(E.a, NextLabel(E.a) - 1), stk, tls, boxof, {})
CSet == IsEv("cset") /\ Step(ob, DropLabel(E.a, E.b) \cup {<<E.a, E.b, E.c>>}, stk, tls, boxof, {})
CRem == IsEv("crem") /\ Step(ob, DropLabel(E.a, E.b), stk, tls, boxof, {})
KSet == IsEv("kset") /\ Step(ob, DropLabel(E.a, E.b) \cup {<<E.a, E.b, E.b>>}, stk, tls, boxof, {})     \* label = the referenced id
KRem == IsEv("krem") /\ Step(ob, DropLabel(E.a, E.b), stk, tls, boxof, {})
Root == IsEv("root") /\ Step(ob, ed, [stk EXCEPT ![E.a] = E.b], tls, boxof, {})
Tls == IsEv("tls") /\ Step(ob, ed, stk, With(tls, E.a, E.b), boxof, {})
UnTls == IsEv("untls") /\ Step(ob, ed, stk, Without(tls, E.a), boxof, {})
Del == IsEv("del") /\ Step(ob, ed, [k \in DOMAIN stk |-> IF stk[k] = E.a THEN 0 ELSE stk[k]], tls, boxof, {E.a})
Collect == IsEv("collect") /\ Same({})
StopStart == (IsEv("stop") \/ IsEv("start")) /\ Same({})

(* a long chain hanging from one stack slot: while it is rooted a collection returns and keeps every link; *)
(* afterwards the collector may reclaim it (or not)                                                        *)
Chain == /\ IsEv("chain") /\ E.exc = ""
         /\ (E.rooted = 1 => E.kept = E.n)
         /\ E.kept <= E.n
         /\ UNCHANGED <<ob, ed, stk, tls, boxof, fins>>

(* thousands of objects, a fraction of them reachable from a rooted Array of Ref: while rooted none of those is lost,  *)
(* nothing is ever finalised twice, and nothing leaves the registry without being finalised                           *)
Bulk == /\ IsEv("bulk") /\ E.exc = ""
        /\ E.lost = 0 /\ E.twice = 0 /\ E.stale = 0
        /\ UNCHANGED <<ob, ed, stk, tls, boxof, fins>>

(* after Cello_Exit: teardown finalised every managed Node that was still there; nothing twice *)
Exit == /\ IsEv("exit")
        /\ (Mode = "final" =>
              /\ E.twice = <<>> /\ E.bulknever = 0 /\ E.bulktwice = 0
              /\ E.owndealloc = E.ownfin                 \* objects of a type with its own allocator: released through it, once per finalisation
              /\ \A i \in 1..Len(E.fin) : E.fin[i] > 0 /\ E.fin[i] \notin fins
              /\ ToSet(E.never) \subseteq {i \in DOMAIN ob : ob[i].mode # 0 /\ ob[i].live}      \* only undeleted root / raw objects may remain
              /\ \A i \in LiveIds(ob) : (ob[i].mode = 0 /\ ob[i].kind \in {1, 2}) => i \in ToSet(E.fin))
        /\ UNCHANGED <<ob, ed, stk, tls, boxof, fins>>

Next == \/ Reset \/ End \/ New \/ Adopt \/ Link \/ CPush \/ CPop \/ CSet \/ CRem \/ KSet \/ KRem \/ Root \/ Tls \/ UnTls
        \/ Del \/ Collect \/ StopStart \/ Chain \/ Bulk \/ Exit
Spec == Init /\ [][Next]_vars

Accepted == LET d == TLCGet("stats").diameter IN
            /\ PrintT(<<"TRACE_MATCHED", d - 1, Len(T)>>)
            /\ d - 1 = Len(T)
=============================================================================
