------------------------------- MODULE Escapes -------------------------------
(***************************************************************************)
(* The escape table of String_Show (src/String.c): what show writes for a  *)
(* String - a quoted literal, eleven characters written as backslash +     *)
(* letter, every other byte as itself.  Shared by Codec (the exhaustive    *)
(* round-trip model) and FmtTrace (the text the real show wrote).          *)
(***************************************************************************)
EXTENDS Integers, Sequences, FiniteSets, TLC

(* byte values *)
Q == 34  BS == 92  APOS == 39  QM == 63
Esc == [x \in {7, 8, 12, 10, 13, 9, 11, BS, APOS, Q, QM} |->
          CASE x = 7 -> 97 [] x = 8 -> 98 [] x = 12 -> 102 [] x = 10 -> 110 [] x = 13 -> 114 [] x = 9 -> 116 [] x = 11 -> 118
            [] x = BS -> BS [] x = APOS -> APOS [] x = Q -> Q [] x = QM -> QM]
UnEsc(c) == IF \E x \in DOMAIN Esc : Esc[x] = c THEN CHOOSE x \in DOMAIN Esc : Esc[x] = c ELSE -1

RECURSIVE EncBody(_)
EncBody(s) == IF s = <<>> THEN <<>>
              ELSE (IF Head(s) \in DOMAIN Esc THEN <<BS, Esc[Head(s)]>> ELSE <<Head(s)>>) \o EncBody(Tail(s))
Enc(s) == <<Q>> \o EncBody(s) \o <<Q>>

=============================================================================
