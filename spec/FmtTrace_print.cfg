SPECIFICATION Spec
CONSTANT Mode = "print"
POSTCONDITION Accepted
CHECK_DEADLOCK FALSE
