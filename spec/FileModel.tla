------------------------------ MODULE FileModel ------------------------------
(***************************************************************************)
(* Exhaustive model for C20: all orders of open / write / read / seek /    *)
(* tell / eof / flush / close / del over one File object, two paths, small *)
(* chunk sizes; reopen without close, close twice, use after close.        *)
(* Invariants: a closed File refuses everything with IOError and nothing   *)
(* changes; streams opened = streams closed + (1 if open); what is read is  *)
(* what the disk holds at that position.                                    *)
(***************************************************************************)
EXTENDS FileStream, Json

CONSTANTS Paths, Chunks, MaxSteps, MaxFile, Emit, Modes

VARIABLES h, disk, opens, closes, last, steps, act
vars == <<h, disk, opens, closes, last, steps, act>>
view == <<h, disk, opens, closes, last, steps>>

Tick(a) == steps < MaxSteps /\ steps' = steps + 1 /\ act' = a
Init == h = Closed /\ disk = [p \in Paths |-> <<>>] /\ opens = 0 /\ closes = 0 /\ last = [r |-> 0, exc |-> "", data |-> <<>>] /\ steps = 0 /\ act = [op |-> "init"]
Res(r, e, d) == last' = [r |-> r, exc |-> e, data |-> d]
Refuse(a) == Tick(a) /\ Res(0, "IOError", <<>>) /\ UNCHANGED <<h, disk, opens, closes>>

Open(p, m) == /\ Tick([op |-> "open", path |-> p, mode |-> m])
              /\ closes' = IF h.open THEN closes + 1 ELSE closes                 \* reopening closes the old stream first
              /\ opens' = opens + 1                                                \* (files always exist here: both paths are on the disk)
              /\ disk' = IF Truncates(m) THEN [disk EXCEPT ![p] = <<>>] ELSE disk
              /\ h' = OpenedAt(p, m, IF Truncates(m) THEN <<>> ELSE disk[p])
              /\ Res(0, "", <<>>)
(* an open that fails (path 9: a directory that does not exist): IOError; the stream that was open is closed, once, and the
   File is closed afterwards - it does not keep the handle it has just given back *)
OpenFail(m) == /\ Tick([op |-> "open", path |-> 9, mode |-> m])
               /\ closes' = IF h.open THEN closes + 1 ELSE closes
               /\ h' = Closed /\ Res(0, "IOError", <<>>) /\ UNCHANGED <<disk, opens>>
Write(seed, n) == LET a == [op |-> "write", seed |-> seed, n |-> n] IN
  IF ~h.open \/ (~h.wr /\ n > 0) THEN Refuse(a)
  ELSE /\ Tick(a) /\ Len(disk[h.path]) + n <= MaxFile
       /\ disk' = [disk EXCEPT ![h.path] = Overwrite(@, WritePos(h, @), Pattern(seed, n))]
       /\ h' = [h EXCEPT !.pos = (IF n = 0 THEN @ ELSE WritePos(h, disk[h.path]) + n)] /\ Res(IF n = 0 THEN 0 ELSE 1, "", <<>>) /\ UNCHANGED <<opens, closes>>
Read(n) == LET a == [op |-> "read", n |-> n] IN
  IF ~h.open THEN Refuse(a)
  ELSE /\ Tick(a) /\ h.rd
       /\ LET c == disk[h.path] av == Avail(h, c) IN
          IF n = 0 THEN Res(0, "", <<>>) /\ UNCHANGED h
          ELSE IF av >= n THEN Res(1, "", SubSeq(c, h.pos + 1, h.pos + n)) /\ h' = [h EXCEPT !.pos = @ + n]
          ELSE Res(0, "", SubSeq(c, h.pos + 1, Len(c))) /\ h' = [h EXCEPT !.pos = Len(c), !.eof = TRUE]     \* short read: what there is, eof set
       /\ UNCHANGED <<disk, opens, closes>>
Seek(off, origin) == LET a == [op |-> "seek", off |-> off, origin |-> origin] IN
  IF ~h.open THEN Refuse(a)
  ELSE LET t == SeekTarget(h, disk[h.path], off, origin) IN
       /\ t >= 0 /\ t <= Len(disk[h.path]) /\ Tick(a)
       /\ h' = [h EXCEPT !.pos = t, !.eof = FALSE] /\ Res(0, "", <<>>) /\ UNCHANGED <<disk, opens, closes>>
Tell == IF ~h.open THEN Refuse([op |-> "tell"]) ELSE Tick([op |-> "tell"]) /\ Res(h.pos, "", <<>>) /\ UNCHANGED <<h, disk, opens, closes>>
Eof == IF ~h.open THEN Refuse([op |-> "eof"]) ELSE Tick([op |-> "eof"]) /\ Res(IF h.eof THEN 1 ELSE 0, "", <<>>) /\ UNCHANGED <<h, disk, opens, closes>>
Flush == IF ~h.open THEN Refuse([op |-> "flush"]) ELSE Tick([op |-> "flush"]) /\ Res(0, "", <<>>) /\ UNCHANGED <<h, disk, opens, closes>>
Close == IF ~h.open THEN Refuse([op |-> "close"])
         ELSE Tick([op |-> "close"]) /\ h' = Closed /\ closes' = closes + 1 /\ Res(0, "", <<>>) /\ UNCHANGED <<disk, opens>>

Next == \/ \E p \in Paths, m \in Modes : Open(p, m)
        \/ \E m \in {1, 4} \cap Modes : OpenFail(m)
        \/ \E n \in Chunks, sd \in {1, 2} : Write(sd, n)
        \/ \E n \in Chunks : Read(n)
        \/ \E off \in -3..3, o \in 0..2 : Seek(off, o)
        \/ Tell \/ Eof \/ Flush \/ Close
Spec == Init /\ [][Next]_vars

Balanced == closes + (IF h.open THEN 1 ELSE 0) = opens /\ closes <= opens          \* each stream closed exactly once
ClosedRefuses == [][(~h.open /\ act'.op # "open") => (last'.exc = "IOError" /\ disk' = disk /\ h' = h)]_vars
ReadsDisk == [][(act'.op = "read" /\ last'.exc = "") =>
                  last'.data = SubSeq(disk[h.path], h.pos + 1, h.pos + Len(last'.data))]_vars
PosOK == h.open => (h.pos >= 0 /\ h.pos <= Len(disk[h.path]))
FileOK == Balanced /\ PosOK

EmitEdge == Emit => PrintT(<<"EDGE", ToJson([f |-> <<h, disk, steps>>, a |-> act', t |-> <<h', disk', steps'>>])>>)
=============================================================================
