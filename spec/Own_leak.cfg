SPECIFICATION Spec
CONSTANTS
  Conts = {c1, c2}
  MaxSerial = 6
  MaxHeld = 3
  LeakOnRefusedInsert = TRUE
  OrphanOnReplace = FALSE
INVARIANT OwnershipOK
PROPERTY RetireMonotone
