SPECIFICATION Spec
CONSTANTS
  Kinds = {"A", "B", "C"}
  MaxNest = 3
  MaxSteps = 10
  ObjKeptInCatch = TRUE
  ObjAfterMsg = TRUE
  ClearActive = TRUE
  FilterTry = "off"
  Emit = FALSE
VIEW view
INVARIANT ExcOK
ACTION_CONSTRAINT EmitEdge
