------------------------------- MODULE Values -------------------------------
(***************************************************************************)
(* C09 / C10: reference order and equality of Cello values, computed from  *)
(* their raw representations only (the harness logs operands as limbs and  *)
(* bytes and never uses Cello's own cmp / eq / hash to describe them).     *)
(*   <<"I", <<l1,l2,l3,l4>>>>   int64 as four 16-bit limbs, top limb signed *)
(*   <<"F", <<l1,l2,l3,l4>>>>   IEEE-754 double bit pattern, same limb form *)
(*   <<"S", bytes>> <<"Y", bytes>> <<"X", bytes>>   String, Type (by name), plain struct *)
(*   <<"seq", <<elems>>>>        Array / List / Tuple (kind does not matter) *)
(*   <<"tree", <<pairs>>>>       Tree in iteration order;  <<"table", <<pairs>>>> *)
(***************************************************************************)
EXTENDS Integers, Sequences, FiniteSets, TLC

Sign(x) == IF x < 0 THEN -1 ELSE IF x > 0 THEN 1 ELSE 0

RECURSIVE LexCmp(_, _)              \* lexicographic on sequences of integers; a proper prefix is smaller
LexCmp(a, b) == IF a = <<>> /\ b = <<>> THEN 0 ELSE IF a = <<>> THEN -1 ELSE IF b = <<>> THEN 1
                ELSE IF Head(a) < Head(b) THEN -1 ELSE IF Head(a) > Head(b) THEN 1 ELSE LexCmp(Tail(a), Tail(b))

IntCmp(a, b) == LexCmp(a, b)                    \* top limb signed, the rest unsigned: numeric order of int64

(* doubles: sign / magnitude from the bit pattern; +0 = -0; infinities are ordinary extremes; NaN is excluded *)
Top(l) == IF l[1] < 0 THEN l[1] + 65536 ELSE l[1]
Neg(l) == Top(l) >= 32768
Mag(l) == <<Top(l) % 32768, l[2], l[3], l[4]>>
IsZero(l) == Mag(l) = <<0, 0, 0, 0>>
IsNaN(l) == LET m == Mag(l) IN m[1] >= 32752 /\ (m[1] > 32752 \/ m[2] # 0 \/ m[3] # 0 \/ m[4] # 0)     \* exponent all ones, fraction not zero
FloatCmp(a, b) ==                                  \* NaN (outside C09's statement) is equal to NaN only and above every number
  IF IsNaN(a) \/ IsNaN(b) THEN (IF IsNaN(a) THEN 1 ELSE 0) - (IF IsNaN(b) THEN 1 ELSE 0)
  ELSE IF IsZero(a) /\ IsZero(b) THEN 0
  ELSE IF Neg(a) /\ ~Neg(b) THEN -1 ELSE IF ~Neg(a) /\ Neg(b) THEN 1
  ELSE IF ~Neg(a) THEN LexCmp(Mag(a), Mag(b)) ELSE LexCmp(Mag(b), Mag(a))
FloatNorm(l) == IF IsZero(l) THEN <<0, 0, 0, 0>> ELSE IF IsNaN(l) THEN <<32760, 0, 0, 0>> ELSE l       \* one zero, one NaN

RECURSIVE RefCmp(_, _)
RECURSIVE SeqCmp(_, _)
RefCmp(a, b) ==
  CASE a[1] = "I" -> IntCmp(a[2], b[2])
    [] a[1] = "F" -> FloatCmp(a[2], b[2])
    [] a[1] \in {"S", "Y", "X"} -> LexCmp(a[2], b[2])          \* strcmp / memcmp: unsigned bytes
    [] a[1] = "seq" -> SeqCmp(a[2], b[2])
    [] a[1] = "tree" -> SeqCmp(a[2], b[2])                      \* pairs <<"seq", <<k, v>>>>: key, then value
SeqCmp(s, t) == IF s = <<>> /\ t = <<>> THEN 0 ELSE IF s = <<>> THEN -1 ELSE IF t = <<>> THEN 1
                ELSE LET c == RefCmp(Head(s), Head(t)) IN IF c # 0 THEN c ELSE SeqCmp(Tail(s), Tail(t))

(* the abstract value: what eq and hash may depend on *)
RECURSIVE Abs(_)
Abs(v) == CASE v[1] = "F" -> <<"F", FloatNorm(v[2])>>
            [] v[1] = "seq" -> <<"seq", [i \in 1..Len(v[2]) |-> Abs(v[2][i])]>>
            [] v[1] = "tree" -> <<"map", {Abs(v[2][i]) : i \in 1..Len(v[2])}>>
            [] v[1] = "table" -> <<"map", {Abs(v[2][i]) : i \in 1..Len(v[2])}>>
            [] OTHER -> v

(* laws of the reference order on a finite sample (checked by TLC in ValuesMC) *)
TotalOrderOn(S) == /\ \A a \in S : RefCmp(a, a) = 0
                   /\ \A a, b \in S : RefCmp(a, b) = -RefCmp(b, a)
                   /\ \A a, b, c \in S : (RefCmp(a, b) <= 0 /\ RefCmp(b, c) <= 0) => RefCmp(a, c) <= 0
                   /\ \A a, b \in S : RefCmp(a, b) = 0 => Abs(a) = Abs(b)
=============================================================================
