------------------------------ MODULE Sequence ------------------------------
(***************************************************************************)
(* Layer A for C04: what Array, List and Tuple are - finite sequences of   *)
(* values - and the meaning of every operation on them.  Pure operators    *)
(* (no variables): used by the exhaustive model SeqModel and by the trace  *)
(* specification SeqTrace.  Where the three kinds differ, the difference   *)
(* is spelled out by kind rather than hidden.                              *)
(*                                                                         *)
(* Indices: a negative index i addresses position len+i.  Positions are    *)
(* 0-based as in the API; TLA+ sequences are 1-based.                      *)
(***************************************************************************)
EXTENDS Integers, Sequences, FiniteSets, TLC

Norm(i, n) == IF i < 0 THEN n + i ELSE i

(* 0-based position addressed by index i in a sequence of length n, or -1 *)
Idx(n, i) == LET j == Norm(i, n) IN IF j >= 0 /\ j < n THEN j ELSE -1

(* where push_at(v, i) inserts: 0-based position, or -1 if the index is refused.       *)
(*   Array: the index is normalised against the NEW length, so 0..len are valid and     *)
(*          -1 appends;                                                                  *)
(*   List:  0 prepends (also to an empty list); otherwise the index must address an      *)
(*          existing element and the new one goes in front of it;                        *)
(*   Tuple: the index must address an existing element.                                  *)
PushAtPos(kind, n, i) ==
  CASE kind = "Array" -> Idx(n + 1, i)
    [] kind = "List"  -> IF i = 0 THEN 0 ELSE Idx(n, i)
    [] kind = "Tuple" -> Idx(n, i)

InsertAt(s, p, v) == SubSeq(s, 1, p) \o <<v>> \o SubSeq(s, p + 1, Len(s))       \* p = 0-based position
RemoveAt(s, p)    == SubSeq(s, 1, p) \o SubSeq(s, p + 2, Len(s))
ReplaceAt(s, p, v) == [s EXCEPT ![p + 1] = v]

(* 1-based position of the first element equal to v, 0 if there is none *)
FirstPos(s, v) == IF \E p \in 1..Len(s) : s[p] = v
                  THEN CHOOSE p \in 1..Len(s) : s[p] = v /\ \A q \in 1..(p - 1) : s[q] # v
                  ELSE 0
RemFirst(s, v) == RemoveAt(s, FirstPos(s, v) - 1)
Mem(s, v) == \E p \in 1..Len(s) : s[p] = v

(* sort: THE sorted permutation (values are tokens ordered like the concrete values) *)
Count(s, v) == Cardinality({p \in 1..Len(s) : s[p] = v})
IsSorted(s) == \A p \in 1..(Len(s) - 1) : s[p] <= s[p + 1]
IsPerm(s, t) == Len(s) = Len(t) /\ \A p \in 1..Len(s) : Count(s, s[p]) = Count(t, s[p])
RECURSIVE InsertSorted(_, _)
InsertSorted(s, v) == IF s = <<>> THEN <<v>>
                      ELSE IF v <= Head(s) THEN <<v>> \o s ELSE <<Head(s)>> \o InsertSorted(Tail(s), v)
RECURSIVE Sorted(_)
Sorted(s) == IF s = <<>> THEN <<>> ELSE InsertSorted(Sorted(Tail(s)), Head(s))

(* resize(n): [ok, s]; ok = FALSE means FormatError.  zero = the value a zero-filled element has *)
Rep(v, k) == [x \in 1..k |-> v]
Resized(kind, s, n, zero) ==
  CASE kind = "Array" -> [ok |-> TRUE, s |-> IF n < Len(s) THEN SubSeq(s, 1, n) ELSE s]        \* growing only reserves
    [] kind = "List"  -> [ok |-> TRUE, s |-> IF n < Len(s) THEN SubSeq(s, 1, n) ELSE s \o Rep(zero, n - Len(s))]
    [] kind = "Tuple" -> IF n < Len(s) THEN [ok |-> TRUE, s |-> SubSeq(s, 1, n)] ELSE [ok |-> FALSE, s |-> s]

Reverse(s) == [p \in 1..Len(s) |-> s[Len(s) - p + 1]]
=============================================================================
