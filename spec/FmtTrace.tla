------------------------------ MODULE FmtTrace ------------------------------
(***************************************************************************)
(* C14 (Mode "print"): print_to composes its output from the segments of   *)
(* the format string, left to right, one argument per conversion or %$:    *)
(*   output = destination up to the start position, then the renderings;   *)
(*   returned position = start + characters written;                       *)
(*   too few arguments: FormatError, and exactly the segments before the   *)
(*   first conversion without an argument have been written.               *)
(* The rendering of one conversion is an uninterpreted function supplied   *)
(* by the log (snprintf with the same specification and value; show_to for *)
(* %$); String and File sinks get identical bytes.                         *)
(* C15 (Mode "round"): text written by show / print is read back by look / *)
(* scan into the value the text denotes, consuming exactly what was        *)
(* written.                                                                *)
(***************************************************************************)
EXTENDS Escapes, Json, IOUtils

CONSTANT Mode
T == ndJsonDeserialize(IOEnv.TRACE)
VARIABLE l
IsEv(op) == l <= Len(T) /\ T[l].op = op /\ l' = l + 1
E == T[l]

RECURSIVE Flat(_, _)
Flat(parts, k) == IF k = 0 THEN <<>> ELSE Flat(parts, k - 1) \o parts[k]

(* number of segments written before the conversion that finds no argument *)
RECURSIVE Before(_, _, _)
Before(isconv, i, argsLeft) ==
  IF i > Len(isconv) THEN Len(isconv)
  ELSE IF isconv[i] = 1 THEN (IF argsLeft = 0 THEN i - 1 ELSE Before(isconv, i + 1, argsLeft - 1))
  ELSE Before(isconv, i + 1, argsLeft)

Dest(sink, pre, start, text, touched) ==
  IF sink = "F" THEN pre \o text                                   \* a File writes at its own position
  ELSE IF ~touched \/ start > Len(pre) THEN pre                    \* nothing formatted, or beyond the terminator: the visible string stays
  ELSE SubSeq(pre, 1, start) \o text

Init == l = 1
Plain == IsEv("reset") \/ IsEv("end")
PrintEv ==
  /\ IsEv("print")
  /\ (Mode = "print" => E.showbad = 0)     \* %$ of a container: its elements' own show texts, each once, in iteration order
  /\ Mode = "print" =>
       IF E.nargs >= E.nconv
       THEN LET text == Flat(E.parts, Len(E.parts)) IN
            /\ E.exc = ""
            /\ E.ret = E.start + Len(text)                          \* start position + characters written
            /\ E.out = Dest(E.sink, E.pre, E.start, text, Len(E.parts) > 0)
       ELSE LET k == Before(E.isconv, 1, E.nargs)
                text == Flat(E.parts, k) IN
            /\ E.exc = "FormatError"                                \* too few arguments
            /\ E.out = Dest(E.sink, E.pre, E.start, text, k > 0)
Round ==
  /\ IsEv("round")
  /\ Mode = "round" =>
       /\ E.exc = ""
       /\ E.consumed = E.wrote /\ E.wrote = Len(E.text)            \* exactly the characters that were written
       /\ E.back = E.denoted                                        \* the value the text denotes ...
       /\ (E.kind \in {"I", "S"} => E.back = E.v)                   \* ... which for Int and String is the value itself
       /\ ((E.kind = "S" /\ E.via = "show") => E.text = Enc(E.v))               \* a String is shown as the quoted literal of the escape table
       /\ ((E.kind = "S" /\ E.via = "stdio") => E.text = Enc(E.v) \o <<10>>)   \* (println: the literal and a line end)
Next == Plain \/ PrintEv \/ Round
Spec == Init /\ [][Next]_l
Accepted == LET d == TLCGet("stats").diameter IN
            /\ PrintT(<<"TRACE_MATCHED", d - 1, Len(T)>>)
            /\ d - 1 = Len(T)
=============================================================================
