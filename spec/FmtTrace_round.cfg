SPECIFICATION Spec
CONSTANT Mode = "round"
POSTCONDITION Accepted
CHECK_DEADLOCK FALSE
