------------------------------ MODULE Ownership ------------------------------
(***************************************************************************)
(* Layer A/I for C05: containers own *instances* of their element type.    *)
(* An instance is identified by a serial number issued when it is          *)
(* constructed (construct_with, or assign into zeroed memory) and retired  *)
(* when it is destructed.  The model abstracts every container kind to     *)
(* "a collection of instances" and classifies what the container code does *)
(* to instances:                                                           *)
(*   Insert    push / push_at / set of a new key / constructor            *)
(*   Overwrite set of an existing index or Tree key: assign over the live  *)
(*             instance - no instance is created or retired                *)
(*   Replace   Table set of an existing key: old key+value retired, new    *)
(*             ones issued                                                 *)
(*   Remove    pop / pop_at / rem / truncate                               *)
(*   Move      growth, shrink, rehash, displacement, rotation, predecessor *)
(*             copy, sort swaps: bytes move, instances neither appear nor  *)
(*             vanish                                                      *)
(*   CopyInto  copy / assign between containers: the destination's old     *)
(*             instances retired, fresh ones issued, one per source element*)
(*   Clear/Del resize(0) / del                                             *)
(*   Box       held[box] is one instance, retired exactly when the Box is  *)
(* Switches reproduce the defects found in the code as it was:             *)
(*   LeakOnRefusedInsert  (List_Push_At built the element before checking  *)
(*                         the index)                                      *)
(*   OrphanOnReplace      (Table duplicate: the old entry stays, unreach-  *)
(*                         able by key, and is a second instance)          *)
(***************************************************************************)
EXTENDS Integers, FiniteSets, Sequences, TLC

CONSTANTS Conts, MaxSerial, MaxHeld, LeakOnRefusedInsert, OrphanOnReplace

VARIABLES next, live, retired, held, alive, act
vars == <<next, live, retired, held, alive, act>>

Issue(n) == next..(next + n - 1)

Init == /\ next = 1 /\ live = {} /\ retired = {}
        /\ held = [c \in Conts |-> {}] /\ alive = [c \in Conts |-> TRUE] /\ act = "init"

Insert(c) == /\ alive[c] /\ next <= MaxSerial /\ Cardinality(held[c]) < MaxHeld
             /\ held' = [held EXCEPT ![c] = @ \cup Issue(1)] /\ live' = live \cup Issue(1) /\ next' = next + 1
             /\ act' = "insert" /\ UNCHANGED <<retired, alive>>
RefusedInsert(c) == /\ alive[c] /\ next <= MaxSerial /\ act' = "refused"
                    /\ IF LeakOnRefusedInsert
                       THEN live' = live \cup Issue(1) /\ next' = next + 1 /\ UNCHANGED <<held, retired, alive>>
                       ELSE UNCHANGED <<next, live, retired, held, alive>>
Overwrite(c) == alive[c] /\ held[c] # {} /\ act' = "overwrite" /\ UNCHANGED <<next, live, retired, held, alive>>
Replace(c) == /\ alive[c] /\ next <= MaxSerial /\ act' = "replace"
              /\ \E x \in held[c] :
                   /\ live' = (IF OrphanOnReplace THEN live ELSE live \ {x}) \cup Issue(1)
                   /\ retired' = IF OrphanOnReplace THEN retired ELSE retired \cup {x}
                   /\ held' = [held EXCEPT ![c] = (@ \ {x}) \cup Issue(1)]
                   /\ next' = next + 1 /\ UNCHANGED alive
Remove(c) == /\ alive[c] /\ act' = "remove"
             /\ \E x \in held[c] : /\ held' = [held EXCEPT ![c] = @ \ {x}]
                                   /\ live' = live \ {x} /\ retired' = retired \cup {x}
             /\ UNCHANGED <<next, alive>>
Move(c) == alive[c] /\ act' = "move" /\ UNCHANGED <<next, live, retired, held, alive>>
CopyInto(c, d) == /\ c # d /\ alive[c] /\ alive[d] /\ act' = "copy"
                  /\ LET n == Cardinality(held[c]) IN
                     /\ next + n - 1 <= MaxSerial
                     /\ held' = [held EXCEPT ![d] = Issue(n)]
                     /\ live' = (live \ held[d]) \cup Issue(n)
                     /\ retired' = retired \cup held[d]
                     /\ next' = next + n
                  /\ UNCHANGED alive
Clear(c) == /\ alive[c] /\ act' = "clear"
            /\ held' = [held EXCEPT ![c] = {}] /\ live' = live \ held[c] /\ retired' = retired \cup held[c]
            /\ UNCHANGED <<next, alive>>
Del(c) == /\ alive[c] /\ act' = "del"
          /\ held' = [held EXCEPT ![c] = {}] /\ live' = live \ held[c] /\ retired' = retired \cup held[c]
          /\ alive' = [alive EXCEPT ![c] = FALSE] /\ UNCHANGED next

Next == \E c \in Conts : \/ Insert(c) \/ RefusedInsert(c) \/ Overwrite(c) \/ Replace(c) \/ Remove(c)
                         \/ Move(c) \/ Clear(c) \/ Del(c) \/ \E d \in Conts : CopyInto(c, d)
Spec == Init /\ [][Next]_vars

-----------------------------------------------------------------------------
AllHeld == UNION {held[c] : c \in Conts}
LiveIsHeld   == live = AllHeld                                         \* number of live elements = sum of the lengths
Disjoint     == \A c, d \in Conts : c # d => held[c] \cap held[d] = {}   \* copies are deep
OnceOnly     == live \cap retired = {} /\ live \cup retired = 1..(next - 1)   \* every instance live or retired, never both
NeverWhileHeld == AllHeld \cap retired = {}                            \* nothing finalised while still contained
RetireMonotone == [][retired \subseteq retired']_vars                  \* a retired instance never comes back
AllGone      == (\A c \in Conts : ~alive[c]) => live = {}              \* after deleting every container nothing is left
OwnershipOK  == LiveIsHeld /\ Disjoint /\ OnceOnly /\ NeverWhileHeld /\ AllGone
=============================================================================
