------------------------------ MODULE ExcTrace ------------------------------
(***************************************************************************)
(* C07, layer A as a trace validator: the control flow that really         *)
(* happened (logged by h_exc / h_exc_lex while real try / catch / throw    *)
(* macros executed a program) must be the block-structured one:            *)
(*  - after throw e the next thing that happens is the handler of the      *)
(*    nearest enclosing try whose BODY is executing and whose filter       *)
(*    matches e (mask 0 matches everything), with e bound; if there is no   *)
(*    such block the process ends with a failure status and a diagnostic;  *)
(*  - a body that ends normally is followed by the end of its construct:   *)
(*    no handler runs (a handled exception never fires again);             *)
(*  - after every construct the nesting depth is what it was before.       *)
(***************************************************************************)
EXTENDS Integers, Sequences, FiniteSets, TLC, Json, IOUtils

T == ndJsonDeserialize(IOEnv.TRACE)

VARIABLES l, fr, pend, fin
vars == <<l, fr, pend, fin>>
(* fr: open constructs <<fid, mask, pc, depth at entry>>, pc in "body" "handler" "bodydone" "handlerdone" *)

IsEv(op) == l <= Len(T) /\ T[l].op = op /\ l' = l + 1
E == T[l]

Bit(e) == IF e = 1 THEN 1 ELSE IF e = 2 THEN 2 ELSE 4
Matches(mask, e) == mask = 0 \/ ((mask \div Bit(e)) % 2 = 1)
Bodies == {i \in 1..Len(fr) : fr[i][3] = "body"}
Target(e) == LET ok == {i \in Bodies : Matches(fr[i][2], e)} IN
             IF ok = {} THEN 0 ELSE CHOOSE m \in ok : \A x \in ok : x <= m
Top == fr[Len(fr)]
SetPc(i, pc) == [fr EXCEPT ![i] = <<fr[i][1], fr[i][2], pc, fr[i][4]>>]

Init == l = 1 /\ fr = <<>> /\ pend = 0 /\ fin = FALSE

Reset == IsEv("reset") /\ fr' = <<>> /\ pend' = 0 /\ fin' = FALSE
End == IsEv("end") /\ UNCHANGED <<fr, pend, fin>>

Try == /\ IsEv("try") /\ pend = 0 /\ ~fin
       /\ E.depth = Cardinality(Bodies)                                   \* depth = number of bodies being executed
       /\ fr' = Append(fr, <<E.fid, E.mask, "body", E.depth>>) /\ UNCHANGED <<pend, fin>>
Throw == IsEv("throw") /\ pend = 0 /\ ~fin /\ pend' = E.e /\ UNCHANGED <<fr, fin>>
Handler == /\ IsEv("handler") /\ pend # 0                                 \* a handler runs only for an exception in flight
           /\ Target(pend) # 0 /\ fr[Target(pend)][1] = E.fid            \* ... the nearest enclosing matching one
           /\ E.e = pend                                                  \* ... with the thrown object bound
           /\ fr' = SubSeq(SetPc(Target(pend), "handler"), 1, Target(pend))      \* everything nested deeper is abandoned
           /\ pend' = 0 /\ UNCHANGED fin
BodyEnd == /\ IsEv("bodyend") /\ pend = 0 /\ fr # <<>> /\ Top[1] = E.fid /\ Top[3] = "body"
           /\ fr' = SetPc(Len(fr), "bodydone") /\ UNCHANGED <<pend, fin>>
HandlerEnd == /\ IsEv("handlerend") /\ pend = 0 /\ fr # <<>> /\ Top[1] = E.fid /\ Top[3] = "handler"
              /\ fr' = SetPc(Len(fr), "handlerdone") /\ UNCHANGED <<pend, fin>>
After == /\ IsEv("after") /\ pend = 0 /\ fr # <<>> /\ Top[1] = E.fid /\ Top[3] \in {"bodydone", "handlerdone"}
         /\ E.depth = Top[4]                                              \* nesting depth restored
         /\ fr' = SubSeq(fr, 1, Len(fr) - 1) /\ UNCHANGED <<pend, fin>>
Plain == (IsEv("mark") \/ IsEv("call") \/ IsEv("ret")) /\ pend = 0 /\ ~fin /\ UNCHANGED <<fr, pend, fin>>
Done == IsEv("done") /\ pend = 0 /\ fr = <<>> /\ E.depth = 0 /\ fin' = TRUE /\ UNCHANGED <<fr, pend>>
(* the process ended: normally after done, or because nobody handles the exception in flight *)
ExitOk == IsEv("exit") /\ fin /\ E.status = 0 /\ E.sig = 0 /\ UNCHANGED <<fr, pend, fin>>
ExitUncaught == /\ IsEv("exit") /\ ~fin /\ pend # 0 /\ Target(pend) = 0
                /\ E.status > 0 /\ E.sig = 0 /\ E.diag = 1                \* failure status and a diagnostic
                /\ UNCHANGED <<fr, pend, fin>>

(* filter F against thrown kind T over all kinds: the filtered handler runs exactly for F = T, with T bound; otherwise the *)
(* enclosing catch-all receives T; the depth is restored either way                                                      *)
Pair == /\ IsEv("pair") /\ UNCHANGED <<fr, pend, fin>>
        /\ E.bound = E.t /\ E.d1 = E.d0
        /\ IF E.f = E.t THEN E.inner = 1 /\ E.outer = 0 /\ E.after = 1
           ELSE E.inner = 0 /\ E.outer = 1 /\ E.after = 0

Next == Pair \/ Reset \/ End \/ Try \/ Throw \/ Handler \/ BodyEnd \/ HandlerEnd \/ After \/ Plain \/ Done \/ ExitOk \/ ExitUncaught
Spec == Init /\ [][Next]_vars

Accepted == LET d == TLCGet("stats").diameter IN
            /\ PrintT(<<"TRACE_MATCHED", d - 1, Len(T)>>)
            /\ d - 1 = Len(T)
=============================================================================
