---------------------------- MODULE CStringTrace ----------------------------
(***************************************************************************)
(* C16 trace validation: after every public call on heap Strings, the      *)
(* bytes, len, and the C-library relations (cmp, eq, substring test, first *)
(* occurrence removal) are those of the abstract string; the terminator     *)
(* stays inside the allocation; equal strings hash equally (HashLaw).       *)
(***************************************************************************)
EXTENDS CString, Json, IOUtils

T == ndJsonDeserialize(IOEnv.TRACE)
VARIABLES l, str, H          \* str[o] = abstract bytes; H = observed hash of each abstract string seen so far
vars == <<l, str, H>>

IsEv(op) == l <= Len(T) /\ T[l].op = op /\ l' = l + 1
E == T[l]
With(f, k, v) == [y \in (DOMAIN f) \cup {k} |-> IF y = k THEN v ELSE f[y]]
Without(f, k) == [y \in (DOMAIN f) \ {k} |-> f[y]]
S == str[E.o]

RECURSIVE HashesOK(_, _, _)
HashesOK(objs, i, h) ==
  IF i > Len(objs) THEN TRUE
  ELSE LET k == objs[i].s IN
       IF k \in DOMAIN h THEN h[k] = objs[i].h /\ HashesOK(objs, i + 1, h)
       ELSE HashesOK(objs, i + 1, With(h, k, objs[i].h))
RECURSIVE Learn(_, _, _)
Learn(objs, i, h) == IF i > Len(objs) THEN h ELSE Learn(objs, i + 1, IF objs[i].s \in DOMAIN h THEN h ELSE With(h, objs[i].s, objs[i].h))

ProjOK(sn) ==
  /\ {E.objs[i].o : i \in 1..Len(E.objs)} = DOMAIN sn
  /\ \A i \in 1..Len(E.objs) : LET p == E.objs[i] IN
       /\ p.s = sn[p.o]                         \* exactly the characters of the abstract string
       /\ p.len = Len(sn[p.o])                  \* len = strlen
       /\ p.h = p.href                          \* hash = the documented hash function (MurmurHash64A, the library's seed) of the characters
       /\ p.cap >= p.len + 1                    \* NUL-terminated inside its own allocation
  /\ E.nbbad = 0                                \* a String that is an element of a container: the other elements are untouched
  /\ HashesOK(E.objs, 1, H)                     \* hash is a function of the value

Step(sn) == E.exc = "" /\ ProjOK(sn) /\ str' = sn /\ H' = Learn(E.objs, 1, H)
Fails(excs) == E.exc \in excs /\ ProjOK(str) /\ UNCHANGED <<str, H>>
Upd(x) == Step(With(str, E.o, x))

Init == l = 1 /\ str = [x \in {} |-> 0] /\ H = [x \in {} |-> 0]
Reset == IsEv("reset") /\ str' = [x \in {} |-> 0] /\ H' = H
End == IsEv("end") /\ UNCHANGED <<str, H>>
New == IsEv("new") /\ Upd(E.arg)
Copy == IsEv("copy") /\ Upd(str[E.p])
Assign == IsEv("assign") /\ Upd(E.arg)
AssignO == IsEv("assigno") /\ Upd(str[E.p])
Concat == (IsEv("concat") \/ IsEv("append")) /\ Upd(S \o E.arg)
ConcatO == IsEv("concato") /\ Upd(S \o str[E.p])
RemOk == IsEv("rem") /\ Contains(S, E.arg) /\ Upd(RemFirst(S, E.arg))
RemFail == IsEv("rem") /\ ~Contains(S, E.arg) /\ Fails({"ValueError"})
Mem == IsEv("mem") /\ E.r = (IF Contains(S, E.arg) THEN 1 ELSE 0) /\ Upd(S)
RemOOk == IsEv("remo") /\ Contains(S, str[E.p]) /\ Upd(RemFirst(S, str[E.p]))       \* the argument is a String object (maybe the target)
RemOFail == IsEv("remo") /\ ~Contains(S, str[E.p]) /\ Fails({"ValueError"})
MemO == IsEv("memo") /\ E.r = (IF Contains(S, str[E.p]) THEN 1 ELSE 0) /\ Upd(S)
TailFrom(n) == SubSeq(S, (IF n < Len(S) THEN n ELSE Len(S)) + 1, Len(S))
ConcatIn == IsEv("concatin") /\ Upd(S \o TailFrom(E.n))        \* the argument points into the target's own characters
AssignIn == IsEv("assignin") /\ Upd(TailFrom(E.n))
Resize == IsEv("resize") /\ E.r = 0 /\ Upd(Truncate(S, E.n))        \* (room for n characters and their terminator: the byte at n is NUL)
PrintSelf == IsEv("printself") /\ LET head == SubSeq(S, 1, IF E.n < Len(S) THEN E.n ELSE Len(S)) IN          \* "%s" with the target itself as argument
             E.r = E.n + Len(S) /\ Upd(head \o S)
RemInt == IsEv("remint") /\ Fails({"ClassError", "TypeError", "ValueError"})     \* an argument that is no string: refused like in concat / mem
ResizeHuge == IsEv("resizehuge") /\ Fails({"OutOfMemoryError"})          \* more than can be had: refused, the String stays
PrintAt == IsEv("printat") /\ E.r = E.n + Len(E.arg) /\ Upd(WriteAt(S, E.n, E.arg))     \* returns the position after the text
PrintPct == IsEv("printpct") /\ LET txt == E.arg \o <<37>> \o E.arg \o <<124>> IN                    \* "%s%%%s|": a literal per cent sign in between
            E.r = E.n + Len(txt) /\ Upd(WriteAt(S, E.n, txt))
PrintNull == IsEv("printnull") /\ LET txt == E.arg \o <<60, 78, 85, 76, 76, 62, 124>> \o E.arg IN           \* "%s%$|%s" with NULL shown: a <NULL> | a
             E.r = E.n + Len(txt) /\ Upd(WriteAt(S, E.n, txt))
CmpType == IsEv("cmptype") /\ E.r = Sign(StrCmp(S, E.arg)) /\ E.n = (IF S = E.arg THEN 1 ELSE 2) /\ Upd(S)      \* eq (1) / neq (2) follow the texts
Cmp == IsEv("cmp") /\ E.r = Sign(StrCmp(S, str[E.p])) /\ E.n = (IF S = str[E.p] THEN 1 ELSE 0) /\ Upd(S)
Del == IsEv("del") /\ Step(Without(str, E.o))

Next == Reset \/ End \/ New \/ Copy \/ Assign \/ AssignO \/ Concat \/ ConcatO \/ RemOk \/ RemFail \/ Mem \/ RemOOk \/ RemOFail \/ MemO \/ ConcatIn \/ AssignIn \/ Resize \/ RemInt \/ ResizeHuge \/ PrintAt \/ PrintSelf \/ PrintPct \/ PrintNull \/ CmpType \/ Cmp \/ Del
Spec == Init /\ [][Next]_vars
Accepted == LET d == TLCGet("stats").diameter IN
            /\ PrintT(<<"TRACE_MATCHED", d - 1, Len(T)>>)
            /\ d - 1 = Len(T)
=============================================================================
