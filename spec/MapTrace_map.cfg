SPECIFICATION Spec
CONSTANT Mode = "map"
POSTCONDITION Accepted
CHECK_DEADLOCK FALSE
