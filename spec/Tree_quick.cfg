\* exhaustive: every set/rem/clear history over 6 ordered keys (fewer do not reach every deletion case)
SPECIFICATION Spec
CONSTANTS
  Keys = {1, 2, 3, 4, 5, 6, 7, 8, 9}
  Vals = {1}
  MaxNodes = 9
  Emit = FALSE
  DropRecolour = FALSE
VIEW view
INVARIANT TreeOK
PROPERTY AbstractStep
ACTION_CONSTRAINT EmitEdge
