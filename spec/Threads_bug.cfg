SPECIFICATION Spec
CONSTANTS
  Kids = {1, 2}
  MaxOwn = 2
  ParentWalksChildTls = TRUE
INVARIANT ThreadsOK
PROPERTY Isolation
