SPECIFICATION Spec
CONSTANTS
  Kids = {1, 2}
  MaxOwn = 1
  MaxDepth = 1
  MaxTls = 2
  MaxCell = 1
  ParentWalksChildTls = TRUE
INVARIANT ThreadsOK
PROPERTY Isolation
