----------------------------- MODULE ThreadTrace -----------------------------
(***************************************************************************)
(* C13 trace validation.                                                   *)
(*  - every thread computed exactly what the same workload computes alone  *)
(*    (digest over container results, surviving objects, exception paths,  *)
(*    thread-local values) - whatever the other threads did meanwhile;     *)
(*  - no object was finalised by a thread other than the one that made it; *)
(*  - critical sections of the one Mutex never overlap: the global ticket  *)
(*    taken at entry and at exit inside a section are consecutive, and the *)
(*    unprotected counter equals the number of sections;                   *)
(*  - join returned after the thread's function had ended (ticket order)   *)
(*    and the joiner read the thread's final value.                        *)
(***************************************************************************)
EXTENDS Integers, Sequences, FiniteSets, TLC, Json, IOUtils
T == ndJsonDeserialize(IOEnv.TRACE)
VARIABLES l, tix, ncs
vars == <<l, tix, ncs>>
IsEv(op) == l <= Len(T) /\ T[l].op = op /\ l' = l + 1
E == T[l]
Init == l = 1 /\ tix = {} /\ ncs = 0
Plain == (IsEv("reset") \/ IsEv("end")) /\ tix' = {} /\ ncs' = 0
Thread == /\ IsEv("thread") /\ UNCHANGED <<tix, ncs>>
          /\ E.digest = E.alone                         \* same results as when it runs alone
          /\ E.ended < E.joined                         \* join returned after the function had finished
          /\ E.seen = E.cell                            \* ... and its effects were visible to the joiner
          /\ E.rootres = 1                             \* a result the thread rooted and left behind is intact after join (not finalised by the thread's teardown); released by the joiner, once
          /\ E.handoff = 1                              \* what the parent put into the thread's storage before the start was there, intact
          /\ E.withbad = 0                             \* with (m in <expression>): the Mutex that was acquired is held inside the block and released at its end, no other
          /\ E.liveatjoin = 0                           \* ... including its teardown: everything it still managed is finalised
CS == /\ IsEv("cs")
      /\ E.tout = E.tin + 1                             \* nobody else was inside between entry and exit
      /\ E.tin \notin tix /\ E.tout \notin tix
      /\ tix' = tix \cup {E.tin, E.tout} /\ ncs' = ncs + 1
Summary == /\ IsEv("summary") /\ UNCHANGED <<tix, ncs>>
           /\ E.foreign = 0                             \* nothing finalised by a foreign thread
           /\ E.childlive = 0                           \* a finished thread's collector finalised everything it still managed
           /\ E.sections = ncs /\ E.plain = ncs         \* the unprotected counter lost no update
Share == IsEv("tlsshare") /\ E.kept = 0 /\ UNCHANGED <<tix, ncs>>     \* isolation: the parent's collector does not look into a child's TLS
(* stop(thread): the thread it names is interrupted (it handles ProgramInterruptedError and finishes), the caller is not *)
StopThread == IsEv("stopthread") /\ E.exc = "" /\ E.caught = 1 /\ E.mainhit = 0 /\ E.done = 1 /\ UNCHANGED <<tix, ncs>>
Next == StopThread \/ Plain \/ Thread \/ CS \/ Summary \/ Share
Spec == Init /\ [][Next]_vars
Accepted == LET d == TLCGet("stats").diameter IN
            /\ PrintT(<<"TRACE_MATCHED", d - 1, Len(T)>>)
            /\ d - 1 = Len(T)
=============================================================================
