------------------------------ MODULE Dispatch ------------------------------
(***************************************************************************)
(* C08: type-class dispatch.                                               *)
(* Layer A: a type declares a sequence of (class name, instance) entries;  *)
(* Lookup(t, c) is the instance of the first entry named c, or Null.       *)
(* Layer I (src/Type.c): Type_Instance consults one of 18 per-type cache   *)
(* slots for the cached classes and fills it lazily from Type_Scan;        *)
(* Type_Scan first looks for an entry whose memoised class POINTER equals  *)
(* the class, then compares class NAMES and memoises the pointer.  Both    *)
(* writes are unsynchronised and happen from whatever thread looks first;  *)
(* the model splits a lookup into read-cache / scan / write-cache steps    *)
(* and interleaves the threads at that granularity.                        *)
(*   MemoWrong = TRUE seeds a scan that memoises the class on the wrong    *)
(*   entry (non-vacuity demonstration).                                    *)
(***************************************************************************)
EXTENDS Integers, Sequences, FiniteSets, TLC

CONSTANTS Types, Classes, Cached, Threads, Declared, MaxLookups, MemoWrong
(* Declared[t] : sequence of <<class, instance>>; instances are distinct naturals > 0 *)

Null == 0
Lookup(t, c) == LET idx == {i \in 1..Len(Declared[t]) : Declared[t][i][1] = c}
                IN IF idx = {} THEN Null ELSE Declared[t][CHOOSE i \in idx : \A j \in idx : i <= j][2]

VARIABLES cache,     \* cache[t][c] for c \in Cached: instance or Null (unfilled)
          memo,      \* memo[t][i]: class pointer memoised on entry i, or "none"
          pc, job, tmp, answers, done
vars == <<cache, memo, pc, job, tmp, answers, done>>

Init == /\ cache = [t \in Types |-> [c \in Cached |-> Null]]
        /\ memo = [t \in Types |-> [i \in 1..Len(Declared[t]) |-> "none"]]
        /\ pc = [th \in Threads |-> "idle"] /\ job = [th \in Threads |-> <<>>] /\ tmp = [th \in Threads |-> Null]
        /\ answers = {} /\ done = 0

(* Type_Scan(t, c): pointer pass, then name pass with memo write *)
ScanResult(t, c) ==
  LET byPtr == {i \in 1..Len(Declared[t]) : memo[t][i] = c}
      byName == {i \in 1..Len(Declared[t]) : Declared[t][i][1] = c}
  IN IF byPtr # {} THEN <<Declared[t][CHOOSE i \in byPtr : \A j \in byPtr : i <= j][2], 0>>
     ELSE IF byName # {} THEN LET i == CHOOSE k \in byName : \A j \in byName : k <= j IN <<Declared[t][i][2], i>>
     ELSE <<Null, 0>>

Begin(th, t, c) == /\ pc[th] = "idle" /\ done < MaxLookups
                   /\ job' = [job EXCEPT ![th] = <<t, c>>]
                   /\ pc' = [pc EXCEPT ![th] = IF c \in Cached THEN "readcache" ELSE "scan"]
                   /\ done' = done + 1 /\ UNCHANGED <<cache, memo, tmp, answers>>

ReadCache(th) == /\ pc[th] = "readcache"
                 /\ LET t == job[th][1] c == job[th][2] IN
                    IF cache[t][c] # Null
                    THEN /\ answers' = answers \cup {<<t, c, cache[t][c]>>} /\ pc' = [pc EXCEPT ![th] = "idle"]
                         /\ UNCHANGED <<tmp>>
                    ELSE pc' = [pc EXCEPT ![th] = "scan"] /\ UNCHANGED <<answers, tmp>>
                 /\ UNCHANGED <<cache, memo, job, done>>

Scan(th) == /\ pc[th] = "scan"
            /\ LET t == job[th][1] c == job[th][2] r == ScanResult(t, c) IN
               /\ tmp' = [tmp EXCEPT ![th] = r[1]]
               /\ memo' = IF r[2] = 0 THEN memo
                          ELSE IF MemoWrong /\ r[2] < Len(Declared[t]) THEN [memo EXCEPT ![t][r[2] + 1] = c]
                          ELSE [memo EXCEPT ![t][r[2]] = c]
               /\ IF c \in Cached THEN pc' = [pc EXCEPT ![th] = "writecache"] /\ UNCHANGED answers
                  ELSE pc' = [pc EXCEPT ![th] = "idle"] /\ answers' = answers \cup {<<t, c, r[1]>>}
            /\ UNCHANGED <<cache, job, done>>

WriteCache(th) == /\ pc[th] = "writecache"
                  /\ LET t == job[th][1] c == job[th][2] IN
                     /\ cache' = [cache EXCEPT ![t][c] = tmp[th]]
                     /\ answers' = answers \cup {<<t, c, tmp[th]>>}
                  /\ pc' = [pc EXCEPT ![th] = "idle"] /\ UNCHANGED <<memo, job, tmp, done>>

Next == \E th \in Threads : \/ \E t \in Types, c \in Classes : Begin(th, t, c)
                            \/ ReadCache(th) \/ Scan(th) \/ WriteCache(th)
Spec == Init /\ [][Next]_vars

-----------------------------------------------------------------------------
AnswersOK == \A a \in answers : a[3] = Lookup(a[1], a[2])                  \* every answer, whenever, from whichever thread
CacheOK   == \A t \in Types, c \in Cached : cache[t][c] \in {Null, Lookup(t, c)}
MemoOK    == \A t \in Types : \A i \in 1..Len(Declared[t]) : memo[t][i] \in {"none", Declared[t][i][1]}
DispatchOK == AnswersOK /\ CacheOK /\ MemoOK
=============================================================================
