SPECIFICATION Spec
CONSTANTS
  Paths = {1, 2}
  Chunks = {0, 1, 3}
  MaxSteps = 6
  MaxFile = 6
  Modes = {1, 2, 3, 4, 5, 6}
  Emit = FALSE
VIEW view
INVARIANT FileOK
PROPERTY ClosedRefuses
PROPERTY ReadsDisk
ACTION_CONSTRAINT EmitEdge
