SPECIFICATION Spec
CONSTANTS
  MaxLen = 3
  FallThrough = TRUE
INVARIANT CodecOK
