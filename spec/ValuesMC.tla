------------------------------ MODULE ValuesMC ------------------------------
(* TLC checks that the reference relations used as oracle for C09 are total orders on boundary grids *)
EXTENDS Values
VARIABLE dummy
L(a, b, c, d) == <<a, b, c, d>>
Ints == {<<"I", L(a, b, 0, c)>> : a \in {-32768, -1, 0, 1, 32767}, b \in {0, 1, 65535}, c \in {0, 1, 65535}}
Floats == {<<"F", L(a, 0, 0, c)>> : a \in {0, -32768, 1, -32767, 16368, -16400, 32752, -16}, c \in {0, 1}}       \* +-0, denormals, 1.0, -1.0, +-inf
Strs == {<<"S", s>> : s \in UNION {[1..k -> {1, 97, 128, 255}] : k \in 0..2}}
Seqs == {<<"seq", s>> : s \in UNION {[1..k -> {<<"I", L(0, 0, 0, 1)>>, <<"I", L(-1, 65535, 65535, 65535)>>, <<"I", L(0, 1, 0, 0)>>}] : k \in 0..2}}
OrderLaws == TotalOrderOn(Ints) /\ TotalOrderOn(Floats) /\ TotalOrderOn(Strs) /\ TotalOrderOn(Seqs)
Init == dummy = 0
Next == UNCHANGED dummy
Spec == Init /\ [][Next]_dummy
=============================================================================
