------------------------------ MODULE ValTrace ------------------------------
(***************************************************************************)
(* C09 (Mode "cmp"): sign(cmp(a,b)) is the reference order of the raw      *)
(* operands and eq, neq, lt, gt, le, ge are its predicates.                *)
(* C10 (Mode "hash"): hash is a function of the abstract value (HashLaw:   *)
(* the first observation of a value binds its hash, every later one -      *)
(* another instance, another allocation class, another construction        *)
(* history - must agree); eq is equality of abstract values; copy, assign   *)
(* and swap move values without changing them.                             *)
(***************************************************************************)
EXTENDS Values, Json, IOUtils

CONSTANT Mode
T == ndJsonDeserialize(IOEnv.TRACE)
VARIABLES l, H
vars == <<l, H>>
IsEv(op) == l <= Len(T) /\ T[l].op = op /\ l' = l + 1
E == T[l]
With(f, k, v) == [y \in (DOMAIN f) \cup {k} |-> IF y = k THEN v ELSE f[y]]
B(x) == IF x THEN 1 ELSE 0

Comparable(a, b) == a[1] = b[1] /\ a[1] \in {"I", "F", "S", "Y", "X", "seq", "tree"}

Init == l = 1 /\ H = [x \in {} |-> 0]
Plain == (IsEv("reset") \/ IsEv("end")) /\ UNCHANGED H

(* plain structs of different types (here: different sizes) have no order: TypeError, never a memcmp across types *)
Alien(a, b) == a[1] = "X" /\ b[1] = "X" /\ Len(a[2]) # Len(b[2])
CmpAlien == IsEv("cmp") /\ Alien(E.a, E.b) /\ E.exc = "TypeError" /\ UNCHANGED H
Cmp == /\ IsEv("cmp") /\ ~Alien(E.a, E.b) /\ E.exc = "" /\ UNCHANGED H
       /\ (Mode = "cmp" /\ Comparable(E.a, E.b)) =>
            LET s == RefCmp(E.a, E.b) IN
            /\ E.r = s                                                   \* the order of the values themselves
            /\ E.eq = B(s = 0) /\ E.neq = B(s # 0) /\ E.lt = B(s < 0) /\ E.gt = B(s > 0) /\ E.le = B(s <= 0) /\ E.ge = B(s >= 0)
       /\ (Mode = "hash") => E.eq = B(Abs(E.a) = Abs(E.b))              \* eq = same abstract value (tables: same bindings)

(* HashLaw *)
Observe(v, h, Hn) == IF Abs(v) \in DOMAIN Hn THEN Hn[Abs(v)] = h ELSE TRUE
Learn(v, h, Hn) == IF Abs(v) \in DOMAIN Hn THEN Hn ELSE With(Hn, Abs(v), h)
Hash == /\ IsEv("hash") /\ E.exc = ""
        /\ (Mode = "hash" => Observe(E.a, E.h, H)) /\ H' = Learn(E.a, E.h, H)
Copy == /\ (IsEv("copy") \/ IsEv("assign")) /\ E.exc = ""
        /\ (Mode = "hash" => (/\ Abs(E.b) = Abs(E.a)                    \* the result has the value of the source
                              /\ E.eq = 1 /\ E.h = E.h2                  \* eq to it, hashing the same
                              /\ Observe(E.a, E.h, H)))
        /\ H' = Learn(E.a, E.h, H)
Swap == /\ IsEv("swap") /\ E.exc = "" /\ UNCHANGED H
        /\ (Mode = "hash" => (Abs(E.a) = Abs(E.b0) /\ Abs(E.b) = Abs(E.a0)))        \* the two values exchanged

(* two containers that the script built with the same bindings (different insertion orders, surplus inserted and removed, *)
(* bindings overwritten and restored): whatever the history, they are equal and hash equally                            *)
Same == /\ IsEv("same") /\ E.exc = "" /\ UNCHANGED H
        /\ (Mode = "hash" => (E.eq = 1 /\ E.eqr = 1 /\ E.h = E.h2))
        /\ (Mode = "cmp" => (E.eq = 1 /\ E.eqr = 1))                   \* built from the same bindings: equal in both directions
(* the script states a < b (containers are not described from memory here: a walk that skips entries cannot hide) *)
(* both directions of one comparison: opposite signs, the same answer to eq, both raise or neither *)
Anti == /\ IsEv("anti") /\ UNCHANGED H
        /\ E.exc = E.exc2 /\ (E.exc = "" => (E.r1 = -E.r2 /\ E.eq1 = E.eq2 /\ (E.eq1 = 1 <=> E.r1 = 0)))
Less == /\ IsEv("less") /\ E.exc = "" /\ UNCHANGED H
        /\ E.r1 = -1 /\ E.r2 = 1 /\ E.lt = 1 /\ E.gt = 1 /\ E.eq = 0

(* objects of a type with its own allocator: each one released through that allocator, once, and handed over intact *)
Pool == IsEv("pool") /\ E.exc = "" /\ E.released = 2 * E.n /\ E.garbled = 0 /\ E.inuse = 0 /\ UNCHANGED H
(* cyclic object graphs survive collections and read back as built: 1,2,3 forwards then 1,3,2 backwards (x100) plus the odd garbage count *)
Cycle == IsEv("cycle") /\ E.exc = "" /\ E.sum = 1200 + E.n \div 2 /\ UNCHANGED H
Next == Plain \/ Cycle \/ Pool \/ Cmp \/ CmpAlien \/ Hash \/ Copy \/ Swap \/ Same \/ Anti \/ Less
Spec == Init /\ [][Next]_vars
Accepted == LET d == TLCGet("stats").diameter IN
            /\ PrintT(<<"TRACE_MATCHED", d - 1, Len(T)>>)
            /\ d - 1 = Len(T)
=============================================================================
