\* exhaustive: every set/rem/clear history over 6 ordered keys (fewer do not reach every deletion case)
SPECIFICATION Spec
CONSTANTS
  Keys = {1, 2, 3, 4}
  Vals = {1, 2}
  MaxNodes = 4
  Emit = FALSE
  DropRecolour = FALSE
VIEW view
INVARIANT TreeOK
PROPERTY AbstractStep
ACTION_CONSTRAINT EmitEdge
