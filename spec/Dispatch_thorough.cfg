SPECIFICATION Spec
CONSTANTS
  MaxLookups = 5
  MemoWrong = FALSE
  NThreads = 2
INVARIANT DispatchOK
