------------------------------- MODULE RBTree -------------------------------
(***************************************************************************)
(* Layer I for C03: src/Tree.c transcribed statement by statement.         *)
(* The C functions thread one mutable tree through their statements; here  *)
(* a record S = [nd, root] is threaded through LET chains in the same      *)
(* order, so each operator below can be read next to its C namesake:       *)
(*   Replace / RotL / RotR      Tree_Replace / Tree_Rotate_Left / _Right   *)
(*   SetFix                     Tree_Set_Fix  (3 cases, loop as recursion) *)
(*   RemFix                     Tree_Rem_Fix  (6 cases)                    *)
(*   Set / Rem                  Tree_Set / Tree_Rem (predecessor copy)     *)
(* Note the code's orientation: a node whose key is SMALLER than the       *)
(* sought key sends the search LEFT, so forward iteration is descending.   *)
(* The ghost g is the abstract ordered map; the invariants say the node    *)
(* graph is that map and a valid red-black tree after every operation.     *)
(***************************************************************************)
EXTENDS Integers, FiniteSets, Sequences, TLC, Json

CONSTANTS Keys, Vals, MaxNodes, Emit,
          DropRecolour       \* FALSE = Tree.c; TRUE = a deliberately broken deletion case (non-vacuity demo)

VARIABLES nd, root, nitems, g, act, err

vars == <<nd, root, nitems, g, act, err>>

Nil == 0
Ids == 1..MaxNodes
Blank == [l |-> Nil, r |-> Nil, p |-> Nil, red |-> FALSE, k |-> 0, v |-> 0, used |-> FALSE]

FM == INSTANCE FiniteMap WITH m <- g

Par(S, n) == S.nd[n].p
IsRed(S, n) == n # Nil /\ S.nd[n].red
IsBlack(S, n) == ~IsRed(S, n)
SetCol(S, n, c) == [S EXCEPT !.nd[n].red = c]
Sib(S, n) == IF n = Nil \/ Par(S, n) = Nil THEN Nil
             ELSE IF n = S.nd[Par(S, n)].l THEN S.nd[Par(S, n)].r ELSE S.nd[Par(S, n)].l
Grand(S, n) == IF n # Nil /\ Par(S, n) # Nil THEN Par(S, Par(S, n)) ELSE Nil
Uncle(S, n) == LET gp == Grand(S, n) IN
               IF gp = Nil THEN Nil
               ELSE IF Par(S, n) = S.nd[gp].l THEN S.nd[gp].r ELSE S.nd[gp].l

Replace(S, o, n) ==
  LET po == Par(S, o)
      S1 == IF po = Nil THEN [S EXCEPT !.root = n]
            ELSE IF o = S.nd[po].l THEN [S EXCEPT !.nd[po].l = n] ELSE [S EXCEPT !.nd[po].r = n]
  IN IF n # Nil THEN [S1 EXCEPT !.nd[n].p = po] ELSE S1

RotL(S, n) ==
  LET r  == S.nd[n].r
      S1 == Replace(S, n, r)
      rl == S1.nd[r].l
      S2 == [S1 EXCEPT !.nd[n].r = rl]
      S3 == IF rl # Nil THEN [S2 EXCEPT !.nd[rl].p = n] ELSE S2
      S4 == [S3 EXCEPT !.nd[r].l = n]
  IN [S4 EXCEPT !.nd[n].p = r]

RotR(S, n) ==
  LET l  == S.nd[n].l
      S1 == Replace(S, n, l)
      lr == S1.nd[l].r
      S2 == [S1 EXCEPT !.nd[n].l = lr]
      S3 == IF lr # Nil THEN [S2 EXCEPT !.nd[lr].p = n] ELSE S2
      S4 == [S3 EXCEPT !.nd[l].r = n]
  IN [S4 EXCEPT !.nd[n].p = l]

RECURSIVE SetFix(_, _)
SetFix(S, n) ==
  IF Par(S, n) = Nil THEN SetCol(S, n, FALSE)
  ELSE IF IsBlack(S, Par(S, n)) THEN S
  ELSE IF Uncle(S, n) # Nil /\ IsRed(S, Uncle(S, n)) THEN
       SetFix(SetCol(SetCol(SetCol(S, Par(S, n), FALSE), Uncle(S, n), FALSE), Grand(S, n), TRUE), Grand(S, n))
  ELSE LET case == IF n = S.nd[Par(S, n)].r /\ Par(S, n) = S.nd[Grand(S, n)].l THEN 1
                   ELSE IF n = S.nd[Par(S, n)].l /\ Par(S, n) = S.nd[Grand(S, n)].r THEN 2 ELSE 0
           S1 == IF case = 1 THEN RotL(S, Par(S, n)) ELSE IF case = 2 THEN RotR(S, Par(S, n)) ELSE S
           n1 == IF case = 1 THEN S1.nd[n].l ELSE IF case = 2 THEN S1.nd[n].r ELSE n
           S2 == SetCol(SetCol(S1, Par(S1, n1), FALSE), Grand(S1, n1), TRUE)
       IN IF n1 = S2.nd[Par(S2, n1)].l THEN RotR(S2, Grand(S2, n1)) ELSE RotL(S2, Grand(S2, n1))

\* descent of Tree_Set / Tree_Get / Tree_Rem: stored key < sought key goes LEFT
RECURSIVE FindSlot(_, _, _)
FindSlot(S, n, k) ==
  IF S.nd[n].k = k THEN <<"found", n>>
  ELSE IF S.nd[n].k < k THEN (IF S.nd[n].l = Nil THEN <<"left", n>> ELSE FindSlot(S, S.nd[n].l, k))
  ELSE (IF S.nd[n].r = Nil THEN <<"right", n>> ELSE FindSlot(S, S.nd[n].r, k))

Cur == [nd |-> nd, root |-> root]
Fresh == CHOOSE i \in Ids : ~nd[i].used /\ \A j \in Ids : (~nd[j].used) => i <= j

RECURSIVE Maximum(_, _)
Maximum(S, n) == IF S.nd[n].r = Nil THEN n ELSE Maximum(S, S.nd[n].r)

\* a state with root = -1 stands for "the C code would dereference NULL here"
Bad(S) == [S EXCEPT !.root = -1]

RECURSIVE RemFix(_, _)
RemFix(S, n) ==
  IF Par(S, n) = Nil THEN S
  ELSE
   LET S1 == IF IsRed(S, Sib(S, n))
             THEN LET TT == SetCol(SetCol(S, Par(S, n), TRUE), Sib(S, n), FALSE) IN
                  IF n = TT.nd[Par(TT, n)].l THEN RotL(TT, Par(TT, n)) ELSE RotR(TT, Par(TT, n))
             ELSE S
       s == Sib(S1, n) IN
   IF s = Nil THEN Bad(S1)
   ELSE IF IsBlack(S1, Par(S1, n)) /\ IsBlack(S1, s) /\ IsBlack(S1, S1.nd[s].l) /\ IsBlack(S1, S1.nd[s].r)
        THEN RemFix(SetCol(S1, s, TRUE), Par(S1, n))
   ELSE IF IsRed(S1, Par(S1, n)) /\ IsBlack(S1, s) /\ IsBlack(S1, S1.nd[s].l) /\ IsBlack(S1, S1.nd[s].r)
        THEN (IF DropRecolour THEN SetCol(S1, s, TRUE) ELSE SetCol(SetCol(S1, s, TRUE), Par(S1, n), FALSE))
   ELSE
     LET S2 == IF IsBlack(S1, s) THEN
                 IF n = S1.nd[Par(S1, n)].l /\ IsRed(S1, S1.nd[s].l) /\ IsBlack(S1, S1.nd[s].r)
                 THEN RotR(SetCol(SetCol(S1, s, TRUE), S1.nd[s].l, FALSE), s)
                 ELSE IF n = S1.nd[Par(S1, n)].r /\ IsRed(S1, S1.nd[s].r) /\ IsBlack(S1, S1.nd[s].l)
                 THEN RotL(SetCol(SetCol(S1, s, TRUE), S1.nd[s].r, FALSE), s)
                 ELSE S1
               ELSE S1
         s2 == Sib(S2, n)
         S3 == SetCol(SetCol(S2, s2, IsRed(S2, Par(S2, n))), Par(S2, n), FALSE)
     IN IF n = S3.nd[Par(S3, n)].l
        THEN (IF S3.nd[Sib(S3, n)].r = Nil THEN Bad(S3) ELSE RotL(SetCol(S3, S3.nd[Sib(S3, n)].r, FALSE), Par(S3, n)))
        ELSE (IF S3.nd[Sib(S3, n)].l = Nil THEN Bad(S3) ELSE RotR(SetCol(S3, S3.nd[Sib(S3, n)].l, FALSE), Par(S3, n)))

-----------------------------------------------------------------------------
Init == /\ nd = [i \in Ids |-> Blank] /\ root = Nil /\ nitems = 0
        /\ g = FM!EmptyMap /\ act = [op |-> "new"] /\ err = FALSE

NewNode(k, v, p) == [Blank EXCEPT !.red = TRUE, !.k = k, !.v = v, !.used = TRUE, !.p = p]

Set(k, v) ==
  /\ ~err
  /\ (k \in DOMAIN g \/ nitems < MaxNodes)
  /\ act' = [op |-> "set", k |-> k, v |-> v]
  /\ g' = FM!Put(g, k, v) /\ err' = err
  /\ LET S == Cur IN
     IF root = Nil THEN
        LET f == Fresh
            S1 == [S EXCEPT !.nd[f] = NewNode(k, v, Nil), !.root = f]
            S2 == SetFix(S1, f) IN
        nd' = S2.nd /\ root' = S2.root /\ nitems' = nitems + 1
     ELSE LET w == FindSlot(S, root, k) IN
        IF w[1] = "found" THEN nd' = [nd EXCEPT ![w[2]].v = v] /\ UNCHANGED <<root, nitems>>
        ELSE LET f == Fresh
                 S1 == [S EXCEPT !.nd[f] = NewNode(k, v, w[2])]
                 S2 == IF w[1] = "left" THEN [S1 EXCEPT !.nd[w[2]].l = f] ELSE [S1 EXCEPT !.nd[w[2]].r = f]
                 S3 == SetFix(S2, f) IN
             nd' = S3.nd /\ root' = S3.root /\ nitems' = nitems + 1

Rem(k) ==
  /\ ~err
  /\ LET S == Cur
         w == IF root = Nil THEN <<"none", Nil>> ELSE FindSlot(S, root, k) IN
     IF w[1] # "found"
     THEN act' = [op |-> "rem", k |-> k, exc |-> "KeyError"] /\ UNCHANGED <<nd, root, nitems, g, err>>
     ELSE
       /\ act' = [op |-> "rem", k |-> k, exc |-> ""]
       /\ g' = FM!Drop(g, k)
       /\ LET n0 == w[2]
              two == S.nd[n0].l # Nil /\ S.nd[n0].r # Nil
              pred == IF two THEN Maximum(S, S.nd[n0].l) ELSE n0
              S1 == IF two THEN [S EXCEPT !.nd[n0].k = S.nd[pred].k, !.nd[n0].v = S.nd[pred].v] ELSE S  \* bytes copied, colour kept
              n == pred
              chld == IF S1.nd[n].r = Nil THEN S1.nd[n].l ELSE S1.nd[n].r
              S2 == IF IsBlack(S1, n) THEN RemFix(SetCol(S1, n, IsRed(S1, chld)), n) ELSE S1 IN
          IF S2.root = -1 THEN err' = TRUE /\ UNCHANGED <<nd, root, nitems>>
          ELSE LET S3 == Replace(S2, n, chld)
                   S4 == IF Par(S3, n) = Nil /\ chld # Nil THEN SetCol(S3, chld, FALSE) ELSE S3
                   S5 == [S4 EXCEPT !.nd[n] = Blank] IN
               nd' = S5.nd /\ root' = S5.root /\ nitems' = nitems - 1 /\ err' = err

Clear ==                                             \* resize(t, 0)
  /\ ~err /\ nitems > 0
  /\ act' = [op |-> "clear"]
  /\ nd' = [i \in Ids |-> Blank] /\ root' = Nil /\ nitems' = 0 /\ g' = FM!EmptyMap /\ err' = err

Next == \/ \E k \in Keys, v \in Vals : Set(k, v)
        \/ \E k \in Keys : Rem(k)
        \/ Clear

Spec == Init /\ [][Next]_vars

-----------------------------------------------------------------------------
Used == {i \in Ids : nd[i].used}

RECURSIVE Nodes(_)                                   \* ids reachable from n through child links
Nodes(n) == IF n = Nil THEN {} ELSE {n} \cup Nodes(nd[n].l) \cup Nodes(nd[n].r)

RECURSIVE InOrder(_)                                 \* keys left-to-right = forward iteration order
InOrder(n) == IF n = Nil THEN <<>> ELSE InOrder(nd[n].l) \o <<nd[n].k>> \o InOrder(nd[n].r)

RECURSIVE BlackH(_)                                  \* black height, or -1 if the subtrees disagree
BlackH(n) == IF n = Nil THEN 1
             ELSE LET a == BlackH(nd[n].l) b == BlackH(nd[n].r) IN
                  IF a = -1 \/ b = -1 \/ a # b THEN -1 ELSE a + (IF nd[n].red THEN 0 ELSE 1)

RECURSIVE Height(_)
Height(n) == IF n = Nil THEN 0
             ELSE LET a == Height(nd[n].l) b == Height(nd[n].r) IN 1 + (IF a > b THEN a ELSE b)

RECURSIVE Pow2(_)
Pow2(n) == IF n = 0 THEN 1 ELSE 2 * Pow2(n - 1)

NoNullDeref == ~err
MapOK    == /\ nitems = Cardinality(DOMAIN g)
            /\ Nodes(root) = Used /\ Cardinality(Used) = nitems
            /\ {nd[i].k : i \in Used} = DOMAIN g
            /\ \A i \in Used : nd[i].v = g[nd[i].k]
Ordered  == LET s == InOrder(root) IN \A i \in 1..(Len(s) - 1) : s[i] > s[i + 1]     \* strictly descending left to right
RootBlack == root = Nil \/ ~nd[root].red
NoRedRed == \A i \in Used : nd[i].red => (IsBlack(Cur, nd[i].l) /\ IsBlack(Cur, nd[i].r))
Balanced == BlackH(root) # -1
ParentLinks == /\ (root # Nil => nd[root].p = Nil)
               /\ \A i \in Used : /\ (nd[i].l # Nil => nd[nd[i].l].p = i)
                                  /\ (nd[i].r # Nil => nd[nd[i].r].p = i)
HeightBound == Pow2(Height(root)) <= (nitems + 1) * (nitems + 1)                    \* height <= 2 log2(n+1)
TreeOK == NoNullDeref /\ MapOK /\ Ordered /\ RootBlack /\ NoRedRed /\ Balanced /\ ParentLinks /\ HeightBound
AbstractStep == [][FM!Next]_g

-----------------------------------------------------------------------------
(* canonical form independent of node ids: VIEW and state id for the edge cover *)
RECURSIVE Canon(_)
Canon(n) == IF n = Nil THEN <<>> ELSE <<nd[n].k, nd[n].v, IF nd[n].red THEN 1 ELSE 0, Canon(nd[n].l), Canon(nd[n].r)>>
view == <<Canon(root), nitems, err, g>>
RECURSIVE CanonP(_, _)
CanonP(N, n) == IF n = Nil THEN <<>> ELSE <<N[n].k, N[n].v, IF N[n].red THEN 1 ELSE 0, CanonP(N, N[n].l), CanonP(N, N[n].r)>>
EmitEdge == Emit => PrintT(<<"EDGE", ToJson([f |-> CanonP(nd, root), a |-> act', t |-> CanonP(nd', root')])>>)
=============================================================================
