SPECIFICATION Spec
CONSTANTS
  Addrs = {0, 55, 110, 4, 59}
  MaxItems = 5
  Recheck = FALSE
VIEW view
INVARIANT RegistryOK
