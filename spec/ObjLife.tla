------------------------------- MODULE ObjLife -------------------------------
(***************************************************************************)
(* C19: objects keep their true type and allocation class; only heap       *)
(* objects are ever released, exactly once.                                *)
(* An object is obtained in some way (how) which fixes its type and class  *)
(* (static, stack, heap, data = embedded in a container); then disposing   *)
(* operations are applied to it.  Expect gives the outcome of one          *)
(* operation on a live object of a class: "release" (the object is gone),  *)
(* "ok" (a legitimate in-place change of a heap value), or the set of      *)
(* exceptions that must be raised - and then the object is intact.         *)
(***************************************************************************)
EXTENDS Integers, Sequences, FiniteSets, TLC

Classes == {"static", "stack", "heap", "data"}
Releasing == {"del_raw", "dealloc", "dealloc_raw", "dealloc_root"}             \* release any heap object they are given
Managed   == {"del", "del_root"}                                \* go through the collector's registry
InPlace   == {"resize", "assign", "assignin", "concat", "concatself", "push", "pop", "popat",     \* String / Tuple reallocate their own storage
              "append", "printto", "lookfrom", "lookempty", "scanshow"}  \* ... also through formatted writes and look / scan into a String
Ops == Releasing \cup Managed \cup InPlace
Swapping  == {"swapstack", "swapheap"}                          \* swap with an object of the same type from another storage class

(* outcome of op on a live object of class cls; reg = the collector knows it (new / new_root / alloc / copy) *)
Expect(cls, reg, op) ==
  IF op \in Swapping THEN [kind |-> "swap", excs |-> {}]          \* the values change places; each object keeps its own storage class
  ELSE IF cls = "heap"
  THEN IF op \in Releasing THEN [kind |-> "release", excs |-> {}]
       ELSE IF op \in Managed THEN (IF reg THEN [kind |-> "release", excs |-> {}] ELSE [kind |-> "ignored", excs |-> {}])
       ELSE [kind |-> "ok", excs |-> {}]
  ELSE IF op \in Managed THEN [kind |-> "refuse", excs |-> {"ResourceError", "ValueError"}]
  ELSE IF op \in Releasing THEN [kind |-> "refuse", excs |-> {"ResourceError", "ValueError"}]
  ELSE (* in-place reallocation of a stack / static String or Tuple; an embedded (data) String may reallocate its buffer *)
       IF cls = "data" THEN [kind |-> "ok", excs |-> {}] ELSE [kind |-> "refuse", excs |-> {"ValueError", "ResourceError"}]

=============================================================================
