------------------------------ MODULE ViewTrace ------------------------------
(***************************************************************************)
(* C11 trace validation: for every iterable / view the library iterated,   *)
(* forward iteration = Elems(view) and ends after exactly that many items, *)
(* backward iteration = its reverse, len (where defined) = the count and   *)
(* get(i) (where defined) = the i-th item, get(-i) counts from the end.    *)
(***************************************************************************)
EXTENDS Views, Json, IOUtils

T == ndJsonDeserialize(IOEnv.TRACE)
VARIABLE l
IsEv(op) == l <= Len(T) /\ T[l].op = op /\ l' = l + 1
E == T[l]

Init == l = 1
Plain == IsEv("reset") \/ IsEv("end")
View == /\ IsEv("view") /\ E.phase = "iter" /\ E.exc = ""
        /\ LET want == Elems(E.expr) IN
           /\ E.fwd = want                                         \* forward: exactly these, then Terminal
           /\ E.bwd = Reverse(want)                                \* backward: the same items in reverse order
           /\ (E.len >= 0 => E.len = Len(want))                    \* len agrees
           /\ (E.hasget = 1 => E.get = want)                       \* the i-th item is what get(i) returns
           /\ (E.hasgetn = 1 => E.getn = Reverse(want))
           /\ (E.hasasg = 1 => E.asg = want)                      \* a Range / Slice / Zip assigned from this one iterates like it
           /\ (E.hascpy # 0 => E.hascpy = 1 /\ E.cpy = want)    \* a copy of a view iterates like the view (and copying it does not fail)
           /\ (E.hasshown = 1 => E.shown = want)                  \* show lists the items in iteration order
           /\ \A k \in 1..Len(E.oob) : E.oob[k][2] = "IndexOutOfBoundsError"     \* positions outside the view are refused (C12)
           /\ \A k \in 1..Len(E.mems) :                          \* mem(view, x) holds exactly for the items the view yields
                 E.mems[k][2] = (IF \E p \in 1..Len(want) : want[p] = E.mems[k][1] THEN 1 ELSE 0)
(* slices of a Range of N items, N beyond 2^31 (items logged relative to N; N itself in two parts): the last four, the last three
   addressed from the end, a stop beyond the end, every second of the last five, and the reversed view (length N, first item N - 1) *)
LongWant(k) == CASE k = "tail4" -> <<-4, -3, -2, -1>> [] k = "neg3" -> <<-3, -2, -1>> [] k = "clamp" -> <<-2, -1>> [] k = "step2" -> <<-5, -3, -1>> [] OTHER -> <<-1>>
LongView == /\ IsEv("longview") /\ E.exc = ""
            /\ E.fwd = LongWant(E.kind)
            /\ IF E.kind = "rev" THEN E.lenhi = E.a /\ E.lenlo = E.b
               ELSE E.bwd = Reverse(LongWant(E.kind)) /\ E.lenhi = 0 /\ E.lenlo = Len(LongWant(E.kind))
(* Zips whose inputs yield NULL items (two Zips of n pairs each): as many pairs backwards as forwards, in reverse order *)
ZipNull == IsEv("zipnull") /\ E.exc = "" /\ E.fwd = 2 * E.n /\ E.bwd = 2 * E.n /\ E.revok = 1 /\ E.nulls = (E.n \div 2) + (IF E.n > 1 THEN 1 ELSE 0)
Next == Plain \/ View \/ LongView \/ ZipNull
Spec == Init /\ [][Next]_l
Accepted == LET d == TLCGet("stats").diameter IN
            /\ PrintT(<<"TRACE_MATCHED", d - 1, Len(T)>>)
            /\ d - 1 = Len(T)
=============================================================================
