---------------------------- MODULE CStringModel ----------------------------
(***************************************************************************)
(* Exhaustive model for C16: all histories of one heap String over a two   *)
(* letter alphabet, operands empty / equal / prefix / middle / suffix /    *)
(* overlapping / absent.  Layer I: the byte buffer of src/String.c with    *)
(* its terminator and String_Rem's memmove arithmetic transcribed; the     *)
(* invariant says the visible bytes (up to the first NUL) are the abstract *)
(* string and the terminator lies inside the allocation.                   *)
(*   RemCount = "fixed"  strlen(pos) - strlen(sub) + 1  (bytes after the   *)
(*                       match, terminator included)                       *)
(*   RemCount = "found"  strlen(self) - strlen(pos) - strlen(sub) + 1 as   *)
(*                       found: only right when the match is a suffix      *)
(***************************************************************************)
EXTENDS CString, Json

CONSTANTS Alpha, MaxLen, MaxArg, RemCount, Emit

VARIABLES s, buf, act          \* s: abstract string; buf: allocation contents (0 = NUL, -1 = indeterminate)
vars == <<s, buf, act>>
view == <<s, buf>>

Strs(n) == UNION {[1..k -> Alpha] : k \in 0..n}
Visible(b) == LET z == {i \in 1..Len(b) : b[i] = 0} IN
              IF z = {} THEN b ELSE SubSeq(b, 1, (CHOOSE i \in z : \A j \in z : i <= j) - 1)
WithNul(x) == x \o <<0>>

Init == s = <<>> /\ buf = <<0>> /\ act = [op |-> "new"]

Assign(t) == s' = t /\ buf' = WithNul(t) /\ act' = [op |-> "assign", t |-> t, exc |-> ""]           \* realloc(strlen+1); strcpy
Concat(t) == /\ Len(s) + Len(t) <= MaxLen
             /\ s' = s \o t /\ buf' = WithNul(Visible(buf) \o t) /\ act' = [op |-> "concat", t |-> t, exc |-> ""]
Resize(n) == /\ s' = Truncate(s, n) /\ act' = [op |-> "resize", n |-> n, exc |-> ""]
             /\ buf' = IF n > Len(Visible(buf)) THEN Visible(buf) \o [i \in 1..(n - Len(Visible(buf)) + 1) |-> 0]     \* memset 0 + the new end
                       ELSE WithNul(SubSeq(buf, 1, n))
(* String_Rem: pos = strstr; memmove(pos, pos + strlen(sub), count) *)
MoveBytes(b, dst, src, cnt) == [i \in 1..Len(b) |-> IF i >= dst /\ i < dst + cnt THEN (IF src + (i - dst) <= Len(b) THEN b[src + (i - dst)] ELSE -1) ELSE b[i]]
Rem(t) == LET p == FirstOcc(Visible(buf), t) IN
          IF p = 0 THEN /\ act' = [op |-> "rem", t |-> t, exc |-> "ValueError"] /\ UNCHANGED <<s, buf>>      \* absent: refused, unchanged
          ELSE LET self == Len(Visible(buf))
                   posl == self - p + 1                                           \* strlen(pos)
                   cnt == IF RemCount = "fixed" THEN posl - Len(t) + 1 ELSE self - posl - Len(t) + 1
               IN /\ s' = RemFirst(s, t)
                  /\ buf' = IF cnt > 0 THEN MoveBytes(buf, p, p + Len(t), cnt) ELSE buf
                  /\ act' = [op |-> "rem", t |-> t, exc |-> ""]
WriteF(pos, t) == /\ pos <= Len(s) /\ pos + Len(t) <= MaxLen
                  /\ s' = WriteAt(s, pos, t) /\ buf' = WithNul(SubSeq(buf, 1, pos) \o t)
                  /\ act' = [op |-> "printat", pos |-> pos, t |-> t, exc |-> ""]

Next == \/ \E t \in Strs(MaxArg) : Assign(t) \/ Concat(t) \/ Rem(t)
        \/ \E n \in 0..(MaxLen + 1) : Resize(n)
        \/ \E pos \in 0..MaxLen, t \in Strs(MaxArg) : WriteF(pos, t)
Spec == Init /\ [][Next]_vars

StringOK == /\ Visible(buf) = s                                   \* the characters are the abstract string
            /\ \E i \in 1..Len(buf) : buf[i] = 0                  \* NUL-terminated inside its own allocation
            /\ \A i \in 1..Len(s) : s[i] \in Alpha
            /\ Len(s) <= MaxLen

Sid(x) == x
EmitEdge == Emit => PrintT(<<"EDGE", ToJson([f |-> s, a |-> act', t |-> s'])>>)
=============================================================================
