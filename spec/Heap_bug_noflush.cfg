SPECIFICATION Spec
CONSTANTS
  Obj = {1, 2, 3}
  MaxSteps = 5
  TlsRecurse = TRUE
  SweepCoop = TRUE
  Emit = FALSE
  ClearOnProcess = TRUE
  Spawners = FALSE
  NestedSweep = FALSE
  TeardownLoop = TRUE
  Registers = TRUE
  FlushRegs = FALSE
  Holders = FALSE
  RootCountOnce = FALSE
  StopOps = FALSE
VIEW view
ACTION_CONSTRAINT EmitEdge
INVARIANT TypeOK
INVARIANT Once
INVARIANT DelWorks
INVARIANT DownClean
INVARIANT NoZombie
INVARIANT RegExact
PROPERTY SafeCollect
