----------------------------- MODULE FiniteMap -----------------------------
(***************************************************************************)
(* Layer A for C02 (Table) and the map part of C03 (Tree): a finite map    *)
(* from keys to values.  This is what the property says a Table *is*; the  *)
(* implementation-shaped model TableImpl refines it (checked by TLC), and  *)
(* recorded executions of src/Table.c are validated against it (MapTrace). *)
(***************************************************************************)
EXTENDS Naturals, FiniteSets, Sequences, TLC

CONSTANTS Keys, Vals

VARIABLE m        \* the bindings: a function whose domain is a subset of Keys

EmptyMap == [x \in {} |-> 0]

Put(mm, k, v) == [x \in (DOMAIN mm) \cup {k} |-> IF x = k THEN v ELSE mm[x]]
Drop(mm, k)   == [x \in (DOMAIN mm) \ {k} |-> mm[x]]

\* observers
Size(mm)     == Cardinality(DOMAIN mm)
Mem(mm, k)   == k \in DOMAIN mm
\* result of get: value, or the exception name
Get(mm, k)   == IF k \in DOMAIN mm THEN mm[k] ELSE "KeyError"

Init == m = EmptyMap

Set(k, v)   == m' = Put(m, k, v)
Rem(k)      == k \in DOMAIN m /\ m' = Drop(m, k)
RemFail(k)  == k \notin DOMAIN m /\ UNCHANGED m          \* raises KeyError, changes nothing
Clear       == m' = EmptyMap                             \* resize(t, 0)
Reserve     == UNCHANGED m                               \* resize(t, n >= len), copy of itself, rehash
AssignFrom(src) == m' = src                              \* assign(t, other): exactly the other's bindings

Next == \/ \E k \in Keys, v \in Vals : Set(k, v)
        \/ \E k \in Keys : Rem(k) \/ RemFail(k)
        \/ Clear
        \/ Reserve

Spec == Init /\ [][Next]_m

TypeOK == /\ DOMAIN m \subseteq Keys
          /\ \A k \in DOMAIN m : m[k] \in Vals
=============================================================================
