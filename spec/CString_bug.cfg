SPECIFICATION Spec
CONSTANTS
  Alpha = {1, 2}
  MaxLen = 4
  MaxArg = 2
  RemCount = "found"
  Emit = FALSE
VIEW view
INVARIANT StringOK
ACTION_CONSTRAINT EmitEdge
