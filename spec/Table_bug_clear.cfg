\* exhaustive, quick tier: 5 keys (3 colliding modulo 1, 5, 11; 2 wrapping at the last slot of size 5)
SPECIFICATION Spec
CONSTANTS
  Keys = {0, 55, 110, 4, 59}
  Vals = {1, 2}
  MaxItems = 5
  Strict = TRUE
  FixClear = FALSE
  Emit = FALSE
VIEW view
INVARIANT MapOK
INVARIANT RobinOK
PROPERTY AbstractStep
ACTION_CONSTRAINT EmitEdge
