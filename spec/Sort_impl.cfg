SPECIFICATION Spec
CONSTANTS
  Vals = {0, 1, 2}
  MaxLen = 5
  VisitPivot = FALSE
  Emit = TRUE
INVARIANT SortOK
ACTION_CONSTRAINT EmitCase
