SPECIFICATION Spec
CONSTANT Mode = "hash"
POSTCONDITION Accepted
CHECK_DEADLOCK FALSE
