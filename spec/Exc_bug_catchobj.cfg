SPECIFICATION Spec
CONSTANTS
  Kinds = {"A", "B"}
  MaxNest = 3
  MaxSteps = 9
  ObjKeptInCatch = FALSE
  ObjAfterMsg = TRUE
  ClearActive = TRUE
  FilterTry = "off"
  Emit = FALSE
VIEW view
INVARIANT ExcOK
ACTION_CONSTRAINT EmitEdge
