SPECIFICATION Spec
CONSTANT Mode = "reach"
POSTCONDITION Accepted
CHECK_DEADLOCK FALSE
