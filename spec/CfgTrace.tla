----------------------------- MODULE CfgTrace -----------------------------
(***************************************************************************)
(* C18 trace validation of the allocation-heavy mixed program (h_cfg).     *)
(* The program is deterministic: the specification has no configuration    *)
(* variable, so the digest of a round is a function of (seed, round) only. *)
(* One log holds the same program run under several configurations         *)
(* (event field cfg); the first configuration that reports a (seed, round) *)
(* fixes its digest and every other one must agree.  No live object may    *)
(* have lost its value and no exception may escape a round.                *)
(***************************************************************************)
EXTENDS Integers, Sequences, FiniteSets, TLC, Json, IOUtils
T == ndJsonDeserialize(IOEnv.TRACE)
VARIABLES l, seen, nextRound
vars == <<l, seen, nextRound>>
IsEv(op) == l <= Len(T) /\ T[l].op = op /\ l' = l + 1
E == T[l]
Init == l = 1 /\ seen = <<>> /\ nextRound = 0
Key(e) == <<e.seed, e.round>>
Known(k) == \E i \in 1..Len(seen) : seen[i][1] = k
DigestOf(k) == (CHOOSE i \in 1..Len(seen) : seen[i][1] = k)
Reset == IsEv("reset") /\ nextRound' = 0 /\ UNCHANGED seen        \* a new configuration starts; what was seen stays
End == IsEv("end") /\ UNCHANGED <<seen, nextRound>>
Mix == /\ IsEv("mix")
       /\ E.lost = 0 /\ E.exc = ""
       /\ E.round = nextRound /\ nextRound' = nextRound + 1
       /\ IF Known(Key(E)) THEN seen[DigestOf(Key(E))][2] = E.digest /\ UNCHANGED seen
          ELSE seen' = Append(seen, <<Key(E), E.digest>>)
NewProgram == IsEv("program") /\ nextRound' = 0 /\ UNCHANGED seen
Next == Reset \/ End \/ Mix \/ NewProgram
Spec == Init /\ [][Next]_vars
Accepted == LET d == TLCGet("stats").diameter IN
            /\ PrintT(<<"TRACE_MATCHED", d - 1, Len(T)>>)
            /\ d - 1 = Len(T)
=============================================================================
