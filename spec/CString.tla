------------------------------- MODULE CString -------------------------------
(***************************************************************************)
(* Layer A for C16: a String is a sequence of non-zero bytes; every        *)
(* operation means what the C library means on that sequence.              *)
(***************************************************************************)
EXTENDS Integers, Sequences, FiniteSets, TLC

(* positions (1-based) at which sub occurs in s; the empty string occurs at position 1 (strstr) *)
OccursAt(s, sub, p) == p + Len(sub) - 1 <= Len(s) /\ SubSeq(s, p, p + Len(sub) - 1) = sub
FirstOcc(s, sub) == IF \E p \in 1..(Len(s) + 1) : OccursAt(s, sub, p)
                    THEN CHOOSE p \in 1..(Len(s) + 1) : OccursAt(s, sub, p) /\ \A q \in 1..(p - 1) : ~OccursAt(s, sub, q)
                    ELSE 0
Contains(s, sub) == FirstOcc(s, sub) # 0                                         \* mem = substring test (strstr)
RemFirst(s, sub) == LET p == FirstOcc(s, sub) IN SubSeq(s, 1, p - 1) \o SubSeq(s, p + Len(sub), Len(s))   \* delete the first occurrence
Truncate(s, n) == IF n < Len(s) THEN SubSeq(s, 1, n) ELSE s                      \* resize: growing does not change the string
WriteAt(s, pos, text) == IF pos <= Len(s) THEN SubSeq(s, 1, pos) \o text ELSE s  \* formatted write at a position (text + NUL)

(* strcmp: unsigned bytes, a proper prefix is smaller *)
RECURSIVE StrCmp(_, _)
StrCmp(a, b) == IF a = <<>> /\ b = <<>> THEN 0
                ELSE IF a = <<>> THEN -1 ELSE IF b = <<>> THEN 1
                ELSE IF Head(a) < Head(b) THEN -1 ELSE IF Head(a) > Head(b) THEN 1
                ELSE StrCmp(Tail(a), Tail(b))
Sign(x) == IF x < 0 THEN -1 ELSE IF x > 0 THEN 1 ELSE 0
=============================================================================
