-------------------------------- MODULE Heap --------------------------------
(***************************************************************************)
(* C01 / C06: the mutator's heap and one thread's collector.               *)
(*                                                                         *)
(* Abstract part (what the properties talk about): objects with pointer    *)
(* fields, three roots (stack, thread-local storage, root-registered       *)
(* objects), reachability, finalisation counts.                            *)
(* Implementation-shaped part (src/GC.c, src/Alloc.c, src/Pointer.c):      *)
(*   New      alloc_by -> GC_Set: registers unless the collector is stopped *)
(*   Del      del_by -> GC_Rem -> GC_Rem_Ptr: clears the pending-list entry,*)
(*            finalises only what the registry knows; ignored when stopped *)
(*   Collect  GC_Mark (TLS table, root entries, stack) + GC_Sweep: phase 1 *)
(*            moves every unmarked non-root entry to the pending list and  *)
(*            out of the registry, phase 2 destructs + frees the pending   *)
(*            entries in slot order (= any order); a Box destructor calls  *)
(*            del on its pointee in the middle of phase 2                  *)
(*   Teardown GC_Del = a sweep with nothing marked                          *)
(* Conservative scanning may retain garbage: Collect may keep any subset of *)
(* the unmarked objects.                                                    *)
(* Switches (TRUE = the tree after the fix: commits):                       *)
(*   TlsRecurse  GC_Mark traces the values stored in thread-local storage   *)
(*   SweepCoop   del of an object that is on the pending list finalises it  *)
(*   ClearOnProcess  GC_Sweep clears a free-list entry before finalising it *)
(*   StopOps     FALSE = allocate / delete inside a stop window are withheld *)
(*               (open finding: stopped collector neither registers nor     *)
(*               deletes); TRUE lets TLC exhibit the defect                 *)
(*   Spawners    objects of kind "spawner" exist: their finaliser allocates *)
(*               a fresh managed object (alloc_by -> GC_Set in the middle   *)
(*               of phase 2, or during teardown)                            *)
(*   NestedSweep FALSE = a sweep started from inside a sweep works on a     *)
(*               list of its own and the enclosing sweep keeps its list     *)
(*               (fix: commits); TRUE = as found: the nested sweep takes    *)
(*               the pending list over                                      *)
(*   TeardownLoop TRUE = GC_Del sweeps until nothing collectable is left;   *)
(*               FALSE = as found: one sweep                                *)
(***************************************************************************)
EXTENDS Integers, FiniteSets, Sequences, TLC, Json

CONSTANTS Obj, MaxSteps, TlsRecurse, SweepCoop, StopOps, Spawners, NestedSweep, TeardownLoop, Registers, FlushRegs, Holders, RootCountOnce,
          Emit, ClearOnProcess   \* phase 2 clears a pending entry before finalising it (needed once SweepCoop is on)

VARIABLES st,        \* st[o] \in {"free", "live", "final"}
          kind,      \* "plain" (struct / Ref / container) | "box" | "spawner" (its finaliser allocates)
          mode,      \* "std" | "root" | "raw"
          fld,       \* fld[o] \subseteq Obj : pointer fields / elements
          owned,     \* objects owned through a Box
          stack, tls,
          cpu,       \* objects the mutator references from callee-saved registers ONLY (a local an optimising compiler never spilled)
          reg,       \* the collector's registry (set of objects), rootf = its root flags
          rootf,
          fin,       \* fin[o] = how many times o was finalised (destructed + released)
          asked,     \* objects the mutator deleted explicitly
          running, down,
          swept,     \* objects reclaimed BY THE SWEEP of the last collection (not through ownership)
          steps, act

vars == <<st, kind, mode, fld, owned, stack, cpu, tls, reg, rootf, fin, asked, running, down, swept, steps, act>>

Live == {o \in Obj : st[o] = "live"}

(* closure of S under fld, through objects in Via only *)
RECURSIVE Reach(_, _, _)
Reach(S, seen, Via) ==
  LET nxt == (UNION {fld[o] : o \in S \cap Via}) \ seen
  IN IF nxt = {} THEN seen ELSE Reach(nxt, seen \cup nxt, Via)

Roots == stack \cup cpu \cup tls \cup {o \in reg : rootf[o]}
(* C01's notion: reachable from the stack, TLS or a root-registered object through managed objects *)
Reachable == Reach(Roots, Roots, reg) \cap Live

(* what GC_Mark marks *)
(* (the registers are roots only because GC_Mark spills them into its own frame - setjmp on a LOCAL buffer - before it scans the stack) *)
MarkRoots == stack \cup (IF FlushRegs THEN cpu ELSE {}) \cup {o \in reg : rootf[o]} \cup (IF TlsRecurse THEN tls ELSE {})
Marked == Reach(MarkRoots, MarkRoots, reg) \cap reg

-----------------------------------------------------------------------------
(* finalisation of x by destruct+dealloc; a Box deletes its pointee through del -> GC_Rem_Ptr.   *)
(* R = registry now, P = pending list now, F = fin, S = st.  Returns <<R, P, F, S>>.             *)
RECURSIVE Finalise(_, _, _, _, _)
Finalise(x, R, P, F, S) ==
  LET F1 == [F EXCEPT ![x] = @ + 1]
      S1 == [S EXCEPT ![x] = "final"]
  IN IF kind[x] = "box" /\ fld[x] # {}
     THEN LET v == CHOOSE y \in fld[x] : TRUE
              P1 == P \ {v}                                   \* GC_Rem_Ptr NULLs the pending entry first
          IN IF v \in R /\ S1[v] = "live" THEN Finalise(v, R \ {v}, P1, F1, S1)        \* registered: removed and finalised
             ELSE IF v \in P /\ SweepCoop THEN Finalise(v, R, P1, F1, S1)                  \* pending: finalised now
             ELSE <<R, P1, F1, S1>>                           \* unknown to the registry: silently ignored
     ELSE IF kind[x] = "holder"
     THEN \* its finaliser releases the ROOT object it owns (del_root: out of the registry and finalised) and leaves a note (allocates)
          LET v == CHOOSE y \in fld[x] : TRUE
              r == IF v \in R /\ S1[v] = "live" THEN Finalise(v, R \ {v}, P \ {v}, F1, S1) ELSE <<R, P, F1, S1>>
              free == {c \in Obj : r[4][c] = "free" /\ r[3][c] = 0} IN
          IF free = {} THEN r
          ELSE LET c == CHOOSE c \in free : \A d \in free : c <= d IN <<r[1] \cup {c}, r[2], r[3], [r[4] EXCEPT ![c] = "live"]>>
     ELSE IF kind[x] = "spawner" /\ \E c \in Obj : S1[c] = "free" /\ F1[c] = 0
     THEN LET c == CHOOSE c \in Obj : S1[c] = "free" /\ F1[c] = 0 /\ \A d \in Obj : (S1[d] = "free" /\ F1[d] = 0) => c <= d IN
          \* the finaliser allocates c: registered at once (never on the mutator's stack: garbage from the start);
          \* as found, crossing the threshold here started a nested sweep that took the pending list over
          <<R \cup {c}, IF NestedSweep THEN {} ELSE P, F1, [S1 EXCEPT ![c] = "live"]>>
     ELSE <<R, P, F1, S1>>

(* phase 2 of GC_Sweep: the pending list in the given order *)
RECURSIVE Phase2(_, _, _, _, _)
Phase2(order, R, P, F, S) ==
  IF order = <<>> THEN <<R, F, S>>
  ELSE LET x == Head(order) IN
       IF x \in P /\ (ClearOnProcess \/ S[x] = "live" \/ TRUE)
       THEN LET r == Finalise(x, R, IF ClearOnProcess THEN P \ {x} ELSE P, F, S) IN Phase2(Tail(order), r[1], r[2], r[3], r[4])
       ELSE Phase2(Tail(order), R, P, F, S)

Perms(S) == {f \in [1..Cardinality(S) -> S] : \A i, j \in 1..Cardinality(S) : i # j => f[i] # f[j]}

Tick(a) == steps' = steps + 1 /\ act' = a /\ steps < MaxSteps

-----------------------------------------------------------------------------
Init == /\ st = [o \in Obj |-> "free"] /\ kind = [o \in Obj |-> "plain"] /\ mode = [o \in Obj |-> "std"]
        /\ fld = [o \in Obj |-> {}] /\ owned = {} /\ stack = {} /\ cpu = {} /\ tls = {} /\ reg = {} /\ rootf = [o \in Obj |-> FALSE]
        /\ fin = [o \in Obj |-> 0] /\ asked = {} /\ running = TRUE /\ down = FALSE /\ swept = {} /\ steps = 0 /\ act = [op |-> "init"]

(* new / new_root / new_raw of a plain object; the mutator holds it on its stack *)
New(o, md) ==
  /\ ~down /\ st[o] = "free" /\ fin[o] = 0 /\ (running \/ StopOps \/ md = "raw")
  /\ \A p \in Obj : p < o => st[p] # "free" \/ fin[p] > 0          \* symmetry: allocate ids in order
  /\ Tick([op |-> "new", o |-> o, md |-> md])
  /\ st' = [st EXCEPT ![o] = "live"] /\ kind' = [kind EXCEPT ![o] = "plain"] /\ mode' = [mode EXCEPT ![o] = md]
  /\ fld' = [fld EXCEPT ![o] = {}] /\ stack' = stack \cup {o} /\ cpu' = cpu
  /\ IF md # "raw" /\ running THEN reg' = reg \cup {o} /\ rootf' = [rootf EXCEPT ![o] = (md = "root")]
     ELSE UNCHANGED <<reg, rootf>>                                 \* GC_Set returns at once when stopped
  /\ UNCHANGED <<owned, tls, fin, asked, running, down, swept>>

(* an object whose finaliser allocates *)
NewSpawner(o) ==
  /\ Spawners /\ ~down /\ st[o] = "free" /\ fin[o] = 0 /\ running
  /\ \A p \in Obj : p < o => st[p] # "free" \/ fin[p] > 0
  /\ Tick([op |-> "newspawner", o |-> o])
  /\ st' = [st EXCEPT ![o] = "live"] /\ kind' = [kind EXCEPT ![o] = "spawner"] /\ mode' = [mode EXCEPT ![o] = "std"]
  /\ fld' = [fld EXCEPT ![o] = {}] /\ stack' = stack \cup {o} /\ cpu' = cpu
  /\ reg' = reg \cup {o} /\ rootf' = [rootf EXCEPT ![o] = FALSE]
  /\ UNCHANGED <<owned, tls, fin, asked, running, down, swept>>

(* an object that owns a ROOT object (made with new_root) and releases it in its finaliser, allocating while it is at it *)
NewHolder(h, r) ==
  /\ Holders /\ ~down /\ st[h] = "free" /\ fin[h] = 0 /\ running
  /\ \A q \in Obj : q < h => st[q] # "free" \/ fin[q] > 0
  /\ st[r] = "live" /\ r \in reg /\ rootf[r] /\ r \notin owned /\ kind[r] = "plain" /\ r \notin asked
  /\ \A q \in Obj : r \notin fld[q]
  /\ Tick([op |-> "newholder", o |-> h, p |-> r])
  /\ st' = [st EXCEPT ![h] = "live"] /\ kind' = [kind EXCEPT ![h] = "holder"] /\ mode' = [mode EXCEPT ![h] = "std"]
  /\ fld' = [fld EXCEPT ![h] = {r}] /\ owned' = owned \cup {r} /\ stack' = (stack \ {r}) \cup {h} /\ cpu' = cpu \ {r}
  /\ reg' = reg \cup {h} /\ rootf' = [rootf EXCEPT ![h] = FALSE]
  /\ UNCHANGED <<tls, fin, asked, running, down, swept>>

(* new(Box, p): the Box owns p from now on *)
NewBox(b, p, md) ==
  /\ ~down /\ st[b] = "free" /\ fin[b] = 0 /\ running
  /\ \A q \in Obj : q < b => st[q] # "free" \/ fin[q] > 0
  /\ st[p] = "live" /\ p \in reg /\ ~rootf[p] /\ p \notin owned /\ kind[p] = "plain" /\ p \notin asked
  /\ \A q \in Obj : p \notin fld[q]                                 \* in contract: the pointee is not aliased
  /\ Tick([op |-> "newbox", o |-> b, p |-> p, md |-> md])
  /\ st' = [st EXCEPT ![b] = "live"] /\ kind' = [kind EXCEPT ![b] = "box"] /\ mode' = [mode EXCEPT ![b] = md]
  /\ fld' = [fld EXCEPT ![b] = {p}] /\ owned' = owned \cup {p} /\ stack' = stack \cup {b} /\ cpu' = cpu
  /\ reg' = reg \cup {b} /\ rootf' = [rootf EXCEPT ![b] = (md = "root")]
  /\ UNCHANGED <<tls, fin, asked, running, down, swept>>

Store(o, p) == /\ ~down /\ st[o] = "live" /\ st[p] = "live" /\ kind[o] = "plain" /\ p \notin owned /\ p \notin fld[o]
               /\ Cardinality(fld[o]) < 2 /\ Tick([op |-> "store", o |-> o, p |-> p])
               /\ fld' = [fld EXCEPT ![o] = @ \cup {p}]
               /\ UNCHANGED <<st, kind, mode, owned, stack, cpu, tls, reg, rootf, fin, asked, running, down, swept>>
Drop(o) == /\ ~down /\ o \in stack \cup cpu /\ Tick([op |-> "drop", o |-> o]) /\ stack' = stack \ {o} /\ cpu' = cpu \ {o}
           /\ UNCHANGED <<st, kind, mode, fld, owned, tls, reg, rootf, fin, asked, running, down, swept>>
(* the compiler moves a local between a stack slot and a callee-saved register: invisible to the program *)
Enregister(o) == /\ Registers /\ ~down /\ o \in stack /\ Cardinality(cpu) < 2 /\ Tick([op |-> "enregister", o |-> o])
                 /\ stack' = stack \ {o} /\ cpu' = cpu \cup {o}
                 /\ UNCHANGED <<st, kind, mode, fld, owned, tls, reg, rootf, fin, asked, running, down, swept>>
Spill(o) == /\ Registers /\ ~down /\ o \in cpu /\ Tick([op |-> "spill", o |-> o])
            /\ stack' = stack \cup {o} /\ cpu' = cpu \ {o}
            /\ UNCHANGED <<st, kind, mode, fld, owned, tls, reg, rootf, fin, asked, running, down, swept>>
SetTls(o) == /\ ~down /\ st[o] = "live" /\ o \notin tls /\ mode[o] = "std" /\ Tick([op |-> "settls", o |-> o]) /\ tls' = tls \cup {o}
             /\ UNCHANGED <<st, kind, mode, fld, owned, stack, cpu, reg, rootf, fin, asked, running, down, swept>>

(* explicit del / del_root / del_raw by the mutator (once per object, never of a Box-owned object) *)
Del(o) ==
  /\ ~down /\ st[o] = "live" /\ o \notin asked /\ o \notin owned /\ (running \/ StopOps \/ mode[o] = "raw")
  /\ \A q \in Obj : (st[q] = "live" /\ q # o) => o \notin fld[q]     \* in contract: no dangling references left behind
  /\ Tick([op |-> "del", o |-> o])
  /\ asked' = asked \cup {o}
  /\ IF mode[o] = "raw"
     THEN LET r == Finalise(o, reg, {}, fin, st) IN reg' = r[1] /\ fin' = r[3] /\ st' = r[4]
     ELSE IF running /\ o \in reg
          THEN LET r == Finalise(o, reg \ {o}, {}, fin, st) IN reg' = r[1] /\ fin' = r[3] /\ st' = r[4]
          ELSE UNCHANGED <<reg, fin, st>>                           \* stopped, or unknown to the registry: ignored
  /\ stack' = (stack \ {o}) \cap {x \in Obj : st'[x] = "live"} /\ cpu' = (cpu \ {o}) \cap {x \in Obj : st'[x] = "live"} /\ tls' = (tls \ {o}) \cap {x \in Obj : st'[x] = "live"}
  /\ UNCHANGED <<kind, mode, fld, owned, rootf, running, down, swept>>

Collect ==
  /\ ~down /\ running /\ reg # {} /\ Tick([op |-> "collect"])
  /\ \E extra \in SUBSET (reg \ Marked) :
       LET keep == Marked \cup extra \cup {o \in reg : rootf[o]}
           dead == reg \ keep IN
       \E order \in Perms(dead) :
         LET r == Phase2([i \in 1..Cardinality(dead) |-> order[i]], keep, dead, fin, st) IN
         reg' = r[1] /\ fin' = r[2] /\ st' = r[3] /\ swept' = dead
  /\ stack' = stack \cap {o \in Obj : st'[o] = "live"} /\ cpu' = cpu \cap {o \in Obj : st'[o] = "live"} /\ tls' = tls \cap {o \in Obj : st'[o] = "live"}
  /\ UNCHANGED <<kind, mode, fld, owned, rootf, asked, running, down>>

Stop  == ~down /\ running /\ Tick([op |-> "stop"]) /\ running' = FALSE
         /\ UNCHANGED <<st, kind, mode, fld, owned, stack, cpu, tls, reg, rootf, fin, asked, down, swept>>
Start == ~down /\ ~running /\ Tick([op |-> "start"]) /\ running' = TRUE
         /\ UNCHANGED <<st, kind, mode, fld, owned, stack, cpu, tls, reg, rootf, fin, asked, down, swept>>

(* thread / program exit: GC_Del sweeps with nothing marked *)
RECURSIVE TearMore(_, _, _, _)
TearMore(R, F, S, n0) ==                   \* further passes of GC_Del: whatever the finalisers of the last pass allocated
  LET dead == {o \in R : ~rootf[o]} IN     \* (the collectable entries are counted afresh for every pass; RootCountOnce: the roots
  IF dead = {} \/ ~TeardownLoop \/ (RootCountOnce /\ Cardinality(R) <= n0) THEN <<R, F, S>>       \* were counted once, before the first)
  ELSE LET order == CHOOSE f \in Perms(dead) : TRUE
           r == Phase2([i \in 1..Cardinality(dead) |-> order[i]], R \ dead, dead, F, S) IN
       TearMore(r[1], r[2], r[3], n0)
Teardown ==
  /\ ~down /\ act' = [op |-> "teardown"] /\ steps' = steps
  /\ LET dead == {o \in reg : ~rootf[o]} IN
     \E order \in Perms(dead) :
       LET r == Phase2([i \in 1..Cardinality(dead) |-> order[i]], reg \ dead, dead, fin, st)
           t == TearMore(r[1], r[2], r[3], Cardinality({o \in reg : rootf[o]})) IN
       reg' = t[1] /\ fin' = t[2] /\ st' = t[3]
  /\ down' = TRUE /\ swept' = {}
  /\ stack' = stack \cap {o \in Obj : st'[o] = "live"} /\ cpu' = cpu \cap {o \in Obj : st'[o] = "live"} /\ tls' = tls \cap {o \in Obj : st'[o] = "live"}
  /\ UNCHANGED <<kind, mode, fld, owned, rootf, asked, running>>

Next == \/ \E o \in Obj, md \in {"std", "root", "raw"} : New(o, md)
        \/ \E b, p \in Obj : NewBox(b, p, "std")
        \/ \E o \in Obj : NewSpawner(o)
        \/ \E h, r \in Obj : NewHolder(h, r)
        \/ \E o, p \in Obj : Store(o, p)
        \/ \E o \in Obj : Drop(o) \/ SetTls(o) \/ Del(o)
        \/ \E o \in Obj : Enregister(o) \/ Spill(o)
        \/ Collect \/ Stop \/ Start \/ Teardown

Spec == Init /\ [][Next]_vars

-----------------------------------------------------------------------------
(* C01 *)
SafeCollect == [][act'.op = "collect" => (swept' \cap Reachable = {})]_vars
(* C06 *)
Once      == \A o \in Obj : fin[o] <= 1
DelWorks  == \A o \in asked : fin[o] = 1                                 \* an explicit del finalises, at once
DownClean == down => \A o \in Obj : (st[o] # "free" /\ mode[o] = "std") => fin[o] = 1
NoZombie  == \A o \in Obj : (st[o] = "final") = (fin[o] >= 1)
(* C17 at this level of abstraction: the registry is exactly the live managed objects *)
RegExact  == ~StopOps => reg = {o \in Obj : st[o] = "live" /\ mode[o] # "raw"}
view == <<st, kind, mode, fld, owned, stack, cpu, tls, reg, rootf, fin, asked, running, down, swept, steps>>
Sid == <<[o \in Obj |-> <<st[o], kind[o], mode[o], fld[o], fin[o]>>], stack, tls, reg, asked, running, down, steps>>
Sid2 == <<[o \in Obj |-> <<st'[o], kind'[o], mode'[o], fld'[o], fin'[o]>>], stack', tls', reg', asked', running', down', steps'>>
EmitEdge == Emit => PrintT(<<"EDGE", ToJson([f |-> Sid, a |-> act', t |-> Sid2])>>)
TypeOK    == reg \subseteq Obj /\ stack \subseteq Live /\ tls \subseteq Live /\ cpu \subseteq Live /\ cpu \cap stack = {}
=============================================================================
