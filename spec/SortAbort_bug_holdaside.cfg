SPECIFICATION Spec
CONSTANTS
  Vals = {1, 2, 3}
  Odd = 99
  MaxLen = 6
  HoldAside = TRUE
INVARIANT PermAlways
INVARIANT RaisedIff
INVARIANT SortedIfNot
CHECK_DEADLOCK FALSE
