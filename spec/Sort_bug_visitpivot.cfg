SPECIFICATION Spec
CONSTANTS
  Vals = {0, 1, 2}
  MaxLen = 5
  VisitPivot = TRUE
  Emit = FALSE
INVARIANT SortOK
ACTION_CONSTRAINT EmitCase
