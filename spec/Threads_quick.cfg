SPECIFICATION Spec
CONSTANTS
  Kids = {1, 2}
  MaxOwn = 2
  ParentWalksChildTls = FALSE
INVARIANT ThreadsOK
PROPERTY Isolation
