SPECIFICATION Spec
CONSTANT Mode = "fail"
POSTCONDITION Accepted
CHECK_DEADLOCK FALSE
