SPECIFICATION Spec
CONSTANTS
  Kinds = {"A", "B"}
  MaxNest = 3
  MaxSteps = 9
  ObjKeptInCatch = TRUE
  ObjAfterMsg = TRUE
  ClearActive = TRUE
  FilterTry = "kept"
  Emit = FALSE
VIEW view
INVARIANT ExcOK
ACTION_CONSTRAINT EmitEdge
