------------------------------- MODULE ObjTrace -------------------------------
(* C19 trace validation: what h_obj observed for every way of obtaining an object and every disposing operation *)
EXTENDS ObjLife, Json, IOUtils
T == ndJsonDeserialize(IOEnv.TRACE)
VARIABLES l, ocls, oreg, gone
tv == <<l, ocls, oreg, gone>>
IsEv(op) == l <= Len(T) /\ T[l].op = op /\ l' = l + 1
E == T[l]
ClsName(a) == CASE a = 1 -> "static" [] a = 2 -> "stack" [] a = 3 -> "heap" [] a = 4 -> "data" [] OTHER -> "bad"

TInit == l = 1 /\ ocls = "none" /\ oreg = FALSE /\ gone = FALSE
Plain == (IsEv("reset") \/ IsEv("end")) /\ UNCHANGED <<ocls, oreg, gone>>
(* the object carries its true type, the allocation class its origin implies, and size(type) usable bytes *)
Obtain == /\ IsEv("obtain") /\ E.exc = ""
          /\ E.type = E.wanttype /\ ClsName(E.alloc) = E.wantcls /\ E.usable = 1
          /\ E.ingc = E.reg                    \* the collector knows exactly the objects that were made through new / new_root / alloc / alloc_root / copy
          /\ ocls' = E.wantcls /\ oreg' = (E.reg = 1) /\ gone' = FALSE
Dispose == /\ IsEv("dispose") /\ ~gone
           /\ LET e == Expect(ocls, oreg, E.what) IN
              CASE e.kind = "release" -> E.exc = "" /\ E.freed = 1 /\ E.fin <= 1 /\ gone' = TRUE        \* released, exactly once
                [] e.kind = "ignored" -> E.exc = "" /\ E.freed = 0 /\ E.same = 1 /\ gone' = FALSE
                [] e.kind = "swap" -> E.exc = "" /\ E.freed = 0 /\ E.clsok = 1 /\ gone' = FALSE
                [] e.kind = "ok" -> E.exc = "" /\ E.freed = 0 /\ gone' = FALSE
                [] e.kind = "refuse" -> E.exc \in e.excs /\ E.freed = 0 /\ E.same = 1 /\ E.fin = 0 /\ gone' = FALSE     \* raised, object intact
           /\ UNCHANGED <<ocls, oreg>>
(* heap objects deleted by their owner's destructor while the collector sweeps: each is finalised at most once, none twice,
   and no release of an already released block is attempted (the library reports that as ValueError) *)
Owned == /\ IsEv("owned") /\ UNCHANGED <<ocls, oreg, gone>>
         /\ E.exc = "" /\ E.lerr = 0 /\ E.issued >= E.pairs /\ E.retired <= E.issued
TNext == Plain \/ Obtain \/ Dispose \/ Owned
TSpec == TInit /\ [][TNext]_tv
Accepted == LET d == TLCGet("stats").diameter IN
            /\ PrintT(<<"TRACE_MATCHED", d - 1, Len(T)>>)
            /\ d - 1 = Len(T)
=============================================================================
