SPECIFICATION Spec
CONSTANTS
  Vals = {1, 2, 3}
  Odd = 99
  MaxLen = 6
  HoldAside = FALSE
INVARIANT PermAlways
INVARIANT RaisedIff
INVARIANT SortedIfNot
INVARIANT Untouched
CHECK_DEADLOCK FALSE
