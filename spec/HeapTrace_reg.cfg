SPECIFICATION Spec
CONSTANT Mode = "reg"
POSTCONDITION Accepted
CHECK_DEADLOCK FALSE
