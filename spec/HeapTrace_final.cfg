SPECIFICATION Spec
CONSTANT Mode = "final"
POSTCONDITION Accepted
CHECK_DEADLOCK FALSE
