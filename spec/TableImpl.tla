----------------------------- MODULE TableImpl -----------------------------
(***************************************************************************)
(* Layer I for C02: src/Table.c transcribed action by action.              *)
(*                                                                         *)
(*   slots/nslots/nitems   struct Table { data, nslots, nitems }           *)
(*   SetLoop               the while(true) loop of Table_Set_Move          *)
(*   Find                  the probe loop shared by Table_Mem/Get/Rem      *)
(*   Shift                 the backward-shift loop of Table_Rem            *)
(*   Rehash                Table_Rehash (re-inserts in old slot order)     *)
(*   Ideal                 Table_Ideal_Size over Table_Primes              *)
(*                                                                         *)
(* One action per public call (set, rem, resize, copy/assign).  The ghost  *)
(* variable g follows the abstract FiniteMap; TLC checks after every step  *)
(* that the slot array *is* that map (refinement by invariant) and that    *)
(* lookups of every key of the universe, present or absent, agree.         *)
(*                                                                         *)
(* Switches select the code as it was when a defect was found:             *)
(*   Strict   = FALSE : `if (j >= p)` in Table_Set_Move (duplicates a key)  *)
(*   FixClear = FALSE : set after resize(t,0) computes hash % 0            *)
(* The default configuration has both TRUE (the tree after the fix:        *)
(* commits); Table_bug*.cfg show that TLC finds each defect.               *)
(***************************************************************************)
EXTENDS Integers, FiniteSets, Sequences, TLC, Json

CONSTANTS Keys,        \* a set of naturals; Hash(k) = k as for Int keys
          Vals,
          MaxItems,    \* bound on nitems
          Strict, FixClear,
          Emit         \* TRUE: print every explored transition (edge cover for replay)

VARIABLES slots, nslots, nitems, g, act, crashed

vars == <<slots, nslots, nitems, g, act, crashed>>
view == <<slots, nslots, nitems, g, crashed>>          \* VIEW: everything but the action label (ghost included: a step that changes only g must be judged)

FM == INSTANCE FiniteMap WITH m <- g

Primes == <<0, 1, 5, 11, 23, 53, 101>>
Ideal(n) == LET s == ((n + 1) * 10) \div 9                 \* (size_t)((double)(n+1) / 0.9)
            IN  Primes[CHOOSE i \in 1..Len(Primes) :
                         Primes[i] >= s /\ \A j \in 1..(i-1) : Primes[j] < s]

Hash(k) == k
Empty == [h |-> 0, k |-> 0, v |-> 0]
Blank(n) == [i \in 0..(n-1) |-> Empty]

Probe(n, i, h) == LET v == i - (h - 1) IN IF v < 0 THEN n + v ELSE v

(* Table_Set_Move's loop.  Returns <<slots', inserted?>>. *)
RECURSIVE SetLoop(_, _, _, _, _)
SetLoop(S, n, i, j, carry) ==
  IF S[i].h = 0 THEN <<[S EXCEPT ![i] = carry], TRUE>>
  ELSE IF S[i].k = carry.k THEN <<[S EXCEPT ![i] = carry], FALSE>>
  ELSE LET p == Probe(n, i, S[i].h)
           swap == IF Strict THEN j > p ELSE j >= p
       IN IF swap THEN SetLoop([S EXCEPT ![i] = carry], n, (i + 1) % n, p + 1, S[i])
          ELSE SetLoop(S, n, (i + 1) % n, j + 1, carry)

SetMove(S, n, k, v) == LET i == Hash(k) % n IN SetLoop(S, n, i, 0, [h |-> i + 1, k |-> k, v |-> v])

(* probe loop of Table_Mem / Table_Get / Table_Rem: slot index or -1 *)
RECURSIVE Find(_, _, _, _, _)
Find(S, n, i, j, k) ==
  IF S[i].h = 0 \/ j > Probe(n, i, S[i].h) THEN -1
  ELSE IF S[i].k = k THEN i
  ELSE Find(S, n, (i + 1) % n, j + 1, k)

Lookup(S, n, k) == IF n = 0 THEN -1 ELSE Find(S, n, Hash(k) % n, 0, k)

(* backward shift after a removal at slot i *)
RECURSIVE Shift(_, _, _)
Shift(S, n, i) == LET ni == (i + 1) % n IN
  IF S[ni].h # 0 /\ Probe(n, ni, S[ni].h) > 0
  THEN Shift([S EXCEPT ![i] = S[ni], ![ni] = Empty], n, ni)
  ELSE S

(* Table_Rehash: old slots re-inserted in slot order; returns <<slots, count>> *)
RECURSIVE RehashFrom(_, _, _, _, _, _)
RehashFrom(S, oldn, i, N, newn, cnt) ==
  IF i = oldn THEN <<N, cnt>>
  ELSE IF S[i].h = 0 THEN RehashFrom(S, oldn, i + 1, N, newn, cnt)
  ELSE LET r == SetMove(N, newn, S[i].k, S[i].v)
       IN RehashFrom(S, oldn, i + 1, r[1], newn, IF r[2] THEN cnt + 1 ELSE cnt)

Rehash(S, oldn, newn) == RehashFrom(S, oldn, 0, Blank(newn), newn, 0)

Occupied == {i \in 0..(nslots - 1) : slots[i].h # 0}
(* the abstraction function: which map do the slots represent? *)
Abs == [k \in {slots[i].k : i \in Occupied} |->
          slots[CHOOSE i \in Occupied : slots[i].k = k].v]

-----------------------------------------------------------------------------
Init == /\ nslots = 1 /\ slots = Blank(1) /\ nitems = 0          \* new(Table, K, V): Ideal(0) = 1
        /\ g = FM!EmptyMap /\ act = [op |-> "new"] /\ crashed = FALSE

(* Table_Set = Table_Set_Move; Table_Resize_More *)
Set(k, v) ==
  /\ ~crashed
  /\ (k \in DOMAIN g \/ nitems < MaxItems)
  /\ act' = [op |-> "set", k |-> k, v |-> v]
  /\ g' = FM!Put(g, k, v)
  /\ IF nslots = 0 /\ ~FixClear
     THEN crashed' = TRUE /\ UNCHANGED <<slots, nslots, nitems>>          \* hash(key) % 0
     ELSE LET n0 == IF nslots = 0 THEN Ideal(0) ELSE nslots               \* repaired: re-establish slots
              S0 == IF nslots = 0 THEN Blank(n0) ELSE slots
              r  == SetMove(S0, n0, k, v)
              ni == IF r[2] THEN nitems + 1 ELSE nitems
              id == Ideal(ni)
          IN /\ crashed' = FALSE
             /\ IF id > n0
                THEN LET rh == Rehash(r[1], n0, id)
                     IN nslots' = id /\ slots' = rh[1] /\ nitems' = rh[2]     \* rehash recounts
                ELSE nslots' = n0 /\ slots' = r[1] /\ nitems' = ni

(* Table_Rem *)
Rem(k) ==
  /\ ~crashed
  /\ LET i == Lookup(slots, nslots, k) IN
     IF i = -1
     THEN /\ act' = [op |-> "rem", k |-> k, exc |-> "KeyError"]
          /\ UNCHANGED <<slots, nslots, nitems, g, crashed>>
     ELSE LET S1 == Shift([slots EXCEPT ![i] = Empty], nslots, i)
              ni == nitems - 1
              id == Ideal(ni)
          IN /\ act' = [op |-> "rem", k |-> k, exc |-> ""]
             /\ g' = FM!Drop(g, k)
             /\ crashed' = FALSE
             /\ IF id < nslots
                THEN LET rh == Rehash(S1, nslots, id)
                     IN nslots' = id /\ slots' = rh[1] /\ nitems' = rh[2]
                ELSE nslots' = nslots /\ slots' = S1 /\ nitems' = ni

(* Table_Resize: 0 clears (nslots = 0!); otherwise reserve by rehashing *)
Resize(n) ==
  /\ ~crashed
  /\ IF n = 0
     THEN /\ act' = [op |-> "resize", n |-> 0, exc |-> ""]
          /\ nslots' = 0 /\ slots' = Blank(0) /\ nitems' = 0 /\ g' = FM!EmptyMap /\ crashed' = FALSE
     ELSE IF n < nitems
     THEN /\ act' = [op |-> "resize", n |-> n, exc |-> "FormatError"]
          /\ UNCHANGED <<slots, nslots, nitems, g, crashed>>
     ELSE LET id == Ideal(n)
              rh == Rehash(slots, nslots, id)
          IN /\ act' = [op |-> "resize", n |-> n, exc |-> ""]
             /\ nslots' = id /\ slots' = rh[1] /\ nitems' = rh[2]
             /\ UNCHANGED <<g, crashed>>

(* copy(t) (alloc + Table_Assign): a fresh table of Ideal(len) slots filled in the   *)
(* source's iteration order with Table_Set_Move, no growth check.  The model carries  *)
(* on with the copy: layouts reachable only through copies are explored too.          *)
RECURSIVE FillFrom(_, _, _, _, _, _)
FillFrom(S, oldn, i, N, newn, cnt) ==
  IF i = oldn THEN <<N, cnt>>
  ELSE IF S[i].h = 0 THEN FillFrom(S, oldn, i + 1, N, newn, cnt)
  ELSE LET r == SetMove(N, newn, S[i].k, S[i].v)
       IN FillFrom(S, oldn, i + 1, r[1], newn, IF r[2] THEN cnt + 1 ELSE cnt)

CopyCont ==
  /\ ~crashed
  /\ LET id == Ideal(nitems)
         r == FillFrom(slots, nslots, 0, Blank(id), id, 0)
     IN /\ act' = [op |-> "copy"]
        /\ nslots' = id /\ slots' = r[1] /\ nitems' = r[2]
        /\ UNCHANGED <<g, crashed>>

Next == \/ \E k \in Keys, v \in Vals : Set(k, v)
        \/ \E k \in Keys : Rem(k)
        \/ \E n \in 0..(MaxItems + 2) : Resize(n)
        \/ CopyCont

Spec == Init /\ [][Next]_vars

-----------------------------------------------------------------------------
(* Refinement: the slot array is exactly the abstract map. *)
NoCrash  == ~crashed
CountOK  == nitems = Cardinality(DOMAIN g) /\ Cardinality(Occupied) = nitems
NoDup    == \A i, j \in Occupied : slots[i].k = slots[j].k => i = j
Refines  == Abs = g
FindOK   == \A k \in Keys :                         \* get/mem agree, for present and absent keys
              LET i == Lookup(slots, nslots, k) IN
              IF k \in DOMAIN g THEN i # -1 /\ slots[i].k = k /\ slots[i].v = g[k] ELSE i = -1
HomeOK   == \A i \in Occupied : slots[i].h = (Hash(slots[i].k) % nslots) + 1
(* Robin-hood ordering: along a cluster probe distances grow by at most one *)
RobinOK  == \A i \in Occupied : LET ni == (i + 1) % nslots IN
              (nslots > 1 /\ slots[ni].h # 0) => Probe(nslots, ni, slots[ni].h) <= Probe(nslots, i, slots[i].h) + 1
LoadOK   == nslots = 0 \/ nitems <= nslots
MapOK    == NoCrash /\ CountOK /\ NoDup /\ Refines /\ FindOK /\ HomeOK /\ LoadOK

(* the ghost follows the abstract specification step by step *)
AbstractStep == [][FM!Next]_g

-----------------------------------------------------------------------------
(* Edge emission for the replay direction: every explored transition once. *)
Sid(S, n) == <<n, [i \in 1..n |-> IF S[i-1].h = 0 THEN -1 ELSE S[i-1].k * 100 + S[i-1].v]>>
EmitEdge == Emit => PrintT(<<"EDGE", ToJson([f |-> Sid(slots, nslots), a |-> act', t |-> Sid(slots', nslots')])>>)
=============================================================================
