------------------------------ MODULE Registry ------------------------------
(***************************************************************************)
(* Layer I for C17: the collector's pointer table of src/GC.c.             *)
(*   SetPtr     GC_Set_Ptr   (robin hood; displaces on j >= p)             *)
(*   Find       GC_Mem_Ptr / the probe loop of GC_Rem_Ptr, GC_Mark_Item    *)
(*   RemAt      backward shift of GC_Rem_Ptr and GC_Sweep                  *)
(*   Rehash     GC_Rehash (GC_Resize_More / GC_Resize_Less, GC_Ideal_Size) *)
(*   Sweep      GC_Sweep: walk the slots, remove every unmarked non-root    *)
(*              entry in place and RE-EXAMINE the slot (the shift may have  *)
(*              moved another entry into it, also around the end of the     *)
(*              array), then clear the marks, then shrink                   *)
(* Abstractly (layer A) the registry is a set of addresses with root flags; *)
(* the ghost variables live/rootf follow that meaning and the invariants    *)
(* say the table is exactly that set after every operation.                 *)
(*   Recheck = FALSE seeds the classic compaction mistake (advance after a  *)
(*   removal) to show the invariants are not vacuous.                       *)
(***************************************************************************)
EXTENDS Integers, FiniteSets, Sequences, TLC

CONSTANTS Addrs, MaxItems, Recheck

VARIABLES ent, nslots, nitems, live, rootf, act
vars == <<ent, nslots, nitems, live, rootf, act>>
view == <<ent, nslots, nitems, live, rootf>>

Primes == <<0, 1, 5, 11, 23, 53>>
Ideal(n) == LET s == ((n + 1) * 10) \div 9
            IN  Primes[CHOOSE i \in 1..Len(Primes) : Primes[i] >= s /\ \A j \in 1..(i-1) : Primes[j] < s]
Hash(p) == p
Empty == [p |-> -1, h |-> 0, root |-> FALSE, marked |-> FALSE]
Blank(n) == [i \in 0..(n-1) |-> Empty]
Probe(n, i, h) == LET v == i - (h - 1) IN IF v < 0 THEN n + v ELSE v

RECURSIVE SetLoop(_, _, _, _, _)
SetLoop(S, n, i, j, e) ==
  IF S[i].h = 0 THEN [S EXCEPT ![i] = e]
  ELSE IF S[i].p = e.p THEN S
  ELSE LET p == Probe(n, i, S[i].h) IN
       IF j >= p THEN SetLoop([S EXCEPT ![i] = e], n, (i + 1) % n, p + 1, S[i])
       ELSE SetLoop(S, n, (i + 1) % n, j + 1, e)
SetPtr(S, n, p, root) == LET i == Hash(p) % n IN SetLoop(S, n, i, 0, [p |-> p, h |-> i + 1, root |-> root, marked |-> FALSE])

RECURSIVE Find(_, _, _, _, _)
Find(S, n, i, j, p) == IF S[i].h = 0 \/ j > Probe(n, i, S[i].h) THEN -1
                       ELSE IF S[i].p = p THEN i ELSE Find(S, n, (i + 1) % n, j + 1, p)
Lookup(S, n, p) == IF n = 0 THEN -1 ELSE Find(S, n, Hash(p) % n, 0, p)

RECURSIVE Shift(_, _, _)
Shift(S, n, j) == LET nj == (j + 1) % n IN
  IF S[nj].h # 0 /\ Probe(n, nj, S[nj].h) > 0 THEN Shift([S EXCEPT ![j] = S[nj], ![nj] = Empty], n, nj) ELSE S
RemAt(S, n, i) == Shift([S EXCEPT ![i] = Empty], n, i)

RECURSIVE RehashFrom(_, _, _, _, _)
RehashFrom(S, oldn, i, N, newn) ==
  IF i = oldn THEN N
  ELSE IF S[i].h = 0 THEN RehashFrom(S, oldn, i + 1, N, newn)
  ELSE RehashFrom(S, oldn, i + 1, SetPtr(N, newn, S[i].p, S[i].root), newn)      \* marks are not carried over
Rehash(S, oldn, newn) == RehashFrom(S, oldn, 0, Blank(newn), newn)

(* phase 1 of GC_Sweep; returns <<entries, number removed>> *)
RECURSIVE SweepFrom(_, _, _, _)
SweepFrom(S, n, i, removed) ==
  IF i >= n THEN <<S, removed>>
  ELSE IF S[i].h = 0 \/ S[i].marked \/ S[i].root THEN SweepFrom(S, n, i + 1, removed)
  ELSE SweepFrom(RemAt(S, n, i), n, IF Recheck THEN i ELSE i + 1, removed + 1)

Occupied == {i \in 0..(nslots - 1) : ent[i].h # 0}

-----------------------------------------------------------------------------
Init == nslots = 0 /\ ent = Blank(0) /\ nitems = 0 /\ live = {} /\ rootf = [a \in Addrs |-> FALSE] /\ act = [op |-> "init"]

(* GC_Set: count, grow, insert *)
Add(p, root) ==
  /\ p \notin live /\ nitems < MaxItems
  /\ act' = [op |-> "add", p |-> p, root |-> root]
  /\ LET ni == nitems + 1
         id == Ideal(ni)
         S1 == IF id > nslots THEN Rehash(ent, nslots, id) ELSE ent
         n1 == IF id > nslots THEN id ELSE nslots
     IN ent' = SetPtr(S1, n1, p, root) /\ nslots' = n1 /\ nitems' = ni
  /\ live' = live \cup {p} /\ rootf' = [rootf EXCEPT ![p] = root]

(* GC_Rem: remove if known (unknown pointers are ignored), shrink *)
Rem(p) ==
  /\ act' = [op |-> "rem", p |-> p]
  /\ LET i == Lookup(ent, nslots, p) IN
     IF i = -1 THEN UNCHANGED <<ent, nslots, nitems, live, rootf>>
     ELSE LET S1 == RemAt(ent, nslots, i)
              ni == nitems - 1
              id == Ideal(ni)
          IN /\ IF id < nslots THEN ent' = Rehash(S1, nslots, id) /\ nslots' = id ELSE ent' = S1 /\ nslots' = nslots
             /\ nitems' = ni /\ live' = live \ {p} /\ rootf' = [rootf EXCEPT ![p] = FALSE]

(* a collection: some subset of the entries was marked; everything else that is not a root goes *)
Sweep(M) ==
  /\ nslots > 0 /\ act' = [op |-> "sweep", marked |-> M]
  /\ LET S0 == [i \in 0..(nslots - 1) |-> IF ent[i].h # 0 /\ ent[i].p \in M THEN [ent[i] EXCEPT !.marked = TRUE] ELSE ent[i]]
         r  == SweepFrom(S0, nslots, 0, 0)
         S1 == [i \in 0..(nslots - 1) |-> [r[1][i] EXCEPT !.marked = FALSE]]
         ni == nitems - r[2]
         id == Ideal(ni)
         keep == {p \in live : p \in M \/ rootf[p]}
     IN /\ IF id < nslots THEN ent' = Rehash(S1, nslots, id) /\ nslots' = id ELSE ent' = S1 /\ nslots' = nslots
        /\ nitems' = ni /\ live' = keep /\ rootf' = [a \in Addrs |-> rootf[a] /\ a \in keep]

Next == \/ \E p \in Addrs, r \in BOOLEAN : Add(p, r)
        \/ \E p \in Addrs : Rem(p)
        \/ \E M \in SUBSET live : Sweep(M)
Spec == Init /\ [][Next]_vars

-----------------------------------------------------------------------------
Exact    == {ent[i].p : i \in Occupied} = live                                  \* exactly the live managed objects
NoDup    == \A i, j \in Occupied : ent[i].p = ent[j].p => i = j                  \* each once
CountOK  == nitems = Cardinality(live) /\ Cardinality(Occupied) = nitems         \* the count matches
RootsOK  == \A i \in Occupied : ent[i].root = rootf[ent[i].p]                    \* with the root flag it was given
MemOK    == \A p \in Addrs : (Lookup(ent, nslots, p) # -1) = (p \in live)        \* mem() right for live AND dead addresses
MarksClear == \A i \in Occupied : ~ent[i].marked
RegistryOK == Exact /\ NoDup /\ CountOK /\ RootsOK /\ MemOK /\ MarksClear
=============================================================================
