----------------------------- MODULE ExcMachine -----------------------------
(***************************************************************************)
(* C07: the setjmp exception machine of src/Exception.c against the        *)
(* structured meaning of try / catch / throw.                              *)
(*                                                                         *)
(* Machine state: depth, active, obj (struct Exception), driven by the     *)
(* five runtime entry points exactly as the try / catch macros compose     *)
(* them:                                                                   *)
(*   try {            exception_try:   depth++, active = FALSE, setjmp     *)
(*     body           on longjmp:      exception_try_fail: active = TRUE   *)
(*   }                exception_try_end: depth--                           *)
(*   catch (e in F)   exception_catch(F): NULL if ~active; obj if F is     *)
(*                    empty or contains obj; otherwise longjmp outward or  *)
(*                    Exception_Error (exit) at depth 0                    *)
(* The model executes ALL programs lazily: at every point any statement    *)
(* may come next (enter a try with any filter, throw any kind, a visible   *)
(* statement, the end of the current body or handler), bounded by nesting  *)
(* and a step budget, so each behaviour is one dynamic path of a program.  *)
(* The reference semantics (ref) is the block-structured meaning; the      *)
(* invariant says the machine took the same decisions.                     *)
(*   ClearActive = FALSE is exception_catch as found: `active` survives a  *)
(*   handled exception and fires again at the end of an enclosing body.    *)
(*   ObjAfterMsg = FALSE is exception_throw as found: the object is put    *)
(*   into the record BEFORE the message is formatted, and a message        *)
(*   argument whose Show instance runs a complete try / throw / catch of   *)
(*   its own (ThrowNested) leaves ITS object there.                        *)
(*   ObjKeptInCatch = FALSE is exception_catch as found: it re-reads the   *)
(*   record after every comparison with a filter item (ThrowCmpNested).    *)
(***************************************************************************)
EXTENDS Integers, Sequences, FiniteSets, TLC, Json

\* FilterTry: "off" | "asfound" | "kept" (see ThrowFilterTry)
CONSTANTS Kinds, MaxNest, MaxSteps, ClearActive, ObjAfterMsg, ObjKeptInCatch, FilterTry, Emit

VARIABLES cs,        \* lexical context: sequence of [f |-> filter, pc |-> "body" | "handler"]
          depth, active, obj,      \* the machine
          out, ref,                \* what happened (machine) / what block structure says should happen
          halted, steps, act
vars == <<cs, depth, active, obj, out, ref, halted, steps, act>>
view == <<cs, depth, active, obj, out, ref, halted, steps>>

Filters == SUBSET Kinds                                  \* {} = catch (e) without a list: catches everything
Matches(f, e) == f = {} \/ e \in f
None == "none"

BodyIdx(c) == {i \in 1..Len(c) : c[i].pc = "body"}
Max(S) == CHOOSE m \in S : \A x \in S : x <= m

(* structured meaning of throw e in context c: index of the handling frame, or 0 (nobody handles it) *)
RefTarget(c, e) == LET ok == {i \in BodyIdx(c) : Matches(c[i].f, e)} IN IF ok = {} THEN 0 ELSE Max(ok)

(* the machine: longjmp to the innermost body frame, try_fail, try_end, exception_catch; repeat while it re-raises.  *)
(* returns <<index of the frame whose handler runs or 0 for Exception_Error, depth afterwards>>                     *)
RECURSIVE MachTarget(_, _, _, _)
MachTarget(c, lim, d, e) ==
  LET bs == {i \in BodyIdx(c) : i <= lim} IN
  IF d = 0 \/ bs = {} THEN <<0, 0>>
  ELSE LET i == Max(bs) IN
       IF Matches(c[i].f, e) THEN <<i, d - 1>> ELSE MachTarget(c, i - 1, d - 1, e)

Tick(a) == steps < MaxSteps /\ steps' = steps + 1 /\ act' = a /\ ~halted

Init == cs = <<>> /\ depth = 0 /\ active = FALSE /\ obj = None /\ out = <<>> /\ ref = <<>>
        /\ halted = FALSE /\ steps = 0 /\ act = [op |-> "init"]

EnterTry(f) ==
  /\ Tick([op |-> "try", f |-> f]) /\ Len(cs) < MaxNest
  /\ cs' = Append(cs, [f |-> f, pc |-> "body"])
  /\ depth' = depth + 1 /\ active' = FALSE                       \* exception_try
  /\ UNCHANGED <<obj, out, ref, halted>>

Mark == /\ Tick([op |-> "mark"]) /\ out' = Append(out, <<"m">>) /\ ref' = Append(ref, <<"m">>)
        /\ UNCHANGED <<cs, depth, active, obj, halted>>

(* control arrives in the handler of frame i (or nowhere) after the machine's unwinding *)
Land(t, e, stale) ==
  IF t[1] = 0
  THEN /\ out' = Append(out, <<"uncaught", e>>) /\ halted' = TRUE /\ cs' = <<>> /\ depth' = 0 /\ active' = TRUE
  ELSE /\ out' = Append(out, <<"h", t[1], e>>) /\ halted' = halted
       /\ cs' = [SubSeq(cs, 1, t[1]) EXCEPT ![t[1]].pc = "handler"]
       /\ depth' = t[2]
       /\ active' = IF ClearActive THEN FALSE ELSE TRUE

Throw(e) ==
  /\ Tick([op |-> "throw", e |-> e])
  /\ obj' = e
  /\ LET r == RefTarget(cs, e) IN
     ref' = IF r = 0 THEN Append(ref, <<"uncaught", e>>) ELSE Append(ref, <<"h", r, e>>)
  /\ Land(MachTarget(cs, Len(cs), depth, e), e, FALSE)

(* throw e, "...%$...", x where showing x runs a complete construct try { throw k } catch (..) { } of its own (one more level of   *)
(* nesting for a moment, invisible to the program): block structure says this is a throw of e like any other; the machine matches  *)
(* the filters against, and binds, whatever object its record holds when it jumps                                                  *)
ThrowNested(e, k) ==
  /\ Tick([op |-> "thrownested", e |-> e, k |-> k]) /\ depth < MaxNest + 1
  /\ LET mobj == IF ObjAfterMsg THEN e ELSE k IN
     /\ obj' = mobj
     /\ LET r == RefTarget(cs, e) IN
        ref' = IF r = 0 THEN Append(ref, <<"uncaught", e>>) ELSE Append(ref, <<"h", r, e>>)
     /\ Land(MachTarget(cs, Len(cs), depth, mobj), mobj, FALSE)

(* throw e where the innermost open construct has a filter that does not name e and whose kinds COMPARE by running a complete      *)
(* try { throw k } catch (..) { } of their own (a Cmp instance that uses exceptions): block structure says the exception travels   *)
(* on as e; the machine re-raises whatever its record holds after the comparison (ObjKeptInCatch = FALSE: as found, that is k)     *)
ThrowCmpNested(e, k) ==
  /\ BodyIdx(cs) # {} /\ LET i == Max(BodyIdx(cs)) IN cs[i].f # {} /\ e \notin cs[i].f
  /\ Tick([op |-> "throwcmpnested", e |-> e, k |-> k]) /\ depth < MaxNest + 1
  /\ LET i == Max(BodyIdx(cs))
         mobj == IF ObjKeptInCatch THEN e ELSE k IN
     /\ obj' = mobj
     /\ LET r == RefTarget(cs, e) IN
        ref' = IF r = 0 THEN Append(ref, <<"uncaught", e>>) ELSE Append(ref, <<"h", r, e>>)
     /\ Land(MachTarget(cs, i - 1, depth - 1, mobj), mobj, FALSE)

(* throw e where the FILTER EXPRESSION of the innermost open construct runs a complete try / catch of its own before it yields  *)
(* the kinds (catch (e in pick()) ...): block structure says this is a throw of e like any other.  The machine: longjmp,        *)
(* try_fail, try_end, then the filter expression: the inner exception_try clears the active flag; exception_catch finds         *)
(* nothing pending and returns NULL - no handler runs, nothing propagates, control goes on behind the construct                 *)
(* (FilterTry = "asfound"; "kept" = a design that keeps the pending exception across the inner try; "off" = no such filters:    *)
(* the open finding F-C07-filter-expression-runs-try, Exc_finding_filtertry.cfg is its model side)                              *)
ThrowFilterTry(e) ==
  /\ FilterTry # "off" /\ BodyIdx(cs) # {}
  /\ Tick([op |-> "throwfiltertry", e |-> e])
  /\ LET r == RefTarget(cs, e) IN
     ref' = IF r = 0 THEN Append(ref, <<"uncaught", e>>) ELSE Append(ref, <<"h", r, e>>)
  /\ IF FilterTry = "kept"
     THEN obj' = e /\ Land(MachTarget(cs, Len(cs), depth, e), e, FALSE)
     ELSE LET i == Max(BodyIdx(cs)) IN
          /\ obj' = e /\ active' = FALSE /\ depth' = depth - 1
          /\ cs' = SubSeq(cs, 1, i - 1)                              \* behind the construct, as if it had completed
          /\ UNCHANGED <<out, halted>>

(* the body of the innermost construct completes normally: exception_try_end, then exception_catch decides *)
EndBody ==
  /\ Tick([op |-> "endbody"]) /\ cs # <<>> /\ cs[Len(cs)].pc = "body"
  /\ ref' = ref                                                   \* block structure: nothing happens
  /\ obj' = obj
  /\ IF ~active
     THEN cs' = SubSeq(cs, 1, Len(cs) - 1) /\ depth' = depth - 1 /\ UNCHANGED <<active, out, halted>>
     ELSE (* a stale exception: handled again here if it matches, else re-raised outward *)
          IF Matches(cs[Len(cs)].f, obj)
          THEN Land(<<Len(cs), depth - 1>>, obj, TRUE)
          ELSE Land(MachTarget(cs, Len(cs) - 1, depth - 1, obj), obj, TRUE)

EndHandler ==
  /\ Tick([op |-> "endhandler"]) /\ cs # <<>> /\ cs[Len(cs)].pc = "handler"
  /\ cs' = SubSeq(cs, 1, Len(cs) - 1)
  /\ UNCHANGED <<depth, active, obj, out, ref, halted>>

Next == \/ \E f \in Filters : EnterTry(f)
        \/ \E e \in Kinds : Throw(e)
        \/ \E e, k \in Kinds : e # k /\ ThrowNested(e, k)
        \/ \E e, k \in Kinds : e # k /\ ThrowCmpNested(e, k)
        \/ \E e \in Kinds : ThrowFilterTry(e)
        \/ Mark \/ EndBody \/ EndHandler
Spec == Init /\ [][Next]_vars

-----------------------------------------------------------------------------
BlockStructure == out = ref                                       \* same handlers, same bound objects, same order
DepthOK == depth = Cardinality(BodyIdx(cs))                       \* nesting depth restored after every construct
HaltOK  == halted => (Len(ref) > 0 /\ ref[Len(ref)][1] = "uncaught")
ExcOK == BlockStructure /\ DepthOK /\ HaltOK

Sid == <<[i \in 1..Len(cs) |-> <<cs[i].f, cs[i].pc>>], depth, active, obj, Len(out), halted, steps>>
Sid2 == <<[i \in 1..Len(cs') |-> <<cs'[i].f, cs'[i].pc>>], depth', active', obj', Len(out'), halted', steps'>>
EmitEdge == Emit => PrintT(<<"EDGE", ToJson([f |-> Sid, a |-> act', t |-> Sid2])>>)
=============================================================================
