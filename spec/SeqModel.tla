------------------------------ MODULE SeqModel ------------------------------
(***************************************************************************)
(* Exhaustive model for C04 (and the fail edges of C12): all histories of  *)
(* one sequence of a given Kind over a small value set, every operation    *)
(* with every in-range and out-of-range index.  For Kind = "Array" the     *)
(* model carries the backing-store size of src/Array.c (Array_Reserve_More *)
(* n + n/2, Array_Reserve_Less, Array_Resize) so that the state graph      *)
(* crosses every growth and shrink boundary (layer I).                     *)
(***************************************************************************)
EXTENDS Sequence, Json

CONSTANTS Kind, Vals, MaxLen, Emit

Operand == <<2, 1>>      \* the fixed operand sequence of concat

VARIABLES s, nslots, act
vars == <<s, nslots, act>>
view == <<s, nslots>>

Zero == 0        \* value of the zero-filled elements List resize appends (in Vals for List runs)

More(n, slots) == IF Kind = "Array" /\ n > slots THEN n + n \div 2 ELSE slots      \* Array_Reserve_More
Less(n, slots) == IF Kind = "Array" /\ slots > n + n \div 2 THEN n ELSE slots      \* Array_Reserve_Less

Init == s = <<>> /\ nslots = 0 /\ act = [op |-> "new"]

Ok(a, s2, slots2) == act' = a /\ s' = s2 /\ nslots' = slots2
Fail(a, e) == act' = [a EXCEPT !.exc = e] /\ UNCHANGED <<s, nslots>>               \* C12: exception, nothing changes

Push(v) == Len(s) < MaxLen /\ Ok([op |-> "push", v |-> v, exc |-> ""], Append(s, v), More(Len(s) + 1, nslots))
Pop == LET a == [op |-> "pop", exc |-> ""] IN
       IF s = <<>> THEN Fail(a, "IndexOutOfBoundsError")
       ELSE Ok(a, SubSeq(s, 1, Len(s) - 1), Less(Len(s) - 1, nslots))
PushAt(v, i) == LET a == [op |-> "pushat", v |-> v, i |-> i, exc |-> ""]
                    p == PushAtPos(Kind, Len(s), i) IN
                /\ Len(s) < MaxLen
                /\ IF p = -1 THEN Fail(a, "IndexOutOfBoundsError")
                   ELSE Ok(a, InsertAt(s, p, v), More(Len(s) + 1, nslots))
PopAt(i) == LET a == [op |-> "popat", i |-> i, exc |-> ""]
                p == Idx(Len(s), i) IN
            IF p = -1 THEN Fail(a, "IndexOutOfBoundsError")
            ELSE Ok(a, RemoveAt(s, p), Less(Len(s) - 1, nslots))
Set(i, v) == LET a == [op |-> "set", i |-> i, v |-> v, exc |-> ""]
                 p == Idx(Len(s), i) IN
             IF p = -1 THEN Fail(a, "IndexOutOfBoundsError") ELSE Ok(a, ReplaceAt(s, p, v), nslots)
Get(i) == LET a == [op |-> "get", i |-> i, exc |-> ""] IN
          IF Idx(Len(s), i) = -1 THEN Fail(a, "IndexOutOfBoundsError") ELSE Ok(a, s, nslots)
Rem(v) == LET a == [op |-> "rem", v |-> v, exc |-> ""] IN
          IF ~Mem(s, v) THEN Fail(a, "ValueError") ELSE Ok(a, RemFirst(s, v), Less(Len(s) - 1, nslots))
Concat == /\ Len(s) + Len(Operand) <= MaxLen
          /\ Ok([op |-> "concat", exc |-> ""], s \o Operand, More(Len(s) + Len(Operand), nslots))
Resize(n) == LET a == [op |-> "resize", n |-> n, exc |-> ""]
                 r == Resized(Kind, s, n, Zero) IN
             IF ~r.ok THEN Fail(a, "FormatError")
             ELSE Ok(a, r.s, IF Kind = "Array" THEN n ELSE nslots)
Sort == IF Kind = "List" THEN Fail([op |-> "sort", exc |-> ""], "ClassError")      \* List does not implement Sort
        ELSE Ok([op |-> "sort", exc |-> ""], Sorted(s), nslots)
CopyCont == Ok([op |-> "copy", exc |-> ""], s, IF Kind = "Array" THEN Len(s) ELSE nslots)   \* carry on with copy(s): exact-size store

Next == \/ \E v \in Vals : Push(v) \/ Rem(v)
        \/ Pop \/ Concat \/ Sort \/ CopyCont
        \/ \E v \in Vals, i \in (-(MaxLen + 2))..(MaxLen + 1) : PushAt(v, i) \/ Set(i, v)
        \/ \E i \in (-(MaxLen + 2))..(MaxLen + 1) : PopAt(i) \/ Get(i)
        \/ \E n \in 0..(MaxLen + 1) : (Kind = "List" => n <= MaxLen) /\ Resize(n)

Spec == Init /\ [][Next]_vars

TypeOK == /\ s \in Seq(Vals \cup {Zero}) /\ Len(s) <= MaxLen
CapacityOK == Kind = "Array" => Len(s) <= nslots                      \* the backing store always holds the elements
SortOK == [][(act'.op = "sort" /\ act'.exc = "") => (IsSorted(s') /\ IsPerm(s, s'))]_vars   \* the operational Sorted meets its declarative meaning
FailStutter == [][act'.exc # "" => s' = s]_vars                       \* C12 on the model: a failing call changes nothing
RemOK == [][(act'.op = "rem" /\ act'.exc = "") =>
              (Len(s') = Len(s) - 1 /\ Count(s', act'.v) = Count(s, act'.v) - 1
               /\ \A p \in 1..(FirstPos(s, act'.v) - 1) : s'[p] = s[p])]_vars

Sid(q, n) == <<q, n>>
EmitEdge == Emit => PrintT(<<"EDGE", ToJson([f |-> Sid(s, nslots), a |-> act', t |-> Sid(s', nslots')])>>)
=============================================================================
