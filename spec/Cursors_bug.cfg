SPECIFICATION Spec
CONSTANTS
  GridMax = 8
  MaxLen = 6
  AsFound = TRUE
INVARIANT GridOK
