SPECIFICATION Spec
CONSTANTS
  Kinds = {"A", "B"}
  MaxNest = 3
  MaxSteps = 9
  ObjKeptInCatch = TRUE
  ObjAfterMsg = TRUE
  ClearActive = FALSE
  FilterTry = "off"
  Emit = FALSE
VIEW view
INVARIANT ExcOK
ACTION_CONSTRAINT EmitEdge
