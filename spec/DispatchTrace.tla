---------------------------- MODULE DispatchTrace ----------------------------
(***************************************************************************)
(* C08 trace validation: every lookup the API offers (instance, implements, *)
(* type_instance, type_implements, method lookup, implements_method) on     *)
(* built-in and run-time types must answer exactly what the type declares:  *)
(* the instance of the FIRST declared entry with that class name, or none - *)
(* whatever was looked up before, in whatever order, from whatever thread.  *)
(* The declaration of a type is logged by an independent scan of the raw    *)
(* type record by class NAME (decl events).                                 *)
(***************************************************************************)
EXTENDS Integers, Sequences, FiniteSets, TLC, Json, IOUtils

T == ndJsonDeserialize(IOEnv.TRACE)
VARIABLES l, decl
vars == <<l, decl>>

IsEv(op) == l <= Len(T) /\ T[l].op = op /\ l' = l + 1
E == T[l]
With(f, k, v) == [y \in (DOMAIN f) \cup {k} |-> IF y = k THEN v ELSE f[y]]

First(t, c) == LET idx == {i \in 1..Len(decl[t].cls) : decl[t].cls[i] = c}
               IN IF idx = {} THEN 0 ELSE CHOOSE i \in idx : \A j \in idx : i <= j
EmptyMember(t, i, m) == \E k \in 1..Len(decl[t].nulls) : decl[t].nulls[k] = <<i, m>>

Init == l = 1 /\ decl = [x \in {} |-> 0]
Reset == IsEv("reset") /\ decl' = [x \in {} |-> 0]
End == IsEv("end") /\ UNCHANGED decl
Decl == IsEv("decl") /\ decl' = With(decl, E.t, [cls |-> E.cls, nulls |-> E.nulls])
(* a run-time type takes up to 256 instances in any order; more is refused *)
RtOk == IsEv("rt") /\ E.n <= 256 /\ E.exc = "" /\ UNCHANGED decl
RtTooMany == IsEv("rt") /\ E.n > 256 /\ E.exc = "OutOfMemoryError" /\ UNCHANGED decl

Look ==
  /\ IsEv("look") /\ E.t \in DOMAIN decl /\ UNCHANGED decl
  /\ (E.how \in {"simpl", "sinst"} => 0 \in DOMAIN decl)
  /\ LET f == IF E.how \in {"simpl", "sinst"} THEN First(0, E.c) ELSE First(E.t, E.c) IN      \* s...: the subject is the type object, an instance of Type (type 0)
     CASE E.how \in {"inst", "tinst", "sinst"} -> E.exc = "" /\ E.r = f
       [] E.how = "simpl" -> E.exc = "" /\ E.r = (IF f # 0 THEN 1 ELSE 0)
       [] E.how \in {"impl", "timpl"} -> E.exc = "" /\ E.r = (IF f # 0 THEN 1 ELSE 0)
       [] E.how \in {"meth", "tmeth"} ->
            IF f = 0 \/ EmptyMember(E.t, f, E.m) THEN E.exc = "ClassError"        \* raised INSTEAD of returning anything callable
            ELSE E.exc = "" /\ E.r = f
       [] E.how \in {"implm", "timplm"} -> E.exc = "" /\ E.r = (IF f # 0 /\ ~EmptyMember(E.t, f, E.m) THEN 1 ELSE 0)
       [] OTHER -> FALSE

(* cast asks the Cast instance the OBJECT's type declares (own = 1: accepts everything, own = 2: refuses everything with *)
(* KeyError); without one the types must be identical                                                                 *)
Cast == /\ IsEv("cast") /\ UNCHANGED decl
        /\ CASE E.own = 1 -> E.exc = "" /\ E.r = 1
             [] E.own = 2 -> E.exc = "KeyError"
             [] OTHER -> IF E.t = E.u THEN E.exc = "" /\ E.r = 1 ELSE E.exc = "ValueError"

(* no type at all (NULL) where a type is expected: ValueError, like type_of(NULL) *)
NullType == IsEv("nulltype") /\ E.exc = "ValueError" /\ UNCHANGED decl
(* Type objects are not values to be exchanged (they carry their instances and cached answers): swap refuses them *)
SwapTypes == IsEv("swaptypes") /\ E.exc = "TypeError" /\ UNCHANGED decl
(* size, alloc, new, del, current, name of a TYPE reach the instances that type declares (and only once each) *)
Wrappers == IsEv("wrappers") /\ E.exc = "" /\ E.bad = 0 /\ UNCHANGED decl
Next == Wrappers \/ Reset \/ End \/ Decl \/ RtOk \/ RtTooMany \/ Look \/ Cast \/ NullType \/ SwapTypes
Spec == Init /\ [][Next]_vars
Accepted == LET d == TLCGet("stats").diameter IN
            /\ PrintT(<<"TRACE_MATCHED", d - 1, Len(T)>>)
            /\ d - 1 = Len(T)
=============================================================================
