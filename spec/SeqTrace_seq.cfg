SPECIFICATION Spec
CONSTANT Mode = "seq"
POSTCONDITION Accepted
CHECK_DEADLOCK FALSE
