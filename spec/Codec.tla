-------------------------------- MODULE Codec --------------------------------
(***************************************************************************)
(* C15, the String layer: show writes a quoted literal with the escape     *)
(* table of String_Show, look (String_Look transcribed) reads it back.     *)
(* TLC checks Dec(Enc(s)) = s and that exactly Len(Enc(s)) characters are  *)
(* consumed, for every string of length <= MaxLen over one representative  *)
(* per class: plain, each escaped character, a byte >= 0x80.               *)
(*   FallThrough = TRUE is String_Look as found: after an escape the       *)
(*   escape letter was appended as well.                                    *)
(***************************************************************************)
EXTENDS Escapes
CONSTANTS MaxLen, FallThrough
VARIABLE dummy

(* String_Look: returns <<decoded, number of characters consumed>> or <<"error", i>> *)
RECURSIVE DecFrom(_, _, _)
DecFrom(t, i, acc) ==
  IF i > Len(t) THEN <<"error", i>>
  ELSE IF t[i] = Q THEN <<acc, i>>
  ELSE IF t[i] = BS THEN
         IF i + 1 > Len(t) \/ UnEsc(t[i + 1]) = -1 THEN <<"error", i>>
         ELSE DecFrom(t, i + 2, IF FallThrough THEN acc \o <<UnEsc(t[i + 1]), t[i + 1]>> ELSE Append(acc, UnEsc(t[i + 1])))
  ELSE DecFrom(t, i + 1, Append(acc, t[i]))
Dec(t) == IF t = <<>> \/ t[1] # Q THEN <<"error", 1>> ELSE DecFrom(t, 2, <<>>)

Alpha == {65, 7, 10, 9, BS, APOS, Q, QM, 128, 255}
Strs == UNION {[1..k -> Alpha] : k \in 0..MaxLen}
RoundTrip == \A s \in Strs : LET d == Dec(Enc(s)) IN d[1] = s /\ d[2] = Len(Enc(s))
(* the reader stops at the closing quote: text that follows is left alone *)
Framing == \A s \in Strs : LET d == Dec(Enc(s) \o <<32, 65>>) IN d[1] = s /\ d[2] = Len(Enc(s))
CodecOK == RoundTrip /\ Framing
Init == dummy = 0
Next == UNCHANGED dummy
Spec == Init /\ [][Next]_dummy
=============================================================================
