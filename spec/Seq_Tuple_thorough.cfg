SPECIFICATION Spec
CONSTANTS
  Kind = "Tuple"
  Vals = {1, 2}
  MaxLen = 6
  Emit = TRUE
VIEW view
INVARIANT TypeOK
INVARIANT CapacityOK
PROPERTY SortOK
PROPERTY FailStutter
PROPERTY RemOK
ACTION_CONSTRAINT EmitEdge
