------------------------------ MODULE MapTrace ------------------------------
(***************************************************************************)
(* Trace validation for Table and Tree (C02, C03; ownership C05; failing   *)
(* operations C12).  Every line of the ndjson log written by h_map (one    *)
(* event per public call of the real library, at its return) must be a     *)
(* step of the abstract finite-map specification; the projection of every  *)
(* live container logged with the event must equal the abstract state.     *)
(*                                                                         *)
(* Tokens: keys and values are small naturals; for Trees the generator      *)
(* numbers key tokens in the reference order of the concrete values, so     *)
(* "ordered" is plain < on tokens.                                          *)
(*                                                                         *)
(* Mode selects what is *checked* and what is *adopted from the log*:       *)
(*   "map"  : everything about the map (C02/C03)                            *)
(*   "own"  : map contents adopted from the log, ownership ledger checked   *)
(*   "fail" : only failing calls are judged (exception type, no change)     *)
(***************************************************************************)
EXTENDS Integers, Sequences, FiniteSets, TLC, Json, IOUtils, SequencesExt

CONSTANT Mode

T == ndJsonDeserialize(IOEnv.TRACE)

VARIABLES l,      \* next line of T to consume
          m,      \* m[o] = abstract map of container o (tokens), DOMAIN m = live containers
          kind,   \* kind[o] \in {"Table", "Tree"}
          sig     \* sig[o] = iteration order as last logged: a failed call must not disturb it

vars == <<l, m, kind, sig>>

EmptyMap == [x \in {} |-> 0]
Put(mm, k, v) == [x \in (DOMAIN mm) \cup {k} |-> IF x = k THEN v ELSE mm[x]]
Drop(mm, k)   == [x \in (DOMAIN mm) \ {k} |-> mm[x]]
With(f, o, x) == [y \in (DOMAIN f) \cup {o} |-> IF y = o THEN x ELSE f[y]]
Without(f, o) == [y \in (DOMAIN f) \ {o} |-> f[y]]

RECURSIVE PutAll(_, _, _)
PutAll(mm, kv, i) == IF i > Len(kv) THEN mm ELSE PutAll(Put(mm, kv[i][1], kv[i][2]), kv, i + 1)

Ascending(s)  == \A i \in 1..(Len(s) - 1) : s[i] < s[i + 1]
Descending(s) == \A i \in 1..(Len(s) - 1) : s[i] > s[i + 1]

(* the map a logged (full) projection describes (used when adopting instead of checking) *)
Logged(p) == [k \in {p.pk[x] : x \in {y \in 1..Len(p.pk) : p.pg[y] > 0}} |->
                p.pg[CHOOSE x \in 1..Len(p.pk) : p.pk[x] = k]]

RECURSIVE Pow2(_)
Pow2(n) == IF n = 0 THEN 1 ELSE 2 * Pow2(n - 1)

(* C03: the white-box dump of a Tree (nodes in preorder: <<key, red, left, right, parent>>, indices into *)
(* the list, 0 = nil) is a valid red-black tree holding exactly the iteration order                     *)
RECURSIVE InOrd(_, _)
InOrd(N, n) == IF n = 0 THEN <<>> ELSE InOrd(N, N[n][3]) \o <<N[n][1]>> \o InOrd(N, N[n][4])
RECURSIVE BlackDepth(_, _)                     \* number of black nodes from n up to the root (one chain, no branching)
BlackDepth(N, n) == IF n = 0 THEN 0 ELSE BlackDepth(N, N[n][5]) + (1 - N[n][2])
Red(N, n) == n # 0 /\ N[n][2] = 1
NodesOK(p) ==
  LET N == p.nodes IN
  Len(N) > 0 =>
    /\ Len(N) = p.len
    /\ \A n \in 1..Len(N) : N[n][3] \in 0..Len(N) /\ N[n][4] \in 0..Len(N) /\ N[n][5] \in 0..Len(N)
    /\ N[1][5] = 0 /\ N[1][2] = 0                                                  \* root: no parent, black
    /\ \A n \in 1..Len(N) : /\ (N[n][3] # 0 => N[N[n][3]][5] = n)                  \* parent links
                            /\ (N[n][4] # 0 => N[N[n][4]][5] = n)
                            /\ (Red(N, n) => ~Red(N, N[n][3]) /\ ~Red(N, N[n][4]))  \* no red node has a red child
    /\ Cardinality({BlackDepth(N, n) : n \in {x \in 1..Len(N) : N[x][3] = 0 \/ N[x][4] = 0}}) <= 1   \* equal black height on every path
    /\ InOrd(N, 1) = p.it                                                          \* the structure is what iteration yields
TreeShapeOK(p) ==
  (p.kind = "Tree" /\ Len(p.rb) > 0) =>
    /\ p.rb[1] = p.len                                   \* node count
    /\ p.rb[3] = 1 /\ p.rb[4] = 1 /\ p.rb[5] = 1 /\ p.rb[6] = 1
    /\ (p.rb[2] <= 28 => Pow2(p.rb[2]) <= (p.len + 1) * (p.len + 1))      \* height <= 2*log2(n+1)
    /\ p.rb[2] <= 60
    /\ NodesOK(p)

(* the projection p of one container equals the abstract map mm *)
ProjOK(p, mm, kd) ==
  /\ p.kind = kd
  /\ p.len = Cardinality(DOMAIN mm)                                   \* len = number of bindings
  /\ (p.full = 1 =>
        /\ Len(p.it) = p.len /\ ToSet(p.it) = DOMAIN mm                \* iteration: every key exactly once
        /\ p.bw = Reverse(p.it)                                        \* backward = exact reverse
        /\ (kd = "Tree" => (Ascending(p.it) \/ Descending(p.it))))     \* strictly monotone key order
  /\ \A i \in 1..Len(p.pk) :                                           \* get / mem for present AND absent keys
       /\ p.pg[i] = (IF p.pk[i] \in DOMAIN mm THEN mm[p.pk[i]] ELSE 0)
       /\ p.pm[i] = (IF p.pk[i] \in DOMAIN mm THEN 1 ELSE 0)
  /\ TreeShapeOK(p)

AllProjOK(e, mnew, knew) ==
  /\ {e.objs[i].o : i \in 1..Len(e.objs)} = DOMAIN mnew
  /\ \A i \in 1..Len(e.objs) : ProjOK(e.objs[i], mnew[e.objs[i].o], knew[e.objs[i].o])

(* C05: ownership.  Serials of the instances inside all containers are pairwise  *)
(* distinct, and together they are exactly the live instances of the ledger      *)
(* (arguments are built and destroyed by the harness inside the call).           *)
RECURSIVE Serials(_, _)
Serials(objs, i) == IF i > Len(objs) THEN <<>> ELSE objs[i].ks \o objs[i].vs \o Serials(objs, i + 1)
OwnOK(e) ==
  e.own = 1 =>
    LET s == Serials(e.objs, 1) IN
    /\ e.lerr = 0                                     \* no double / unknown finalisation, canaries intact
    /\ Cardinality(ToSet(s)) = Len(s)                 \* no instance twice
    /\ ToSet(s) = ToSet(e.led)                        \* live = contained: nothing leaked, nothing dead inside
    /\ \A i \in 1..Len(e.objs) :
         /\ (Len(e.objs[i].ks) > 0 => Len(e.objs[i].ks) = e.objs[i].len)
         /\ (Len(e.objs[i].vs) > 0 => Len(e.objs[i].vs) = e.objs[i].len)

(* what a step must satisfy, given the abstract successor (mnew, knew) *)
Judge(e, mnew, knew) ==
  CASE Mode = "map"  -> AllProjOK(e, mnew, knew)
    [] Mode = "own"  -> OwnOK(e)
    [] Mode = "fail" -> TRUE
    [] OTHER -> FALSE

(* in "own"/"fail" mode the abstract state follows the log, so that a map defect *)
(* (reported under C02/C03) does not also raise an alarm here                     *)
Adopt(e, mnew) ==
  IF Mode = "map" THEN mnew
  ELSE [o \in {e.objs[i].o : i \in 1..Len(e.objs)} |->
          Logged(e.objs[CHOOSE i \in 1..Len(e.objs) : e.objs[i].o = o])]

IsEv(op) == l <= Len(T) /\ T[l].op = op /\ l' = l + 1
E == T[l]
SigOf(e) == [o \in {e.objs[i].o : i \in 1..Len(e.objs)} |->
               LET p == e.objs[CHOOSE i \in 1..Len(e.objs) : e.objs[i].o = o] IN p.it]
SigSame(e) == \A i \in 1..Len(e.objs) : (e.objs[i].o \in DOMAIN sig /\ e.objs[i].full = 1) =>
                 sig[e.objs[i].o] = e.objs[i].it        \* the same iteration order as before the failed call

Step(mnew, knew) == /\ Judge(E, mnew, knew)
                    /\ m' = Adopt(E, mnew) /\ kind' = knew /\ sig' = SigOf(E)

(* a failing call: documented exception, every container exactly as before *)
Fails(excs) == /\ E.exc \in excs
               /\ AllProjOK(E, m, kind) \/ Mode = "own"
               /\ OwnOK(E) \/ Mode # "own"
               /\ (Mode = "fail" => SigSame(E))
               /\ UNCHANGED <<m, kind, sig>>

-----------------------------------------------------------------------------
Init == l = 1 /\ m = EmptyMap /\ kind = EmptyMap /\ sig = EmptyMap

Reset == IsEv("reset") /\ m' = EmptyMap /\ kind' = EmptyMap /\ sig' = EmptyMap

End == IsEv("end") /\ UNCHANGED <<m, kind, sig>>
       /\ (Mode = "own" => (E.led = <<>> /\ E.lerr = 0))

New == /\ IsEv("new") /\ E.exc = ""
       /\ Step(With(m, E.o, PutAll(EmptyMap, E.init, 1)), With(kind, E.o, E.what))

Set == /\ IsEv("set") /\ E.exc = ""
       /\ Step(With(m, E.o, Put(m[E.o], E.k, E.v)), kind)

RemOk == /\ IsEv("rem") /\ E.k \in DOMAIN m[E.o] /\ E.exc = ""
         /\ Step(With(m, E.o, Drop(m[E.o], E.k)), kind)
RemFail == IsEv("rem") /\ E.k \notin DOMAIN m[E.o] /\ Fails({"KeyError"})

GetOk == /\ IsEv("get") /\ E.k \in DOMAIN m[E.o] /\ E.exc = ""
         /\ (Mode = "map" => E.r = m[E.o][E.k])
         /\ Step(m, kind)
GetFail == IsEv("get") /\ E.k \notin DOMAIN m[E.o] /\ Fails({"KeyError"})

Mem == /\ IsEv("mem") /\ E.exc = ""
       /\ (Mode = "map" => E.r = (IF E.k \in DOMAIN m[E.o] THEN 1 ELSE 0))
       /\ Step(m, kind)

(* resize: 0 clears; a Table reserves for n >= len; everything else is refused *)
ResizeClear == /\ IsEv("resize") /\ E.n = 0 /\ E.exc = ""
               /\ Step(With(m, E.o, EmptyMap), kind)
ResizeReserve == /\ IsEv("resize") /\ E.n > 0 /\ kind[E.o] = "Table" /\ E.n >= Cardinality(DOMAIN m[E.o])
                 /\ E.exc = "" /\ Step(m, kind)
ResizeFail == /\ IsEv("resize") /\ E.n > 0
              /\ (kind[E.o] = "Tree" \/ E.n < Cardinality(DOMAIN m[E.o]))
              /\ Fails({"FormatError"})

Assign == /\ IsEv("assign") /\ E.exc = ""
          /\ Step(With(m, E.o, m[E.src]), kind)            \* deep: E.src itself is re-projected and must be unchanged
Copy == /\ IsEv("copy") /\ E.exc = ""
        /\ Step(With(m, E.o, m[E.src]), With(kind, E.o, kind[E.src]))
Snap == IsEv("snap") /\ Step(m, kind)
(* assigned from a map of other key / value types (two bindings) and back from a copy of itself: as before, nothing left behind *)
Xasg == IsEv("xasg") /\ E.exc = "" /\ E.n = 2 /\ Step(m, kind)
(* a map of E.n bindings built at once (sizes beyond the library's size table included): all there, nothing else, iteration complete *)
Scale == IsEv("scale") /\ E.exc = "" /\ E.len = E.n /\ E.seen = E.n /\ E.bad = 0 /\ UNCHANGED <<m, kind, sig>>
Del == /\ IsEv("del")
       /\ Step(Without(m, E.o), Without(kind, E.o))

(* C12: invalid arguments -> documented exception, nothing changes *)
Bad == /\ IsEv("bad")
       /\ Fails(CASE E.what \in {"settype", "setval", "gettype", "remtype", "memtype"} -> {"ValueError", "TypeError"}
                  [] E.what \in {"resizehuge", "resizemax"} -> {"OutOfMemoryError", "FormatError"}      \* (Tree: resizing to n > 0 is refused as such)
                  [] E.what = "newinttypes" -> {"ValueError", "TypeError"}
                  [] OTHER -> {"ValueError"})          \* (setrefuse: the value type's own Assign refuses the value)

Next == \/ Reset \/ End \/ New \/ Set \/ RemOk \/ RemFail \/ GetOk \/ GetFail \/ Mem
        \/ ResizeClear \/ ResizeReserve \/ ResizeFail \/ Assign \/ Copy \/ Snap \/ Xasg \/ Scale \/ Del \/ Bad

Spec == Init /\ [][Next]_vars

(* accept iff the whole log was consumed; prints how far it got *)
Accepted == LET d == TLCGet("stats").diameter IN
            /\ PrintT(<<"TRACE_MATCHED", d - 1, Len(T)>>)
            /\ d - 1 = Len(T)
=============================================================================
