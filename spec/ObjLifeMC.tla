------------------------------ MODULE ObjLifeMC ------------------------------
EXTENDS ObjLife
(* a small transition system over one object: TLC walks the whole how x op matrix with up to MaxOps disposals *)
CONSTANT MaxOps
VARIABLES cls, reg, state, released, n, last
vars == <<cls, reg, state, released, n, last>>

Init == /\ cls \in Classes /\ reg \in BOOLEAN /\ (reg => cls = "heap")
        /\ state = "live" /\ released = 0 /\ n = 0 /\ last = "none"
Apply(op) ==
  /\ state = "live" /\ n < MaxOps /\ n' = n + 1
  /\ LET e == Expect(cls, reg, op) IN
     /\ last' = e.kind
     /\ IF e.kind = "release" THEN state' = "released" /\ released' = released + 1 ELSE UNCHANGED <<state, released>>
  /\ UNCHANGED <<cls, reg>>
Next == \E op \in Ops : Apply(op)
Spec == Init /\ [][Next]_vars

OnlyHeapReleased == released > 0 => cls = "heap"                  \* non-heap objects are never freed
AtMostOnce == released <= 1                                        \* heap objects are released exactly once (no op applies afterwards)
RefusedIntact == (last = "refuse") => state = "live"
LifeOK == OnlyHeapReleased /\ AtMostOnce /\ RefusedIntact
=============================================================================
