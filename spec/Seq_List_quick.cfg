SPECIFICATION Spec
CONSTANTS
  Kind = "List"
  Vals = {0, 1, 2}
  MaxLen = 5
  Emit = TRUE
VIEW view
INVARIANT TypeOK
INVARIANT CapacityOK
PROPERTY SortOK
PROPERTY FailStutter
PROPERTY RemOK
ACTION_CONSTRAINT EmitEdge
