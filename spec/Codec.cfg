SPECIFICATION Spec
CONSTANTS
  MaxLen = 3
  FallThrough = FALSE
INVARIANT CodecOK
