SPECIFICATION Spec
CONSTANT MaxOps = 3
INVARIANT LifeOK
